"""Abstract interpretation of RungeKuttaIntegrator.__call__ shared by C02.4, C04.2, C05.1/2.

state = (implicit, adaptive, newton, redo, prov, failed, pdt)
  newton in {'ok','bad','na'}  -- outcome of the last stage solve (havocked at every self.step call of an implicit method)
  redo   in {True, False, None} -- value of the redo flag
  prov   in {'INPUT','SHRUNK','CONTROLLER'} -- where the value of the returned step variable comes from
  failed -- a stage solve failed at some point of this call
  pdt    -- provenance of self.dTime (the step the last self.step call was given)
"""
import ast

from .flow import Client, Engine, tri_eval
from .front import AnalysisError, dotted, fname, is_self_attr, src, walk_no_nested, const_value

NEWTON_KEY = "newton_iteration_success"


def is_newton_get(node):
    if isinstance(node, ast.Call) and isinstance(node.func, ast.Attribute) and node.func.attr == "get" and \
            is_self_attr(node.func.value, "solver_dict") and node.args and isinstance(node.args[0], ast.Constant) and node.args[0].value == NEWTON_KEY:
        return True
    if isinstance(node, ast.Subscript) and is_self_attr(node.value, "solver_dict") and isinstance(node.slice, ast.Constant) and node.slice.value == NEWTON_KEY:
        return True
    return False


class CallModel:
    def __init__(self, fn):
        self.fn = fn
        self.params = [a.arg for a in fn.args.args]
        if len(self.params) != 6:
            raise AnalysisError("integrator __call__ signature changed: %s" % self.params)
        self.step_param = self.params[5]
        self.redo = None
        for st in walk_no_nested(fn):
            if isinstance(st, ast.Assign) and isinstance(st.value, ast.Call) and dotted(st.value.func) == "self.update_timestep" and \
                    isinstance(st.targets[0], ast.Tuple) and len(st.targets[0].elts) == 2 and isinstance(st.targets[0].elts[1], ast.Name):
                self.redo = st.targets[0].elts[1].id
        if self.redo is None:
            raise AnalysisError("anchor missing: `timestep, redo = self.update_timestep()` in RungeKuttaIntegrator.__call__")
        rets = [st for st in walk_no_nested(fn) if isinstance(st, ast.Return)]
        if len(rets) != 1 or not isinstance(rets[0].value, ast.Tuple) or not isinstance(rets[0].value.elts[0], ast.Name):
            raise AnalysisError("RungeKuttaIntegrator.__call__: expected a single `return <step>, (...)`")
        self.ret = rets[0]
        self.ret_var = rets[0].value.elts[0].id
        # aliases of the input step: names assigned once from the step parameter
        self.input_alias = {self.step_param}
        for st in walk_no_nested(fn):
            if isinstance(st, ast.Assign) and isinstance(st.targets[0], ast.Name) and isinstance(st.value, ast.Name) and st.value.id == self.step_param:
                n = st.targets[0].id
                cnt = sum(1 for s2 in walk_no_nested(fn) if isinstance(s2, (ast.Assign, ast.AugAssign)) and any(
                    isinstance(x, ast.Name) and x.id == n and isinstance(x.ctx, ast.Store) for x in ast.walk(s2)))
                if cnt == 1:
                    self.input_alias.add(n)
        self.step_calls = [c for c in ast.walk(fn) if isinstance(c, ast.Call) and dotted(c.func) == "self.step"]

    def step_arg(self, call):
        """the step expression handed to ``self.step`` by ``call``; a local computed just before the call (`h_retry = <expr>` ...
        `self.step(..., h_retry)`) is replaced by its defining expression when the returned-step variable is not rebound in between
        (so that the expression means the same at the call as where it was computed)"""
        arg = call.args[4] if len(call.args) > 4 else next((k.value for k in call.keywords if k.arg == "timestep"), None)
        if not isinstance(arg, ast.Name) or arg.id in self.input_alias or arg.id == self.ret_var:
            return arg
        from .imodel import path_key
        from .front import ancestors

        def stmt_of(n):
            while not isinstance(n, ast.stmt):
                n = n._parent
            return n

        def writes(st, name):
            tg = st.targets if isinstance(st, ast.Assign) else ([st.target] if isinstance(st, (ast.AugAssign, ast.For)) else [])
            return any(isinstance(x, ast.Name) and x.id == name for t in tg for x in ast.walk(t))
        use = stmt_of(call)
        defs = [st for st in walk_no_nested(self.fn) if isinstance(st, ast.Assign) and writes(st, arg.id)]
        if len(defs) != 1 or not (len(defs[0].targets) == 1 and isinstance(defs[0].targets[0], ast.Name)):
            return arg
        d = defs[0]
        kd, ku = path_key(d, self.fn), path_key(use, self.fn)
        loops_d = [a for a in ancestors(d) if isinstance(a, (ast.For, ast.While))]
        loops_u = [a for a in ancestors(use) if isinstance(a, (ast.For, ast.While))]
        if not (kd < ku) or loops_d != loops_u:
            return arg
        for st in walk_no_nested(self.fn):
            if st is use or st is d or not isinstance(st, (ast.Assign, ast.AugAssign)) or not writes(st, self.ret_var):
                continue
            if kd < path_key(st, self.fn) < ku:
                # a step assignment in a single-statement try body whose handler holds the use: the handler runs only when that
                # statement did not complete, so the variable still has the value it had at the definition
                tr = next((a for a in ancestors(use) if isinstance(a, ast.Try)), None)
                in_handler = tr is not None and any(use is x or any(use is y for y in ast.walk(x)) for h in tr.handlers for x in h.body)
                if in_handler and len(tr.body) == 1 and tr.body[0] is st and isinstance(st, ast.Assign) and isinstance(st.value, ast.Call):
                    continue
                return arg
        return d.value


class CallClient(Client):
    def __init__(self, model):
        self.m = model

    def _step_call(self, node):
        for c in ast.walk(node):
            if isinstance(c, ast.Call) and dotted(c.func) == "self.step":
                return c
        return None

    def _has_update(self, node):
        return any(isinstance(c, ast.Call) and dotted(c.func) == "self.update_timestep" for c in ast.walk(node))

    def raises(self, node, state):
        for c in ast.walk(node):
            if isinstance(c, ast.Call):
                d = dotted(c.func) or ""
                if d in ("self.step", "self.update_timestep", "self.get_error_estimate") or d == "rhs" or d.startswith("rhs."):
                    return [("Any", state)]
        return []

    def arg_prov(self, expr, prov):
        """provenance of the step expression handed to self.step"""
        pure = self.m.input_alias - {self.m.ret_var}
        names = {n.id for n in ast.walk(expr) if isinstance(n, ast.Name)}
        if isinstance(expr, ast.Name):
            if expr.id in pure:
                return "INPUT"
            if expr.id == self.m.ret_var:
                return prov
            return "CONTROLLER"
        has_min = any(isinstance(c, ast.Call) and fname(c) in ("minimum", "min", "fmin") for c in ast.walk(expr))
        has_max = any(isinstance(c, ast.Call) and fname(c) in ("maximum", "max", "fmax") for c in ast.walk(expr))
        if has_min and not has_max and names & pure:
            return "INPUT" if prov == "INPUT" else "SHRUNK"      # bounded by the magnitude of the input step
        if self.m.ret_var in names and not has_max:
            return prov
        return "CONTROLLER"

    def transfer(self, st, state):
        impl, adp, newton, redo, prov, failed, pdt = state
        outs = [state]
        if isinstance(st, ast.Assign):
            sc = self._step_call(st.value)
            tg = st.targets[0]
            tnames = [e.id for e in tg.elts if isinstance(e, ast.Name)] if isinstance(tg, ast.Tuple) else ([tg.id] if isinstance(tg, ast.Name) else [])
            if sc is not None:
                arg = self.m.step_arg(sc)
                ap = self.arg_prov(arg, prov) if arg is not None else "CONTROLLER"
                np_ = ap if self.m.ret_var in tnames else prov
                outs = []
                for n in (("ok", "bad") if impl else ("na",)):
                    outs.append((impl, adp, n, redo, np_, failed or n == "bad", ap))
            elif self._has_update(st.value):
                np_ = "CONTROLLER" if self.m.ret_var in tnames else prov
                if self.m.redo in tnames:
                    outs = [(impl, adp, newton, True, np_, failed, pdt), (impl, adp, newton, False, np_, failed, pdt)]
                else:
                    outs = [(impl, adp, newton, redo, np_, failed, pdt)]
            else:
                pairs = []
                if isinstance(tg, ast.Tuple) and isinstance(st.value, ast.Tuple) and len(tg.elts) == len(st.value.elts):
                    pairs = list(zip(tg.elts, st.value.elts))
                else:
                    pairs = [(t, st.value) for t in st.targets]
                cur = [(impl, adp, newton, redo, prov, failed, pdt)]
                for t, v in pairs:
                    nxt = []
                    for (i_, a_, n_, r_, p_, f_, d_) in cur:
                        if isinstance(t, ast.Name) and t.id == self.m.redo:
                            if isinstance(v, ast.Constant) and isinstance(v.value, bool):
                                nxt.append((i_, a_, n_, v.value, p_, f_, d_))
                            else:
                                nxt += [(i_, a_, n_, True, p_, f_, d_), (i_, a_, n_, False, p_, f_, d_)]
                        elif isinstance(t, ast.Name) and t.id == self.m.ret_var:
                            if is_self_attr(v, "dTime"):
                                nxt.append((i_, a_, n_, r_, d_, f_, d_))
                            else:
                                nxt.append((i_, a_, n_, r_, self._scaled(v, p_), f_, d_))
                        else:
                            nxt.append((i_, a_, n_, r_, p_, f_, d_))
                    cur = nxt
                outs = cur
        elif isinstance(st, ast.AugAssign) and isinstance(st.target, ast.Name) and st.target.id == self.m.ret_var:
            v = ast.BinOp(left=ast.Name(id=self.m.ret_var, ctx=ast.Load()), op=st.op, right=st.value)
            outs = [(impl, adp, newton, redo, self._scaled(v, prov), failed, pdt)]
        return outs

    def _scaled(self, value, prov):
        """timestep = timestep * c"""
        if isinstance(value, ast.BinOp) and isinstance(value.op, (ast.Mult, ast.Div)):
            for a, b in ((value.left, value.right), (value.right, value.left)):
                if isinstance(a, ast.Name) and a.id == self.m.ret_var:
                    try:
                        c = const_value(b)
                    except ValueError:
                        return "CONTROLLER"
                    if isinstance(value.op, ast.Div):
                        if b is value.left:
                            return "CONTROLLER"
                        c = 1.0 / c
                    if 0 < c < 1:
                        return "SHRUNK" if prov in ("INPUT", "SHRUNK") else prov
                    if c == 1:
                        return prov
                    return "CONTROLLER"
        if isinstance(value, ast.Name) and value.id in self.m.input_alias:
            return "INPUT"
        if isinstance(value, ast.Name) and value.id == self.m.ret_var:
            return prov
        return "CONTROLLER"

    def branch(self, test, state):
        impl, adp, newton, redo, prov, failed, pdt = state

        def val(n):
            d = dotted(n)
            if d == "self.is_implicit":
                return impl
            if d == "self.is_explicit":
                return not impl
            if d == "self.is_adaptive":
                return adp
            if isinstance(n, ast.Name) and n.id == self.m.redo:
                return redo
            if is_newton_get(n):
                return {"ok": True, "bad": False, "na": None}[newton]
            return None
        r = tri_eval(test, val)
        return ([state] if True in r else []), ([state] if False in r else [])


def analyse(fn):
    m = CallModel(fn)
    cl = CallClient(m)
    eng = Engine(cl)
    init = [(i, a, "na", None, "INPUT", False, "INPUT") for i in (False, True) for a in (False, True)]
    out = eng.run(fn, init)
    return m, out, eng
