"""E-TAB: constant folding of the coefficient tables written as literals in the scheme modules, and
exact decision procedures over the folded values (rooted-tree order conditions, simplifying
assumptions, BCH words of compositions, symplecticity matrix, A-stability via E-polynomial/Sturm/
Routh-Hurwitz).  All arithmetic on folded values is exact (Fraction / big integers)."""
import ast
import math
from fractions import Fraction

from .front import AnalysisError, dotted, src

INTEGRATORS_INIT = "desolver/integrators/__init__.py"
EXPLICIT = "desolver/integrators/explicit_integration_schemes.py"
IMPLICIT = "desolver/integrators/implicit_integration_schemes.py"


# ------------------------------------------------------------------------------------------------
# folding
class Folded:
    def __init__(self, name, rel, node):
        self.name, self.rel, self.node = name, rel, node
        self.attrs = {}        # attribute -> python value (float, nested list, str, tuple)
        self.attr_nodes = {}
        self.bases = [dotted(b) for b in node.bases]
        self.methods = {}

    def table(self, attr):
        v = self.attrs.get(attr)
        if v is None:
            return None
        if not (isinstance(v, list) and v and all(isinstance(r, list) for r in v)):
            raise AnalysisError("%s.%s is not a 2-D table literal" % (self.name, attr))
        w = len(v[0])
        if any(len(r) != w for r in v):
            raise AnalysisError("%s.%s is ragged" % (self.name, attr))
        return [[Fraction(float(x)) for x in r] for r in v]


def _fold(node, env, classes, where):
    if isinstance(node, ast.Constant):
        if isinstance(node.value, (int, float, str)) and not isinstance(node.value, bool):
            return node.value
        if isinstance(node.value, bool) or node.value is None:
            return node.value
        raise AnalysisError("%s: unsupported constant %r" % (where, node.value))
    if isinstance(node, ast.UnaryOp) and isinstance(node.op, (ast.USub, ast.UAdd)):
        v = _fold(node.operand, env, classes, where)
        return -v if isinstance(node.op, ast.USub) else v
    if isinstance(node, ast.BinOp):
        a = _fold(node.left, env, classes, where)
        b = _fold(node.right, env, classes, where)
        if not all(isinstance(x, (int, float)) for x in (a, b)):
            raise AnalysisError("%s: arithmetic on non-scalars in %s" % (where, src(node)))
        op = node.op
        try:
            if isinstance(op, ast.Add):
                return a + b
            if isinstance(op, ast.Sub):
                return a - b
            if isinstance(op, ast.Mult):
                return a * b
            if isinstance(op, ast.Div):
                return a / b
            if isinstance(op, ast.Pow):
                return a ** b
            if isinstance(op, ast.FloorDiv):
                return a // b
        except (ZeroDivisionError, OverflowError) as e:
            raise AnalysisError("%s: %s in %s" % (where, e, src(node)))
        raise AnalysisError("%s: unsupported operator in %s" % (where, src(node)))
    if isinstance(node, (ast.List, ast.Tuple)):
        return [_fold(e, env, classes, where) for e in node.elts]
    if isinstance(node, ast.Name):
        if node.id in env:
            return env[node.id]
        raise AnalysisError("%s: unknown name %s" % (where, node.id))
    if isinstance(node, ast.Attribute):
        d = dotted(node)
        if d and "." in d:
            cname, attr = d.rsplit(".", 1)
            if cname in classes and attr in classes[cname].attrs:
                return classes[cname].attrs[attr]
            if d in ("numpy.float64", "np.float64", "numpy.double"):
                return "float64"
        raise AnalysisError("%s: cannot fold attribute %s" % (where, src(node)))
    if isinstance(node, ast.Call):
        fn = dotted(node.func)
        if fn in ("numpy.array", "np.array", "numpy.asarray", "np.asarray"):
            if len(node.args) != 1:
                raise AnalysisError("%s: numpy.array with %d positional args" % (where, len(node.args)))
            for kw in node.keywords:
                if kw.arg != "dtype" or _fold(kw.value, env, classes, where) != "float64":
                    raise AnalysisError("%s: unsupported keyword in %s" % (where, src(node)[:80]))
            return _fold(node.args[0], env, classes, where)
        if fn in ("numpy.sqrt", "np.sqrt", "math.sqrt") and len(node.args) == 1:
            v = _fold(node.args[0], env, classes, where)
            if not isinstance(v, (int, float)) or v < 0:
                raise AnalysisError("%s: sqrt of %r" % (where, v))
            return math.sqrt(v)
        if fn in ("numpy.copy", "np.copy") and len(node.args) == 1:
            return _fold(node.args[0], env, classes, where)
        # method spellings of the same: X.copy(), X.astype(float64 / numpy.float64), numpy.ascontiguousarray(X)
        if isinstance(node.func, ast.Attribute) and node.func.attr == "copy" and not node.args and not node.keywords:
            return _fold(node.func.value, env, classes, where)
        if isinstance(node.func, ast.Attribute) and node.func.attr == "astype" and len(node.args) == 1 and not node.keywords and \
                (_fold(node.args[0], env, classes, where) if not isinstance(node.args[0], ast.Constant) else node.args[0].value) in ("float64", "float", "double"):
            return _fold(node.func.value, env, classes, where)
        if fn in ("numpy.ascontiguousarray", "np.ascontiguousarray", "numpy.asanyarray", "np.asanyarray") and len(node.args) == 1 and not node.keywords:
            return _fold(node.args[0], env, classes, where)
        if fn == "tuple" and not node.args:
            return ()
        if fn == "float" and len(node.args) == 1:
            return float(_fold(node.args[0], env, classes, where))
        raise AnalysisError("%s: cannot fold call %s" % (where, src(node)[:80]))
    raise AnalysisError("%s: cannot fold %s" % (where, type(node).__name__))


TABLE_ATTRS = ("tableau_intermediate", "tableau_final", "__order__", "symplectic")


def fold_module_classes(repo, rel, classes):
    mod = repo.module(rel)
    for st in mod.tree.body:
        if not isinstance(st, ast.ClassDef):
            continue
        fc = Folded(st.name, rel, st)
        env = {}
        for b in st.body:
            if isinstance(b, ast.Assign):
                if len(b.targets) != 1 or not isinstance(b.targets[0], ast.Name):
                    raise AnalysisError("%s.%s: unsupported class-level assignment %s" % (rel, st.name, src(b)[:60]))
                name = b.targets[0].id
                try:
                    val = _fold(b.value, env, classes, "%s::%s.%s" % (rel, st.name, name))
                except AnalysisError:
                    if name in TABLE_ATTRS:
                        raise
                    continue          # e.g. __alt_names__ tuples of strings fold fine; anything else is not needed
                env[name] = val
                fc.attrs[name] = val
                fc.attr_nodes[name] = b
            elif isinstance(b, ast.Delete):
                for t in b.targets:
                    if isinstance(t, ast.Name):
                        env.pop(t.id, None)
                        fc.attrs.pop(t.id, None)
            elif isinstance(b, ast.FunctionDef):
                fc.methods[b.name] = b
        classes[st.name] = fc
    return classes


def shipped(repo):
    """Names listed in __explicit_integration_methods__ / __implicit_integration_methods__."""
    mod = repo.module(INTEGRATORS_INIT)
    out = {}
    for st in mod.tree.body:
        if isinstance(st, ast.Assign) and len(st.targets) == 1 and isinstance(st.targets[0], ast.Name) \
                and st.targets[0].id in ("__explicit_integration_methods__", "__implicit_integration_methods__"):
            if not isinstance(st.value, (ast.List, ast.Tuple)) or not all(isinstance(e, ast.Name) for e in st.value.elts):
                raise AnalysisError("%s is not a plain list of class names" % st.targets[0].id)
            out[st.targets[0].id] = [e.id for e in st.value.elts]
    if len(out) != 2:
        raise AnalysisError("anchor missing: shipped-method lists in %s" % INTEGRATORS_INIT)
    return out["__explicit_integration_methods__"], out["__implicit_integration_methods__"]


def load_tables(repo):
    classes = {}
    fold_module_classes(repo, EXPLICIT, classes)
    fold_module_classes(repo, IMPLICIT, classes)
    exp, imp = shipped(repo)
    for n in exp + imp:
        if n not in classes:
            raise AnalysisError("shipped method %s has no class in the scheme modules" % n)
    return classes, exp, imp


def base_kind(fc):
    """'rk' or 'split' from the class's base name."""
    for b in fc.bases:
        if b and b.endswith("RungeKuttaIntegrator"):
            return "rk"
        if b and b.endswith("ExplicitSymplecticIntegrator"):
            return "split"
    raise AnalysisError("class %s derives from neither integrator base: %s" % (fc.name, fc.bases))


# ------------------------------------------------------------------------------------------------
# rooted trees
A000081 = [0, 1, 1, 2, 4, 9, 20, 48, 115, 286, 719, 1842, 4766, 12486, 32973, 87811]


class Trees:
    def __init__(self, maxorder):
        self.order = [1]
        self.children = [()]
        self.gamma = [1]
        self.by_order = {1: [0]}
        for n in range(2, maxorder + 1):
            self.by_order[n] = []
            self._forests(n - 1, len(self.order) - 1, [], n)
            if len(self.by_order[n]) != A000081[n]:
                raise AnalysisError("tree enumeration self-check failed at order %d: %d != %d" % (
                    n, len(self.by_order[n]), A000081[n]))

    def _forests(self, remaining, max_id, cur, n):
        if remaining == 0:
            tid = len(self.order)
            self.order.append(n)
            self.children.append(tuple(cur))
            g = n
            for c in cur:
                g *= self.gamma[c]
            self.gamma.append(g)
            self.by_order[n].append(tid)
            return
        # candidates: ids <= max_id with order <= remaining; ids are sorted by order
        for tid in range(min(max_id, self._last_id_of_order(remaining)), -1, -1):
            cur.append(tid)
            self._forests(remaining - self.order[tid], tid, cur, n)
            cur.pop()

    def _last_id_of_order(self, k):
        k = min(k, max(self.by_order))
        while k not in self.by_order or not self.by_order[k]:
            k -= 1
        return self.by_order[k][-1]

    def describe(self, tid):
        ch = self.children[tid]
        return "[" + "".join(self.describe(c) for c in ch) + "]"


_TREES_CACHE = {}


def trees_upto(n):
    for k in sorted(_TREES_CACHE):
        if k >= n:
            return _TREES_CACHE[k]
    t = Trees(n)
    _TREES_CACHE[n] = t
    return t


def _dyadic_scale(fracs):
    s = 0
    for f in fracs:
        d = f.denominator
        if d & (d - 1):
            raise AnalysisError("non-dyadic value among folded floats")
        s = max(s, d.bit_length() - 1)
    return s


def rk_order_residuals(A, b, c, p, tol=Fraction(1, 10 ** 10), ids=None, trees=None):
    """Check  sum_i b_i Phi_i(t) = 1/gamma(t)  for all rooted trees of order <= p.  Exact integer
    arithmetic on the dyadic rationals the floats denote.  Returns (n_conditions, failures) where
    failures is a list of (order, tree description, float residual), smallest order first."""
    s_ = len(b)
    sc = _dyadic_scale([x for r in A for x in r] + list(b))
    S = 1 << sc
    Ai = [[int(x * S) for x in r] for r in A]
    sparse = [[(j, v) for j, v in enumerate(r) if v] for r in Ai]
    bi = [int(x * S) for x in b]
    T = trees or trees_upto(max(p, 1))
    # u[t] = A . Phi(t)  scaled by S^{|t|}
    u = {}
    ones = [1] * s_
    fails = []
    ncond = 0

    def phi(tid):
        ch = T.children[tid]
        if not ch:
            return ones
        vec = u[ch[0]]
        for cidx in ch[1:]:
            w = u[cidx]
            vec = [x * y for x, y in zip(vec, w)]
        return vec

    for n in range(1, p + 1):
        Sn = S ** n
        for tid in T.by_order[n]:
            ph = phi(tid)
            if n < p:
                u[tid] = [sum(v * ph[j] for j, v in row) for row in sparse]
            if ids is not None and tid not in ids:
                continue
            ncond += 1
            lhs = sum(x * y for x, y in zip(bi, ph)) * T.gamma[tid]
            diff = lhs - Sn
            if abs(diff) * tol.denominator > tol.numerator * Sn * T.gamma[tid]:
                fails.append((n, T.describe(tid), float(Fraction(diff, Sn * T.gamma[tid]))))
    return ncond, fails


def simplifying_assumptions(A, b, c, tol=Fraction(1, 10 ** 10)):
    """Largest p, eta, zeta with B(p), C(eta), D(zeta) holding to tol."""
    s = len(b)

    def B(k):
        return abs(sum(b[i] * c[i] ** (k - 1) for i in range(s)) - Fraction(1, k)) <= tol

    def C(k):
        return all(abs(sum(A[i][j] * c[j] ** (k - 1) for j in range(s)) - c[i] ** k / k) <= tol for i in range(s))

    def Dz(k):
        return all(abs(sum(b[i] * c[i] ** (k - 1) * A[i][j] for i in range(s)) - b[j] * (1 - c[j] ** k) / k) <= tol
                   for j in range(s))

    def largest(pred, cap):
        k = 0
        while k < cap and pred(k + 1):
            k += 1
        return k

    return largest(B, 2 * s + 2), largest(C, s + 2), largest(Dz, s + 2)


# ------------------------------------------------------------------------------------------------
# compositions exp(a1 A) exp(b1 B) ... : truncated free associative algebra on two letters
def composition_word_residual(rows, degree):
    """rows: list of (drift, kick) Fractions applied in order; each row is  exp(d h A) exp(k h B)
    (only one of d, k non-zero in the shipped tables, so the order inside a row is immaterial; if both
    are non-zero the row is exp(h(dA+kB)) exactly as the step code applies it).  Returns for each degree
    n <= degree the largest |coeff(word) - 1/n!| over the 2^n words."""
    from itertools import product
    series = {(): Fraction(1)}

    def mul_exp(series, gen):
        # multiply on the right by exp(gen) where gen = {letter: coef}
        out = dict(series)
        term = dict(series)
        k = 1
        while True:
            nxt = {}
            for w, cf in term.items():
                if len(w) >= degree:
                    continue
                for letter, g in gen.items():
                    if g:
                        nw = w + (letter,)
                        nxt[nw] = nxt.get(nw, 0) + cf * g / k
            if not nxt:
                break
            for w, cf in nxt.items():
                out[w] = out.get(w, 0) + cf
            term = nxt
            k += 1
        return out

    for d, k in rows:
        gen = {}
        if d:
            gen["A"] = d
        if k:
            gen["B"] = k
        if gen:
            series = mul_exp(series, gen)
    res = {}
    for n in range(1, degree + 1):
        target = Fraction(1, math.factorial(n))
        worst, ww = Fraction(0), None
        for w in product("AB", repeat=n):
            dlt = abs(series.get(w, Fraction(0)) - target)
            if dlt > worst:
                worst, ww = dlt, "".join(w)
        res[n] = (worst, ww)
    return res


# ------------------------------------------------------------------------------------------------
# polynomials with Fraction coefficients (lists, lowest degree first)
def ptrim(p):
    p = list(p)
    while p and p[-1] == 0:
        p.pop()
    return p


def padd(p, q):
    n = max(len(p), len(q))
    return ptrim([(p[i] if i < len(p) else 0) + (q[i] if i < len(q) else 0) for i in range(n)])


def pscale(p, k):
    return ptrim([k * x for x in p])


def pmul(p, q):
    if not p or not q:
        return []
    out = [Fraction(0)] * (len(p) + len(q) - 1)
    for i, a in enumerate(p):
        if a:
            for j, b in enumerate(q):
                out[i + j] += a * b
    return ptrim(out)


def pdivmod(p, q):
    p = ptrim(p)
    q = ptrim(q)
    if not q:
        raise ZeroDivisionError
    quo = [Fraction(0)] * max(0, len(p) - len(q) + 1)
    r = list(p)
    while len(r) >= len(q) and r:
        k = r[-1] / q[-1]
        d = len(r) - len(q)
        quo[d] = k
        for i, b in enumerate(q):
            r[i + d] -= k * b
        r = ptrim(r)
    return ptrim(quo), r


def pderiv(p):
    return ptrim([i * p[i] for i in range(1, len(p))])


def peval(p, x):
    acc = Fraction(0)
    for a in reversed(p):
        acc = acc * x + a
    return acc


def charpoly(M):
    """det(lambda I - M) by Faddeev-LeVerrier, exact; returns coefficients lowest degree first."""
    n = len(M)
    c = [Fraction(0)] * (n + 1)
    c[n] = Fraction(1)
    Mk = [[Fraction(0)] * n for _ in range(n)]
    I = [[Fraction(int(i == j)) for j in range(n)] for i in range(n)]
    for k in range(1, n + 1):
        # Mk = M * Mk + c[n-k+1] * I
        prod = [[sum(M[i][l] * Mk[l][j] for l in range(n)) for j in range(n)] for i in range(n)]
        Mk = [[prod[i][j] + c[n - k + 1] * I[i][j] for j in range(n)] for i in range(n)]
        MMk = [[sum(M[i][l] * Mk[l][j] for l in range(n)) for j in range(n)] for i in range(n)]
        tr = sum(MMk[i][i] for i in range(n))
        c[n - k] = -tr / k
    return c


def det_I_minus_zM(M):
    """det(I - z M) as polynomial in z (lowest first): z^n * charpoly(1/z) = reversed coefficients."""
    cp = charpoly(M)
    return ptrim(list(reversed(cp)))


def sturm_count_positive(p):
    """Number of distinct real roots of p in the open interval (0, +inf)."""
    p = ptrim(p)
    if not p:
        raise AnalysisError("zero polynomial in Sturm count")
    chain = [p, pderiv(p)]
    while chain[-1]:
        _, r = pdivmod(chain[-2], chain[-1])
        chain.append(pscale(r, -1))
    chain = [q for q in chain if q]

    def sign_changes(vals):
        vals = [v for v in vals if v != 0]
        return sum(1 for a, b in zip(vals, vals[1:]) if (a > 0) != (b > 0))

    at0 = sign_changes([peval(q, Fraction(0)) for q in chain])
    atinf = sign_changes([q[-1] for q in chain])
    return at0 - atinf


def hurwitz_stable(p):
    """True iff all roots of p (Fraction coeffs, lowest first) have negative real part.
    Routh array; a zero in the first column means 'not strictly stable'."""
    p = ptrim(p)
    n = len(p) - 1
    if n <= 0:
        return True
    a = list(reversed(p))  # highest first
    if a[0] < 0:
        a = [-x for x in a]
    r0 = a[0::2]
    r1 = a[1::2]
    rows = [r0, r1 + [Fraction(0)] * (len(r0) - len(r1))]
    for _ in range(n - 1):
        up, lo = rows[-2], rows[-1]
        if lo[0] == 0:
            return False
        new = []
        for j in range(len(up) - 1):
            new.append((lo[0] * up[j + 1] - up[0] * (lo[j + 1] if j + 1 < len(lo) else 0)) / lo[0])
        new.append(Fraction(0))
        rows.append(new[:len(up)])
    return all(r[0] > 0 for r in rows[:n + 1])


def stability_polys(A, b):
    s = len(b)
    Q = det_I_minus_zM(A)
    M2 = [[A[i][j] - b[j] for j in range(s)] for i in range(s)]
    P = det_I_minus_zM(M2)
    return P, Q


def abs2_on_imag_axis(p):
    """|p(iy)|^2 as a polynomial in x = y^2."""
    re, im = [], []       # p(iy) = sum a_k i^k y^k
    ev = [p[k] * (-1) ** (k // 2) for k in range(0, len(p), 2)]       # coefficients of y^{2m}
    od = [p[k] * (-1) ** ((k - 1) // 2) for k in range(1, len(p), 2)]  # coefficients of y^{2m+1}
    ev2 = pmul(ev, ev)                  # in x
    od2 = pmul(od, od)                  # times y^2 = x
    return padd(ev2, [Fraction(0)] + od2)


def a_stability(A, b, tau=Fraction(1, 10 ** 9)):
    """Returns dict with E-polynomial facts.  A-stable (to tau) iff F_tau(x)=(1+tau)|Q(iy)|^2-|P(iy)|^2 has no
    root in x>=0 (x=y^2), F_tau(0)>0, and Q(-z) is Hurwitz (no poles in the closed left half plane)."""
    P, Q = stability_polys(A, b)
    Q2 = abs2_on_imag_axis(Q)
    P2 = abs2_on_imag_axis(P)
    F = padd(pscale(Q2, 1 + tau), pscale(P2, -1))
    f0 = peval(F, Fraction(0)) if F else Fraction(0)
    nroots = sturm_count_positive(F) if F else -1
    lead = F[-1] if F else Fraction(0)
    Qm = [cf * (-1) ** k for k, cf in enumerate(Q)]
    return dict(P=P, Q=Q, F=F, F0=f0, positive_roots=nroots, lead=lead, poles_right=hurwitz_stable(Qm),
                degP=len(P) - 1, degQ=len(Q) - 1)


# ------------------------------------------------------------------------------------------------
def symplectic_residual(A, b):
    s = len(b)
    return max(abs(b[i] * A[i][j] + b[j] * A[j][i] - b[i] * b[j]) for i in range(s) for j in range(s))


def symmetric_residual(A, b):
    s = len(b)
    r1 = max(abs(A[s - 1 - i][s - 1 - j] + A[i][j] - b[j]) for i in range(s) for j in range(s))
    r2 = max(abs(b[s - 1 - i] - b[i]) for i in range(s))
    return max(r1, r2)


def split_rk(table_i, table_f=None):
    c = [r[0] for r in table_i]
    A = [r[1:] for r in table_i]
    rows = [r[1:] for r in table_f] if table_f is not None else None
    return c, A, rows
