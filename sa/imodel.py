"""Anchors of OdeSystem.integrate shared by the rules of C03, C04, C06-C09, C12, C13, C20.
Everything is located by role (what the statement does), never by line or exact text; a missing anchor is
an AnalysisError naming it."""
import ast

from .front import AnalysisError, dotted, fname, is_self_attr, src, walk_no_nested, ancestors, const_value
from .sym import Canon, Poly

DS = "desolver/differential_system.py"


def path_key(node, root):
    """Source-order key of ``node`` inside ``root``: tuple of (field-order, index) steps."""
    chain = []
    n = node
    while n is not root and n is not None:
        p = n._parent
        found = None
        for fi, (field, val) in enumerate(ast.iter_fields(p)):
            if isinstance(val, list):
                for i, x in enumerate(val):
                    if x is n:
                        found = (fi, i)
            elif val is n:
                found = (fi, 0)
        chain.append(found)
        n = p
    return tuple(reversed(chain))


def block_chain(node, root):
    """list of (owner statement, field name) from root down to the block that directly contains node's statement"""
    out = []
    n = node
    while n is not root and n is not None:
        p = n._parent
        for field, val in ast.iter_fields(p):
            if isinstance(val, list) and any(x is n for x in val) and field in ("body", "orelse", "finalbody", "handlers"):
                out.append((p, field))
        n = p
    return list(reversed(out))


def dominates(a, b, root):
    """statement a executes before b on every path reaching b (structural approximation: a's block is an ancestor-or-same
    block of b and a precedes b in source order; loops' back edges ignored)."""
    ca, cb = block_chain(a, root), block_chain(b, root)
    if len(ca) > len(cb):
        return False
    for (pa, fa), (pb, fb) in zip(ca, cb):
        if pa is not pb or fa != fb:
            return False
    return path_key(a, root) < path_key(b, root)


def is_t_buf(n):
    return is_self_attr(n, "__t")


def is_y_buf(n):
    return is_self_attr(n, "__y")


class IntegrateModel:
    def __init__(self, repo, allow_alias=False):
        self.repo = repo
        self.fn = fn = repo.get(DS, "OdeSystem.integrate")
        self.params = [a.arg for a in fn.args.args]
        fx = repo.maybe(DS, "OdeSystem.__fix_dt_dir")
        self.fix_params = [a.arg for a in fx.args.args if a.arg != "self"] if fx is not None else ["t1", "t0"]
        if self.params[:5] != ["self", "t", "callback", "eta", "events"]:
            raise AnalysisError("OdeSystem.integrate signature changed: %s" % self.params)
        # the target local: assigned from parameter t and from self.tf
        self.tf = None
        self.tf_bindings = []
        tparam = self.params[1]
        for st in walk_no_nested(fn):
            if isinstance(st, ast.Assign) and isinstance(st.targets[0], ast.Name):
                v = st.value
                names = {n.id for n in ast.walk(v) if isinstance(n, ast.Name)}
                # tf = t  (inside `if t is not None`)   or   tf = t if t is not None else self.tf   (either arrangement)
                if (isinstance(v, ast.Name) and v.id == tparam) or (isinstance(v, ast.IfExp) and tparam in names and "self.tf" in src(v)):
                    self.tf = st.targets[0].id
                    self.tf_bindings.append((st, None))
                else:
                    # tf = conv(t)  /  tf = conv(t) if t is not None else self.tf : the conversion is judged by C03.11, the anchor is the same local
                    alts = [v.body, v.orelse] if isinstance(v, ast.IfExp) else [v]
                    for a in alts:
                        if isinstance(a, ast.Call) and a.args and isinstance(a.args[0], ast.Name) and a.args[0].id == tparam and \
                                not any(isinstance(n, ast.Name) and n.id == tparam for x in a.args[1:] for n in ast.walk(x)):
                            self.tf = st.targets[0].id
                            self.tf_bindings.append((st, a))
        if self.tf is None:
            raise AnalysisError("anchor missing: local bound to the call's target time in integrate")
        trys = [st for st in fn.body if isinstance(st, ast.Try)]
        if len(trys) != 1:
            raise AnalysisError("anchor missing: the try statement of integrate (found %d)" % len(trys))
        self.try_ = trys[0]
        loops = [st for st in self.try_.body if isinstance(st, ast.While)]
        if len(loops) != 1:
            raise AnalysisError("anchor missing: the step loop inside the try of integrate")
        self.loop = loops[0]
        # integrator call
        self.step_assign = None
        self.integrator_alias = None
        # locals bound (anywhere in integrate) to the integrator object: `take_step = self.integrator`, or `take_step, f = self.integrator, self.equ_rhs`
        aliases = {}
        for st in walk_no_nested(fn):
            if isinstance(st, ast.Assign) and len(st.targets) == 1:
                t, v = st.targets[0], st.value
                pairs = list(zip(t.elts, v.elts)) if isinstance(t, (ast.Tuple, ast.List)) and isinstance(v, (ast.Tuple, ast.List)) and len(t.elts) == len(v.elts) else [(t, v)]
                for tt, vv in pairs:
                    if isinstance(tt, ast.Name) and is_self_attr(vv, "integrator"):
                        aliases[tt.id] = st
        for st in walk_no_nested(self.loop):
            if isinstance(st, ast.Assign) and isinstance(st.value, ast.Call) and dotted(st.value.func) == "self.integrator":
                self.step_assign = st
            elif isinstance(st, ast.Assign) and isinstance(st.value, ast.Call) and isinstance(st.value.func, ast.Name) and st.value.func.id in aliases:
                self.step_assign = st
                self.integrator_alias = (st.value.func.id, aliases[st.value.func.id])
        if self.step_assign is None or (self.integrator_alias is not None and not allow_alias):
            # a call through a local alias is judged by C02.8 only; every other model of the loop is anchored on the attribute call
            raise AnalysisError("anchor missing: `.. = self.integrator(...)` in the step loop")
        tg = self.step_assign.targets[0]
        try:
            self.new_dt = tg.elts[0].id
            self.dTime = tg.elts[1].elts[0].id
            self.dState = tg.elts[1].elts[1].id
        except Exception:
            raise AnalysisError("integrator result is not unpacked as new_dt, (dTime, dState)")
        self.canon = Canon()
        # row writes
        self.row_writes = []
        for st in walk_no_nested(self.loop):
            if isinstance(st, ast.Assign) and len(st.targets) == 1 and isinstance(st.targets[0], ast.Subscript) and \
                    (is_t_buf(st.targets[0].value) or is_y_buf(st.targets[0].value)):
                self.row_writes.append(st)
        self.counter_incs = [st for st in walk_no_nested(self.loop) if isinstance(st, ast.AugAssign) and is_self_attr(st.target, "counter")]
        # commit = first t-write, y-write and increment that are direct children of the loop body
        top = self.loop.body
        self.commit_t = next((s for s in top if s in self.row_writes and is_t_buf(s.targets[0].value)), None)
        self.commit_y = next((s for s in top if s in self.row_writes and is_y_buf(s.targets[0].value)), None)
        self.commit_inc = next((s for s in top if s in self.counter_incs and isinstance(s.op, ast.Add)), None)
        if not (self.commit_t and self.commit_y and self.commit_inc):
            raise AnalysisError("anchor missing: top-level commit (two row writes and `self.counter += 1`) in the step loop")
        # callback loop
        self.cb_loop = None
        for st in walk_no_nested(self.loop):
            if isinstance(st, ast.For) and any(isinstance(x, ast.Name) and x.id == "callback" for x in ast.walk(st.iter)):
                self.cb_loop = st
        # events block
        self.ev_if = None
        self.interp_if = None
        for st in walk_no_nested(self.loop):
            if isinstance(st, ast.If):
                t = src(st.test)
                if t.replace(" ", "") in ("eventsisnotNone",):
                    self.ev_if = st
                if "events is not None" in t and "__dense_output" in t and isinstance(st.test, ast.BoolOp) and isinstance(st.test.op, ast.Or):
                    self.interp_if = st
        self.handle_call = None
        for c in [c for c in ast.walk(self.loop) if isinstance(c, ast.Call)]:
            if dotted(c.func) == "handle_events":
                self.handle_call = c
        self.recursive = [c for c in ast.walk(self.loop) if isinstance(c, ast.Call) and dotted(c.func) == "self.integrate"]
        self.add_interp = [c for c in ast.walk(self.loop) if isinstance(c, ast.Call) and (dotted(c.func) or "").endswith("__sol.add_interpolant")]
        self.remove_interp = [c for c in ast.walk(self.loop) if isinstance(c, ast.Call) and (dotted(c.func) or "").endswith("__sol.remove_interpolant")]

    def cur_t_text(self):
        return "self.__t[self.counter]"

    def user_call(self, c):
        """calls that can reach user code or raise arbitrarily"""
        d = dotted(c.func) or ""
        if d in ("self.integrator", "handle_events", "self.integrate", "self.get_step_interpolant", "self.__sol", "self.equ_rhs"):
            return True
        if d.endswith("__sol.add_interpolant") or d.endswith("__sol.remove_interpolant"):
            return True
        if isinstance(c.func, ast.Name) and self.cb_loop is not None and any(a is self.cb_loop for a in ancestors(c)) and \
                any(isinstance(x, ast.Name) and x.id == c.func.id for x in ast.walk(self.cb_loop.target)):
            return True
        if d == "prepare_events":
            return True
        return False


    # ------------------------------------------------------------------------------------------
    def final_step(self):
        """The structure that chooses the step handed to the integrator.  Returns dict(step_name, clamp, free, cond, tracker, flag, flag_ok)
        where ``cond`` is the boolean tree under which the clamp `tf - t[counter]` is taken (path condition, any branch arrangement)."""
        from .sym import path_condition, equivalent, BoolTracker, Poly
        c = self.canon
        call = self.step_assign.value
        kw = {k.arg: k.value for k in call.keywords}
        step_arg = kw.get("timestep", call.args[4] if len(call.args) > 4 else None)
        if not isinstance(step_arg, ast.Name):
            return None
        name = step_arg.id
        defs = [st for st in walk_no_nested(self.loop) if isinstance(st, ast.Assign) and any(isinstance(t, ast.Name) and t.id == name for t in st.targets)]
        want = Poly.atom(self.tf) - Poly.atom("self.__t[self.counter]")
        clamp = [st for st in defs if c.poly(st.value) == want]
        free = [st for st in defs if c.text(st.value) in ("self.dt", "self.__dt")]
        out = dict(step_name=name, defs=defs, clamp=clamp[0] if len(clamp) == 1 else None, free=free[0] if len(free) == 1 else None)
        if out["clamp"] is None or out["free"] is None or len(defs) != 2:
            return out
        bt = BoolTracker()
        cond, _ = path_condition(out["clamp"], self.loop, bt)
        cond_free, _ = path_condition(out["free"], self.loop, bt)
        out["cond"], out["cond_free"], out["tracker"] = cond, cond_free, bt
        ok, _ = equivalent(cond_free, ("not", [cond]))
        out["complementary"] = ok
        # flag: a name assigned True under cond and False under not cond
        flag = None
        flag_ok = False
        for st in walk_no_nested(self.loop):
            if isinstance(st, ast.Assign) and isinstance(st.value, ast.Constant) and st.value.value is True and isinstance(st.targets[0], ast.Name):
                pc, _ = path_condition(st, self.loop, bt)
                if equivalent(pc, cond)[0]:
                    nm = st.targets[0].id
                    fs = [s2 for s2 in walk_no_nested(self.loop) if isinstance(s2, ast.Assign) and isinstance(s2.targets[0], ast.Name) and s2.targets[0].id == nm
                          and isinstance(s2.value, ast.Constant) and s2.value.value is False]
                    if len(fs) == 1 and equivalent(path_condition(fs[0], self.loop, bt)[0], ("not", [cond]))[0]:
                        flag, flag_ok = nm, True
        out["flag"], out["flag_ok"] = flag, flag_ok
        return out
