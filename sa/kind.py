"""E-KIND: quantity-kind inference and the symmetry disciplines AFF / DIR / UNIT / DIM / IDX.

Kinds (strings):
  T absolute time   D signed duration   M magnitude/pure number   S direction sign   K = S*T   Dn = S*D
  Y state   dY state increment   F slope dY/dt
  X abscissa of a root search   G value of the searched function   G2 product of two G values
  N:<sort> integer index of an index sort   B bool   U unknown   None
  Seq(k) ordered container of k;  tuples are python tuples of kinds.

Seeds are declared per function by the rule modules (parameters, attributes, call results, dict keys);
locals get kinds by propagation only.  A construct is reported only when every operand kind involved is
definite and the operation is in the forbidden table of an enabled discipline."""
import ast

from .front import AnalysisError, dotted, fname, src, const_value, walk_no_nested

DEFINITE_TIME = {"T", "D", "M", "S", "K", "Dn"}
IDENTITY_FUNCS = {"asarray", "array", "copy", "clone", "to_numpy", "float", "reshape", "atleast_1d", "squeeze",
                  "ravel", "stack", "concatenate", "astype", "item", "detach", "real", "flip", "transpose"}
MAGNITUDE_FUNCS = {"epsilon", "tol_epsilon", "finfo", "len", "shape"}
ORDER_OPS = (ast.Lt, ast.LtE, ast.Gt, ast.GtE)


def is_seq(k):
    return isinstance(k, str) and k.startswith("Seq(")


def elem(k):
    return k[4:-1] if is_seq(k) else k


def is_zero(node):
    try:
        return const_value(node) == 0
    except ValueError:
        return False


def is_inf(node):
    d = dotted(node)
    if d in ("np.inf", "numpy.inf", "math.inf", "D.inf"):
        return True
    if isinstance(node, ast.UnaryOp) and isinstance(node.op, ast.USub):
        return is_inf(node.operand)
    if isinstance(node, ast.Call) and fname(node) == "float" and node.args and isinstance(node.args[0], ast.Constant) \
            and str(node.args[0].value).lstrip("+-") == "inf":
        return True
    return False


class Seeds:
    def __init__(self, params=None, attrs=None, calls=None, dictkeys=None, names=None, subscript_attrs=None):
        self.params = dict(params or {})
        self.attrs = dict(attrs or {})          # 'self.__t' -> kind   (dotted text; also '*.dTime' wildcard on last attr)
        self.calls = dict(calls or {})          # dotted callee text or canonical fname -> kind (or callable(node, eng) -> kind)
        self.dictkeys = dict(dictkeys or {})    # dict attr last name -> {key: kind}
        self.names = dict(names or {})          # sticky kinds of named locals/globals


class Violation:
    def __init__(self, node, disc, why, kinds):
        self.node, self.disc, self.why, self.kinds = node, disc, why, kinds


class KindEngine:
    def __init__(self, func, seeds, disciplines=("AFF", "DIR"), exempt_nodes=()):
        self.func = func
        self.seeds = seeds
        self.disc = set(disciplines)
        self.env = {}
        self.sticky = set()
        self.exempt = set(id(n) for n in exempt_nodes)
        self.judged = []        # (node, kinds-text) for every operation whose operand kinds were definite
        self._infer()

    # -- inference ---------------------------------------------------------------------------
    def _params(self):
        a = self.func.args
        return [x.arg for x in a.posonlyargs + a.args + a.kwonlyargs] + ([a.vararg.arg] if a.vararg else []) + ([a.kwarg.arg] if a.kwarg else [])

    def _infer(self):
        for p in self._params():
            if p in self.seeds.params:
                self.env[p] = self.seeds.params[p]
                self.sticky.add(p)
        for n, k in self.seeds.names.items():
            self.env[n] = k
            self.sticky.add(n)
        assigns = []
        for n in walk_no_nested(self.func):
            if isinstance(n, ast.Assign):
                for t in n.targets:
                    assigns.append((t, n.value, None))
            elif isinstance(n, ast.AugAssign):
                assigns.append((n.target, n, "aug"))
            elif isinstance(n, ast.AnnAssign) and n.value is not None:
                assigns.append((n.target, n.value, None))
            elif isinstance(n, (ast.For, ast.comprehension)):
                assigns.append((n.target, n.iter, "iter"))
            elif isinstance(n, ast.NamedExpr):
                assigns.append((n.target, n.value, None))
        for _ in range(8):
            newenv = {k: v for k, v in self.env.items() if k in self.sticky}
            for tgt, val, mode in assigns:
                if mode == "aug":
                    k = self.kind(ast.BinOp(left=_load(val.target), op=val.op, right=val.value))
                    if k == "U":
                        continue       # x op= y keeps the kind x already has unless it is definitely changed
                elif mode == "iter":
                    k = self._iter_kind(val)
                else:
                    k = self.kind(val)
                self._bind(tgt, k, newenv)
            if newenv == self.env:
                break
            self.env = newenv

    def _iter_kind(self, it):
        if isinstance(it, ast.Call):
            f = fname(it)
            if f == "enumerate" and it.args:
                return ("N:enum", self._iter_kind(it.args[0]))
            if f == "zip":
                return tuple(self._iter_kind(a) for a in it.args)
            if f == "range":
                return "N:range"
        k = self.kind(it)
        if is_seq(k):
            return elem(k)
        if isinstance(k, tuple):
            return "U"
        return k if k in ("T", "D", "M", "Y", "F", "X", "G") else "U"

    def _bind(self, tgt, k, env):
        if isinstance(tgt, ast.Name):
            if tgt.id in self.sticky:
                return
            if k == "None":
                env.setdefault(tgt.id, env.get(tgt.id, "None"))
                return
            old = env.get(tgt.id)
            if old is None or old == "None":
                env[tgt.id] = k
            elif old != k:
                env[tgt.id] = "U"
        elif isinstance(tgt, (ast.Tuple, ast.List)):
            if isinstance(k, tuple) and len(k) == len(tgt.elts):
                for t, kk in zip(tgt.elts, k):
                    self._bind(t, kk, env)
            else:
                for t in tgt.elts:
                    self._bind(t.value if isinstance(t, ast.Starred) else t, "U", env)

    # -- kinds of expressions ------------------------------------------------------------------
    def attr_kind(self, node):
        d = dotted(node)
        if d is None:
            if isinstance(node, ast.Attribute):
                k = self.seeds.attrs.get("*." + node.attr)
                if k:
                    return k
            return "U"
        if d in self.seeds.attrs:
            return self.seeds.attrs[d]
        last = d.rsplit(".", 1)[-1]
        if "*." + last in self.seeds.attrs:
            return self.seeds.attrs["*." + last]
        return "U"

    def kind(self, node):
        if node is None:
            return "None"
        if isinstance(node, ast.Constant):
            if node.value is None:
                return "None"
            if isinstance(node.value, bool):
                return "B"
            if isinstance(node.value, (int, float)):
                return "M"
            return "U"
        if isinstance(node, ast.Name):
            return self.env.get(node.id, "U")
        if isinstance(node, ast.Attribute):
            if is_inf(node):
                return "M"
            return self.attr_kind(node)
        if isinstance(node, ast.Tuple):
            return tuple(self.kind(e) for e in node.elts)
        if isinstance(node, ast.List):
            ks = {self.kind(e) for e in node.elts}
            if len(ks) == 1:
                k = ks.pop()
                return "Seq(%s)" % k if isinstance(k, str) and k not in ("U", "None") else "U"
            return "U"
        if isinstance(node, ast.Subscript):
            base = node.value
            # dict keys
            if isinstance(base, ast.Attribute) and base.attr in self.seeds.dictkeys and isinstance(node.slice, ast.Constant):
                return self.seeds.dictkeys[base.attr].get(node.slice.value, "U")
            if isinstance(base, ast.Name) and base.id in self.seeds.dictkeys and isinstance(node.slice, ast.Constant):
                return self.seeds.dictkeys[base.id].get(node.slice.value, "U")
            k = self.kind(base)
            if isinstance(k, tuple):
                try:
                    i = const_value(node.slice)
                    return k[int(i)]
                except (ValueError, IndexError, TypeError):
                    return "U"
            if is_seq(k):
                if isinstance(node.slice, ast.Slice):
                    return k
                return elem(k)
            return k
        if isinstance(node, ast.UnaryOp):
            k = self.kind(node.operand)
            if isinstance(node.op, ast.Not):
                return "B"
            if isinstance(node.op, ast.Invert):
                return k
            return k
        if isinstance(node, ast.BinOp):
            return self._binop(node, self.kind(node.left), self.kind(node.right), node.op)[0]
        if isinstance(node, ast.BoolOp) or isinstance(node, ast.Compare):
            return "B"
        if isinstance(node, ast.IfExp):
            a, b = self.kind(node.body), self.kind(node.orelse)
            return a if a == b else "U"
        if isinstance(node, ast.Call):
            return self._call(node)[0]
        if isinstance(node, ast.Starred):
            return "U"
        return "U"

    # returns (kind, violation-or-None)
    def _binop(self, node, a, b, op):
        a, b = elem(a) if is_seq(a) else a, elem(b) if is_seq(b) else b
        if not isinstance(a, str) or not isinstance(b, str):
            return "U", None
        add, sub, mul, div = isinstance(op, ast.Add), isinstance(op, ast.Sub), isinstance(op, ast.Mult), isinstance(op, ast.Div)
        if "U" in (a, b) or "None" in (a, b):
            return "U", None
        v = None
        if add or sub:
            pair = (a, b)
            if pair == ("T", "T"):
                if sub:
                    return "D", None
                return "U", ("AFF", "sum of two absolute times")
            if pair in (("T", "D"), ("T", "Dn")):
                return "T", None
            if pair in (("D", "T"), ("Dn", "T")):
                if add:
                    return "T", None
                return "U", ("AFF", "duration minus absolute time")
            if pair == ("D", "D"):
                return "D", None
            if pair == ("M", "M"):
                return "M", None
            if pair in (("T", "M"), ("M", "T")):
                z = is_zero(node.right) or is_zero(node.left)
                return ("T", None) if z else ("U", ("UNIT", "absolute time %s a pure number (a step factor is missing)" % ("plus" if add else "minus")))
            if pair in (("D", "M"), ("M", "D")):
                z = is_zero(node.right) or is_zero(node.left)
                return ("D", None) if z else ("U", ("DIR", "signed duration %s a magnitude" % ("plus" if add else "minus")))
            if pair in (("Y", "dY"), ("dY", "Y")):
                return ("Y", None) if add or a == "Y" else ("U", None)
            if pair == ("Y", "Y"):
                return ("dY", None) if sub else ("U", None)
            if pair == ("dY", "dY"):
                return "dY", None
            if pair == ("F", "F"):
                return "F", None
            if pair in (("Y", "F"), ("F", "Y")):
                return "U", ("UNIT", "state %s slope: the step-size factor is missing" % ("plus" if add else "minus"))
            if pair in (("dY", "F"), ("F", "dY")):
                return "U", ("UNIT", "state increment %s slope: the step-size factor is missing" % ("plus" if add else "minus"))
            if pair == ("X", "X"):
                return "X", None
            if pair == ("G", "G"):
                return "G", None
            if pair == ("K", "K"):
                return "K", None
            if a == b:
                return a, None
            return "U", None
        if mul:
            for x, y in ((a, b), (b, a)):
                if x == "M":
                    if y == "T":
                        return "U", ("AFF", "absolute time scaled by a number")
                    return y, None
                if x == "S":
                    return {"T": "K", "D": "Dn", "M": "D", "S": "M", "Dn": "D", "K": "T"}.get(y, "U"), None
                if x == "D" and y == "F":
                    return "dY", None
                if x == "D" and y == "D":
                    return "M", None
                if x == "iD" and y in ("D", "Dn"):
                    return "M", None
                if x == "G" and y == "G":
                    return "G2", None
                if x == "X" and y == "X":
                    return "X2", None
                if x == "B":
                    return y, None
            if "T" in (a, b):
                return "U", ("AFF", "absolute time used as a factor")
            return "U", None
        if div:
            if b == "M":
                if a == "T":
                    return "U", ("AFF", "absolute time divided by a number")
                return a, None
            if a == b and a in ("D", "Dn", "X", "G", "Y", "dY", "F"):
                return "M", None
            if a == "dY" and b == "D":
                return "F", None
            if a == "M" and b == "D":
                return "iD", None       # reciprocal of a duration: only a duration may be multiplied by it
            if "T" in (a, b):
                return "U", ("AFF", "absolute time in a quotient")
            return "U", None
        if isinstance(op, ast.Pow):
            if a == "T":
                return "U", ("AFF", "power of an absolute time")
            if a == "M":
                return "M", None
            return "U", None
        if isinstance(op, (ast.FloorDiv, ast.Mod)):
            if a == "M" and b == "M":
                return "M", None
            return "U", None
        if isinstance(op, (ast.BitAnd, ast.BitOr, ast.BitXor)):
            return ("B", None) if a == "B" and b == "B" else ("U", None)
        return "U", None

    def _call(self, node):
        d = dotted(node.func)
        f = fname(node)
        for key in (d, f):
            if key and key in self.seeds.calls:
                k = self.seeds.calls[key]
                return (k(node, self) if callable(k) else k), None
        if isinstance(node.func, ast.Subscript):
            db = dotted(node.func.value)
            if db and db + "[]" in self.seeds.calls:
                return self.seeds.calls[db + "[]"], None
        if isinstance(node.func, ast.Attribute) and ("*." + node.func.attr) in self.seeds.calls:
            k = self.seeds.calls["*." + node.func.attr]
            return (k(node, self) if callable(k) else k), None
        args = node.args
        a0 = self.kind(args[0]) if args else "U"
        e0 = elem(a0) if is_seq(a0) else a0
        if f in ("abs", "absolute", "linalg.norm", "norm"):
            if e0 == "T":
                return "U", ("AFF", "absolute value of an absolute time")
            if e0 in ("D", "Dn", "M", "K"):
                return "M", None
            if e0 in ("G", "X", "G2"):
                return e0, None
            if e0 in ("Y", "dY", "F"):
                return e0 + "mag" if False else "U", None
            return "U", None
        if f == "sign":
            if e0 == "T":
                return "U", ("AFF", "sign of an absolute time")
            if e0 in ("D", "Dn"):
                return "S", None
            return "U", None
        if f in ("minimum", "maximum", "min", "max", "clip", "fmin", "fmax"):
            ks = [self.kind(a) for a in args] + [self.kind(k.value) for k in node.keywords if k.arg in ("min", "max", "a_min", "a_max")]
            ks = [elem(k) if is_seq(k) else k for k in ks]
            ks = [k for k in ks if k != "None"]
            if len(args) == 1 and f in ("min", "max") and not node.keywords:
                # reduction over one container
                return (e0 if isinstance(e0, str) else "U"), (("DIR", "%s over a container of %s" % (f, {"T": "absolute times", "D": "signed durations"}[e0]))
                                                              if e0 in ("T", "D") else None)
            if all(isinstance(k, str) for k in ks) and "U" not in ks and ks:
                if any(k in ("T", "D") for k in ks):
                    bad = "absolute times" if "T" in ks else "signed durations"
                    res = "T" if all(k == "T" for k in ks) else ("D" if all(k in ("D",) for k in ks) else "U")
                    return res, ("DIR", "%s orders %s (kinds %s): the result depends on the direction of time" % (f, bad, "/".join(ks)))
                if len(set(ks)) == 1:
                    return ks[0], None
                if set(ks) <= {"M", "Dn"}:
                    return "M", None
            return "U", None
        if f in ("sort", "argsort", "sorted", "searchsorted"):
            if e0 in ("T", "D"):
                return (a0 if f != "argsort" else "U"), ("DIR", "%s of %s: ascending order is the order of the run only for forward integration" % (
                    f, "absolute times" if e0 == "T" else "signed durations"))
            return (a0 if f in ("sort", "sorted") else "U"), None
        if f in ("log", "log2", "log10", "sqrt", "exp", "log1p"):
            if e0 in ("D", "T"):
                return "U", ("DIR" if e0 == "D" else "AFF", "%s of a %s" % (f, "signed duration" if e0 == "D" else "absolute time"))
            if e0 == "M":
                return "M", None
            return "U", None
        if f in IDENTITY_FUNCS:
            return a0, None
        if f in ("where",) and len(args) == 3:
            a, b = self.kind(args[1]), self.kind(args[2])
            return (a if a == b else "U"), None
        if f in ("sum", "mean", "cumsum") and args:
            return a0, None
        if f in MAGNITUDE_FUNCS:
            return "M", None
        if f in ("zeros_like", "ones_like", "zeros", "ones", "arange", "linspace", "eye"):
            return "U", None
        if f in ("int", "bool"):
            return (a0 if f == "int" else "B"), None
        if f in ("any", "all", "isfinite", "isnan", "isinstance", "callable", "hasattr", "logical_and", "logical_or", "logical_not"):
            return "B", None
        return "U", None

    # -- checking ------------------------------------------------------------------------------
    def direction_guarded(self, node):
        """True if node lies in a branch of an `if`/conditional expression whose test compares a signed duration
        or a direction sign with zero, or is a later conjunct of such a test."""
        child = node
        p = getattr(node, "_parent", None)
        while p is not None and p is not self.func:
            if isinstance(p, (ast.If, ast.IfExp)):
                if child is not p.test and self._is_dir_test(p.test):
                    return True
            if isinstance(p, ast.BoolOp) and isinstance(p.op, ast.And):
                idx = [i for i, v in enumerate(p.values) if v is child]
                if idx and any(self._is_dir_test(v) for v in p.values[:idx[0]]):
                    return True
            child = p
            p = getattr(p, "_parent", None)
        return False

    def _is_dir_test(self, test):
        for n in ast.walk(test):
            if isinstance(n, ast.Compare) and len(n.ops) == 1:
                l, r = n.left, n.comparators[0]
                kl, kr = self.kind(l), self.kind(r)
                if isinstance(n.ops[0], ORDER_OPS) and ((kl in ("D", "S") and is_zero(r)) or (kr in ("D", "S") and is_zero(l))):
                    return True
                if kl == "S" and kr == "S":
                    return True
        return False

    def check(self):
        out = []
        for n in walk_no_nested(self.func):
            if id(n) in self.exempt:
                continue
            v = None
            kinds = None
            if isinstance(n, ast.BinOp):
                a, b = self.kind(n.left), self.kind(n.right)
                _, v = self._binop(n, a, b, n.op)
                kinds = (a, b)
            elif isinstance(n, ast.AugAssign):
                a, b = self.kind(_load(n.target)), self.kind(n.value)
                _, v = self._binop(n, a, b, n.op)
                kinds = (a, b)
            elif isinstance(n, ast.Call):
                _, v = self._call(n)
                kinds = tuple(self.kind(a) for a in n.args)
            elif isinstance(n, ast.Compare):
                v, kinds = self._compare(n)
            if kinds is not None and all(isinstance(k, str) and k not in ("U", "None") for k in kinds) and kinds:
                self.judged.append((n, "/".join(kinds)))
            if v is not None and v[0] in self.disc:
                if v[0] == "DIR" and self.direction_guarded(n):
                    continue
                out.append(Violation(n, v[0], v[1], kinds))
        return out

    def _compare(self, n):
        left = n.left
        v = None
        allk = []
        for op, right in zip(n.ops, n.comparators):
            a, b = self.kind(left), self.kind(right)
            a = elem(a) if is_seq(a) else a
            b = elem(b) if is_seq(b) else b
            allk += [a, b]
            if isinstance(a, str) and isinstance(b, str) and "U" not in (a, b) and "None" not in (a, b):
                order = isinstance(op, ORDER_OPS)
                zl, zr = is_zero(left), is_zero(right)
                if order:
                    if a == "T" and b == "T":
                        v = v or ("DIR", "ordering of two absolute times without knowledge of the direction of integration")
                    elif (a == "T" and b == "M" and not is_inf(right)) or (b == "T" and a == "M" and not is_inf(left)):
                        v = v or ("AFF", "absolute time ordered against a constant")
                    elif a == "D" and b == "D":
                        v = v or ("DIR", "ordering of two signed durations: the outcome flips with the direction of time")
                    elif (a == "D" and b in ("M", "Dn") and not zr) or (b == "D" and a in ("M", "Dn") and not zl):
                        v = v or ("DIR", "signed duration ordered against a magnitude")
                    elif (a in ("G", "G2") and b not in ("G", "G2") and not zr) or (b in ("G", "G2") and a not in ("G", "G2") and not zl):
                        if (a, b) in (("G2", "G2"),):
                            pass
                        else:
                            v = v or ("DIM", "a value of the searched function (kind %s) is ordered against a quantity of another unit (kind %s): "
                                             "the outcome changes when the function is rescaled" % ((a, b) if a in ("G", "G2") else (b, a)))
                    elif (a == "G" and b == "G2") or (a == "G2" and b == "G"):
                        v = v or ("DIM", "function value ordered against a product of function values")
                    elif (a == "X" and b == "X2") or (a == "X2" and b == "X"):
                        v = v or ("DIM", "an abscissa difference is ordered against a PRODUCT of abscissa quantities (a tolerance scaled by the position of the "
                                         "bracket): the stopping width then grows with |x|, so far from the origin the returned point is not within the requested tolerance")
                else:
                    if (a == "T" and b == "M" and not is_inf(right)) or (b == "T" and a == "M" and not is_inf(left)):
                        v = v or ("AFF", "absolute time compared with a constant")
            left = right
        return v, tuple(allk)


def _load(t):
    import copy
    t2 = copy.copy(t)
    t2.ctx = ast.Load()
    t2._parent = getattr(t, "_parent", None)
    return t2
