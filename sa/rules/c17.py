"""C17 — Hermite interpolation primitives by polynomial normal forms; bisection searches by abstract
interpretation over the finite domain of order types."""
import ast
from fractions import Fraction

from ..absint import Interp, Domain, OPAQUE, Nondet, PathLimit
from ..front import const_value, AnalysisError, dotted, fname, is_self_attr, src, walk_no_nested
from ..sym import Canon, Poly, inline_locals

LEVEL = "proof"
INTERP = "desolver/utilities/interpolation.py"
UTIL = "desolver/utilities/utilities.py"
CLS = "CubicHermiteInterp"
SLOTS = ("t0", "t1", "p0", "p1", "m0", "m1")


def run(repo, run, tier):
    from .common import readonly
    readonly(repo, run, "C17.6", "desolver/utilities/interpolation.py", ["CubicHermiteInterp.__call__", "CubicHermiteInterp.grad"], "the evaluation methods of a Hermite piece")
    readonly(repo, run, "C17.7", "desolver/utilities/utilities.py", ["search_bisection", "search_bisection_vec"], "the bisection searches")
    run.trusted += ["a cubic is determined by its values and first derivatives at two points (Hermite interpolation)",
                    "comparison-only programs depend on their numeric inputs only through the order type (data independence)",
                    "python ast, fractions; the analyser in /verif/sa"]
    run.assumptions += ["real arithmetic: rounding of the evaluated polynomial is not modelled ('to rounding' is not decided)"]
    hermite(repo, run)
    scale_discipline(repo, run)
    bisection(repo, run, tier)
    bisection_vec(repo, run, tier)


# ------------------------------------------------------------------------------------------------
def _ret_expr(fn):
    rets = [st for st in fn.body if isinstance(st, ast.Return)]
    if len(rets) != 1 or rets[0].value is None:
        raise AnalysisError("%s: expected a single top-level return" % fn.name)
    return rets[0].value


def hermite(repo, run):
    r0 = run.rule("C17.0", "constructor stores its six arguments in the slots (t0,t1,p0,p1,m0,m1); trange = t1 - t0, tshift = t0; "
                           "the affine map is (t - t0)/(t1 - t0)", floor=9)
    r1 = run.rule("C17.1", "value polynomial H(tau): cubic in tau with H(0)=p0, H(1)=p1, H'(0)=trange*m0, H'(1)=trange*m1", floor=5)
    r2 = run.rule("C17.2", "grad(t) equals d/dt H((t - t0)/trange) as polynomials", floor=1)
    r3 = run.rule("C17.3", "early-return constants equal the polynomial at the guarded value of tau", floor=4)
    cls = repo.get(INTERP, CLS)
    init = repo.get(INTERP, CLS + ".__init__")
    run.analysed_fn(INTERP, init)
    params = [a.arg for a in init.args.args][1:]
    if len(params) != 6:
        raise AnalysisError("CubicHermiteInterp.__init__ no longer takes six data arguments: %s" % params)
    stored = {}
    for st in walk_no_nested(init):
        if isinstance(st, ast.Assign) and len(st.targets) == 1 and is_self_attr(st.targets[0]):
            v = st.value
            if isinstance(v, ast.Call) and fname(v) in ("copy", "clone", "asarray", "array") and v.args:
                v = v.args[0]
            if isinstance(v, ast.Name):
                stored[st.targets[0].attr] = v.id
    # a piece owns its data: the six inputs are COPIED (the caller's stepping loop may reuse and overwrite its time / state / slope buffers; a piece that only keeps
    # references then stops reproducing the end values and slopes it was built from -- with t0 and t1 aliasing one buffer its interval length becomes zero)
    r9_ = run.rule("C17.9", "CubicHermiteInterp.__init__ stores a copy (copy / clone / array(.., copy=True)) of each of its six inputs, never the input object itself or an "
                            "asarray view of it", floor=6)
    for st in walk_no_nested(init):
        if isinstance(st, ast.Assign) and len(st.targets) == 1 and is_self_attr(st.targets[0]) and st.targets[0].attr in SLOTS:
            v = st.value
            copies = isinstance(v, ast.Call) and ((fname(v) or "").split(".")[-1] in ("copy", "clone", "deepcopy") or (
                (fname(v) or "").split(".")[-1] in ("array",) and not any(k.arg == "copy" and isinstance(k.value, ast.Constant) and k.value.value is False for k in v.keywords)))
            run.judged(r9_, "self.%s = %s" % (st.targets[0].attr, src(v)[:50]), ok=copies)
            if not copies:
                run.report("C17.9", INTERP, st, "the piece keeps `%s` for its slot %s -- the caller's own object (asarray returns its argument unchanged when it already is an array): "
                           "when the caller updates that buffer in place afterwards, the piece no longer reproduces the end values / end slopes / cubic it was built from" % (
                               src(v)[:40], st.targets[0].attr))
    for pos, slot in enumerate(SLOTS):
        ok = stored.get(slot) == params[pos]
        run.judged(r0, "self.%s <- parameter #%d (%s)" % (slot, pos, params[pos]), ok=ok)
        if not ok:
            run.report("C17.0", INTERP, init, "slot %s is filled from %r, not from positional parameter #%d: callers pass "
                                              "(t0, t1, p0, p1, m0, m1) in that order" % (slot, stored.get(slot), pos),
                       text="self.%s binding" % slot)
    # properties
    def prop_poly(name):
        fn = repo.get(INTERP, CLS + "." + name)
        run.analysed_fn(INTERP, fn)
        return Canon().poly(_ret_expr(fn)), fn
    tr, trfn = prop_poly("trange")
    ts, tsfn = prop_poly("tshift")
    ok = tr == Poly.atom("self.t1") - Poly.atom("self.t0")
    run.judged(r0, "trange = %s" % tr.canon(), ok=ok)
    if not ok:
        run.report("C17.0", INTERP, trfn, "trange is not t1 - t0 (got %s): the interval orientation/length the basis is scaled with is wrong" % tr.canon())
    ok = ts == Poly.atom("self.t0")
    run.judged(r0, "tshift = %s" % ts.canon(), ok=ok)
    if not ok:
        run.report("C17.0", INTERP, tsfn, "tshift is not t0 (got %s)" % ts.canon())
    aff = repo.get(INTERP, CLS + ".__affine_transform")
    run.analysed_fn(INTERP, aff)
    ap = [a.arg for a in aff.args.args]
    affp = Canon(rename={ap[1]: "T"}).poly(_ret_expr(aff)).cancel()
    want_aff = (Poly.atom("T") - Poly.atom("self.tshift")) * Poly.atom("inv(self.trange)")
    ok = affp == want_aff
    run.judged(r0, "affine map = %s" % affp.canon(), ok=ok)
    if not ok:
        run.report("C17.0", INTERP, aff, "the affine map is not (t - tshift)/trange (got %s)" % affp.canon())

    # value polynomial
    call = repo.get(INTERP, CLS + ".__call__")
    run.analysed_fn(INTERP, call)
    cp = [a.arg for a in call.args.args]

    def hook(node, canon):
        if isinstance(node, ast.Call) and dotted(node.func) == "self.__affine_transform" and len(node.args) == 1:
            return "tau"
        return None
    env = inline_locals(call)
    H = Canon(rename={cp[1]: "T"}, env=env, atom_hook=hook).poly(_ret_expr(call)).cancel()
    D = Poly.atom("self.trange")
    data = {k: Poly.atom("self." + k) for k in ("p0", "p1", "m0", "m1")}
    allowed = {"tau", "self.trange", "self.p0", "self.p1", "self.m0", "self.m1"}
    extra = H.atoms() - allowed
    okc = not extra and H.degree_in("tau") <= 3
    run.judged(r1, "H(tau) = %s" % H.canon()[:200], ok=okc)
    if not okc:
        run.report("C17.1", INTERP, _ret_expr(call), "the interpolant is not a cubic in tau over (p0,p1,m0,m1,trange): degree %d, foreign atoms %s" % (
            H.degree_in("tau"), sorted(extra)))
    dH = H.diff("tau")
    conds = [("H(0) = p0", H.subs({"tau": Poly.const(0)}), data["p0"]),
             ("H(1) = p1", H.subs({"tau": Poly.const(1)}), data["p1"]),
             ("H'(0) = trange*m0", dH.subs({"tau": Poly.const(0)}), D * data["m0"]),
             ("H'(1) = trange*m1", dH.subs({"tau": Poly.const(1)}), D * data["m1"])]
    for label, got, want in conds:
        ok = got == want
        run.judged(r1, "%s: got %s" % (label, got.canon()), ok=ok)
        if not ok:
            run.report("C17.1", INTERP, _ret_expr(call), "Hermite end condition %s fails: the polynomial gives %s" % (label, got.canon()),
                       text="Hermite value polynomial: %s" % label)
    # early returns in __call__
    _early(run, r3, INTERP, call, env, hook, cp[1], lambda c: H.subs({"tau": Poly.const(c)}), "value")

    # gradient
    grad = repo.get(INTERP, CLS + ".grad")
    run.analysed_fn(INTERP, grad)
    gp = [a.arg for a in grad.args.args]
    genv = inline_locals(grad)
    G = Canon(rename={gp[1]: "T"}, env=genv, atom_hook=hook).poly(_ret_expr(grad))
    tau_of_t = (Poly.atom("T") - Poly.atom("self.tshift")) * Poly.atom("inv(self.trange)")
    G = G.subs({"tau": tau_of_t}).cancel()
    want = (dH.subs({"tau": tau_of_t}) * Poly.atom("inv(self.trange)")).cancel()
    ok = G == want
    run.judged(r2, "grad polynomial = %s" % G.canon()[:200], ok=ok)
    if not ok:
        diff = (G - want)
        run.report("C17.2", INTERP, _ret_expr(grad), "grad is not the t-derivative of the value polynomial; difference: %s" % diff.canon()[:300],
                   text="Hermite gradient polynomial")

    def gval(c):
        # tau = c  <=>  T = tshift + c*trange
        return G.subs({"T": Poly.atom("self.tshift") + Poly.atom("self.trange").scale(c)}).cancel()
    _early(run, r3, INTERP, grad, genv, hook, gp[1], gval, "gradient", tau_poly=tau_of_t)


def _early(run, rid, rel, fn, env, hook, tparam, value_at, what, tau_poly=None):
    """`if <tau> == c: return <expr>` guards: <expr> must equal the polynomial at tau = c."""
    canon = Canon(rename={tparam: "T"}, env=env, atom_hook=hook)
    found = 0

    def depends_on_tau(test):
        """does the guard read the query coordinate (through locals, the affine map, abs(), ...)?"""
        for n in ast.walk(test):
            if isinstance(n, ast.Name) and isinstance(n.ctx, ast.Load):
                try:
                    at = canon.poly(n).atoms()
                except RecursionError:
                    at = set()
                if any(a in ("tau", "T") or "tau" in a or a.startswith("T") and not a[1:2].isalnum() for a in at):
                    return True
            if isinstance(n, ast.Call) and dotted(n.func) == "self.__affine_transform":
                return True
        return False

    def range_shortcut(ifnode, t):
        nonlocal found
        found += 1
        run.judged(rid, "%s early return under `%s`" % (what, src(t)), ok=False)
        run.report(rid, rel, ifnode.body[0], "the shortcut `%s` is taken for a whole RANGE of the normalised coordinate (`%s` is not an equality of the coordinate with one "
                   "value), where the %s polynomial is not the constant it returns: near or beyond the ends of the step the %s is no longer that of the cubic "
                   "(a cubic is not reproduced to rounding there)" % (src(ifnode.body[0]), src(t), what, what))

    def visit(ifnode):
        nonlocal found
        t = ifnode.test
        if isinstance(t, ast.Compare) and len(t.ops) == 1 and isinstance(t.ops[0], ast.Eq):
            lhs = canon.poly(t.left).cancel()
            rhs = canon.poly(t.comparators[0])
            is_tau = lhs == Poly.atom("tau") or (tau_poly is not None and lhs == tau_poly)
            if is_tau and rhs.is_const() and ifnode.body and isinstance(ifnode.body[0], ast.Return):
                c = rhs.const_value()
                got = canon.poly(ifnode.body[0].value).cancel()
                want = value_at(c)
                ok = got == want
                found += 1
                run.judged(rid, "%s early return at tau=%s: %s" % (what, c, got.canon()), ok=ok)
                if not ok:
                    run.report(rid, rel, ifnode.body[0], "the shortcut for tau == %s returns %s but the %s polynomial there is %s" % (
                        c, got.canon(), what, want.canon()[:120]))
            elif ifnode.body and isinstance(ifnode.body[0], ast.Return) and depends_on_tau(t):
                range_shortcut(ifnode, t)
        elif ifnode.body and isinstance(ifnode.body[0], ast.Return) and depends_on_tau(t):
            range_shortcut(ifnode, t)
        for o in ifnode.orelse:
            if isinstance(o, ast.If):
                visit(o)
    for st in fn.body:
        if isinstance(st, ast.If):
            visit(st)
    return found


# ------------------------------------------------------------------------------------------------
class _Arr:
    def __init__(self, n):
        self.n = n


class _Elem:
    def __init__(self, coord):
        self.coord = coord


class _IndexErr(Exception):
    pass


class _Converted(Exception):
    """the query or the array is converted to another dtype before being compared"""


class BisectDomain(Domain):
    """array = strictly increasing of length n (element i at coordinate 2i+1); query at coordinate q in 0..2n."""

    def call(self, name, node, args, kwargs, interp):
        if name == "len" and len(args) == 1 and isinstance(args[0], _Arr):
            return args[0].n
        return NotImplemented

    def load_subscript(self, obj, idx, node, interp):
        if isinstance(obj, _Arr):
            if not isinstance(idx, int) or isinstance(idx, bool):
                raise AnalysisError("array indexed by a non-index value in %s" % src(node))
            if idx < -obj.n or idx >= obj.n:
                raise _IndexErr(src(node))
            if idx < 0:
                idx += obj.n
            return _Elem(2 * idx + 1)
        return NotImplemented

    def compare(self, op, a, b, node):
        if isinstance(a, _Elem) and isinstance(b, _Elem):
            import operator
            f = {ast.Lt: operator.lt, ast.LtE: operator.le, ast.Gt: operator.gt, ast.GtE: operator.ge,
                 ast.Eq: operator.eq, ast.NotEq: operator.ne}.get(type(op))
            if f is None:
                raise AnalysisError("unsupported comparison in %s" % src(node))
            return f(a.coord, b.coord)
        if isinstance(a, _Elem) or isinstance(b, _Elem):
            raise AnalysisError("array element compared with a non-element in %s" % src(node))
        return NotImplemented

    def binop(self, op, a, b, node):
        if isinstance(a, _Elem) or isinstance(b, _Elem):
            raise AnalysisError("arithmetic on array elements / the query in `%s`: the search is not comparison-only, "
                                "the order-type abstraction does not apply" % src(node))
        return NotImplemented


def bisection(repo, run, tier):
    r4 = run.rule("C17.4", "scalar bisection interpreted over all order types (array length n, query position among 2n+1 classes): "
                           "returns min(first index with element >= query, n-1), no out-of-range access, terminates", floor=60)
    fn = repo.get(UTIL, "search_bisection")
    run.analysed_fn(UTIL, fn)
    params = [a.arg for a in fn.args.args]
    if len(params) != 2:
        raise AnalysisError("search_bisection signature changed")
    nmax = 8 if tier == "quick" else 24
    bad = []
    total = 0
    for n in range(1, nmax + 1):
        for q in range(0, 2 * n + 1):
            total += 1
            it = Interp(BisectDomain(), max_paths=4, max_steps=5000)
            want = min(q // 2, n - 1)
            try:
                outs = list(it.all_paths(fn, {params[0]: _Arr(n), params[1]: _Elem(q)}))
            except _IndexErr as e:
                bad.append((n, q, "IndexError at %s" % e))
                run.judged(r4, "n=%d q=%d" % (n, q), ok=False)
                continue
            except PathLimit:
                bad.append((n, q, "does not terminate within the step bound"))
                run.judged(r4, "n=%d q=%d" % (n, q), ok=False)
                continue
            if len(outs) != 1 or outs[0][0] != "return" or not isinstance(outs[0][1], int):
                raise AnalysisError("search_bisection is not deterministic/concrete over order types (n=%d, q=%d): %r" % (n, q, outs[:2]))
            got = outs[0][1]
            ok = got == want
            run.judged(r4, "n=%d query-class=%d -> %d (spec %d)" % (n, q, got, want), nontrivial=n > 1, ok=ok)
            if not ok:
                bad.append((n, q, "returns %d, specification %d" % (got, want)))
    run.extra["bisection_order_types"] = total
    if bad:
        n, q, why = bad[0]
        pos = "equal to element %d" % (q // 2) if q % 2 else ("below all elements" if q == 0 else (
            "above all elements" if q == 2 * n else "between elements %d and %d" % (q // 2 - 1, q // 2)))
        run.report("C17.4", UTIL, fn, "for a strictly increasing array of length %d and a query %s the search %s (%d of %d order types fail)" % (
            n, pos, why, len(bad), total), text="search_bisection over order types: first failure n=%d class=%d: %s" % (n, q, why))


# ------------------------------------------------------------------------------------------------
# vectorised bisection: the same order-type abstraction with a small model of the elementwise numpy operations it uses
class _Vec:
    def __init__(self, kind, data):
        self.kind, self.data = kind, list(data)       # kind in {'int', 'bool', 'elem'}

    def __len__(self):
        return len(self.data)


class VecBisectDomain(BisectDomain):
    CMP = None

    def _cmp(self, op, a, b):
        import operator
        f = {ast.Lt: operator.lt, ast.LtE: operator.le, ast.Gt: operator.gt, ast.GtE: operator.ge, ast.Eq: operator.eq, ast.NotEq: operator.ne}.get(type(op))
        if f is None:
            raise AnalysisError("unsupported comparison operator in the vector search")
        return f(a, b)

    def _lift(self, x, n, kind):
        if isinstance(x, _Vec):
            return x.data
        return [x] * n

    def compare(self, op, a, b, node):
        if isinstance(a, _Vec) or isinstance(b, _Vec):
            n = len(a) if isinstance(a, _Vec) else len(b)
            ka = a.kind if isinstance(a, _Vec) else ("elem" if isinstance(a, _Elem) else "int")
            kb = b.kind if isinstance(b, _Vec) else ("elem" if isinstance(b, _Elem) else "int")
            if ka != kb:
                raise AnalysisError("comparison between array elements and non-elements in `%s`" % src(node))
            da, db = self._lift(a, n, ka), self._lift(b, n, kb)
            if ka == "elem":
                return _Vec("bool", [self._cmp(op, x.coord, y.coord) for x, y in zip(da, db)])
            return _Vec("bool", [self._cmp(op, x, y) for x, y in zip(da, db)])
        return super().compare(op, a, b, node)

    def binop(self, op, a, b, node):
        if isinstance(a, _Vec) or isinstance(b, _Vec):
            n = len(a) if isinstance(a, _Vec) else len(b)
            for x in (a, b):
                if isinstance(x, _Vec) and x.kind == "elem" or isinstance(x, _Elem):
                    raise AnalysisError("arithmetic on array elements / queries in `%s`: the vector search is not comparison-only" % src(node))
                if not isinstance(x, (_Vec, int)) or isinstance(x, bool):
                    return OPAQUE
            import operator
            f = {ast.Add: operator.add, ast.Sub: operator.sub, ast.Mult: operator.mul, ast.FloorDiv: operator.floordiv}.get(type(op))
            if f is None:
                raise AnalysisError("unsupported arithmetic `%s` on index vectors" % src(node))
            return _Vec("int", [f(x, y) for x, y in zip(self._lift(a, n, "int"), self._lift(b, n, "int"))])
        return super().binop(op, a, b, node)

    def unary(self, op, a, node):
        if isinstance(a, _Vec) and a.kind == "bool" and isinstance(op, (ast.Invert, ast.Not)):
            return _Vec("bool", [not x for x in a.data])
        return NotImplemented

    def truth(self, v, node):
        if isinstance(v, _Vec):
            raise AnalysisError("truth value of a vector in `%s`" % src(node))
        return NotImplemented

    def call(self, name, node, args, kwargs, interp):
        short = (name or "").split(".")[-1]
        if short in ("asarray", "array", "astype") and args and isinstance(args[0], (_Vec, _Arr)):
            if len(args) > 1 or any(k in kwargs for k in ("dtype",)):
                raise _Converted(src(node))
            return args[0]
        if short in ("zeros_like", "ones_like") and args and isinstance(args[0], _Vec):
            return _Vec("int", [0 if short == "zeros_like" else 1] * len(args[0]))
        if short == "take" and len(args) >= 2 and isinstance(args[0], _Arr) and isinstance(args[1], _Vec) and args[1].kind == "int":
            out = []
            for i in args[1].data:
                if i < -args[0].n or i >= args[0].n:
                    raise _IndexErr(src(node))
                out.append(_Elem(2 * (i % args[0].n) + 1))
            return _Vec("elem", out)
        if short == "any" and args and isinstance(args[0], _Vec) and args[0].kind == "bool":
            return any(args[0].data)
        if short == "all" and args and isinstance(args[0], _Vec) and args[0].kind == "bool":
            return all(args[0].data)
        if short == "where" and len(args) == 3 and isinstance(args[0], _Vec) and args[0].kind == "bool":
            n = len(args[0])
            a, b = self._lift(args[1], n, "int"), self._lift(args[2], n, "int")
            return _Vec("int", [x if c else y for c, x, y in zip(args[0].data, a, b)])
        if short in ("logical_and", "logical_or") and len(args) == 2 and all(isinstance(x, _Vec) and x.kind == "bool" for x in args):
            f = (lambda p, q: p and q) if short == "logical_and" else (lambda p, q: p or q)
            return _Vec("bool", [f(p, q) for p, q in zip(args[0].data, args[1].data)])
        if short == "logical_not" and args and isinstance(args[0], _Vec):
            return _Vec("bool", [not x for x in args[0].data])
        if short == "len" and args and isinstance(args[0], _Vec):
            return len(args[0])
        if short in ("copy", "clone") and args and isinstance(args[0], _Vec):
            return _Vec(args[0].kind, args[0].data)
        return super().call(name, node, args, kwargs, interp)

    def load_subscript(self, obj, idx, node, interp):
        if isinstance(obj, _Vec) and isinstance(idx, _Vec) and idx.kind == "bool":
            return _Vec(obj.kind, [x for x, m in zip(obj.data, idx.data) if m])
        if isinstance(obj, _Vec) and isinstance(idx, int):
            return obj.data[idx]
        return super().load_subscript(obj, idx, node, interp)

    def store_subscript(self, obj, idx, val, node, interp):
        if isinstance(obj, _Vec) and isinstance(idx, _Vec) and idx.kind == "bool":
            pos = [i for i, m in enumerate(idx.data) if m]
            vals = val.data if isinstance(val, _Vec) else [val] * len(pos)
            if len(vals) != len(pos):
                raise AnalysisError("masked store with mismatching lengths in `%s`" % src(node))
            for i, v in zip(pos, vals):
                obj.data[i] = v
            return True
        return NotImplemented


def bisection_vec(repo, run, tier, rule_id="C17.5"):
    r5 = run.rule(rule_id, "vectorised bisection interpreted over all order types with a model of its elementwise numpy operations: for every array length n and "
                           "every vector of query classes tried it returns min(first index with element >= query, n-1) component-wise, i.e. agrees with the "
                           "scalar search", floor=20)
    fn = repo.get(UTIL, "search_bisection_vec")
    run.analysed_fn(UTIL, fn)
    params = [a.arg for a in fn.args.args]
    nmax = 6 if tier == "quick" else 16
    bad = []
    total = 0
    for n in range(1, nmax + 1):
        queries = [list(range(0, 2 * n + 1))] + [[q] for q in range(0, 2 * n + 1)] + [list(range(2 * n, -1, -1))]
        for qs in queries:
            total += 1
            it = Interp(VecBisectDomain(), max_paths=2, max_steps=20000)
            want = [min(q // 2, n - 1) for q in qs]
            try:
                outs = list(it.all_paths(fn, {params[0]: _Arr(n), params[1]: _Vec("elem", [_Elem(q) for q in qs])}))
            except _IndexErr as e:
                bad.append((n, qs, "IndexError at %s" % e))
                run.judged(r5, "n=%d queries=%s" % (n, qs), ok=False)
                continue
            except _Converted as e:
                run.judged(r5, "conversion %s" % e, ok=False)
                run.report(rule_id, UTIL, fn, "the queries (or the array) are converted to another dtype (`%s`) before they are compared: a query between two representable "
                                              "values of the narrower type is rounded onto an element, so the vector search no longer returns the first element not smaller than "
                                              "the query and disagrees with the scalar search" % e, text="search_bisection_vec converts its operands: %s" % e)
                return
            except PathLimit:
                bad.append((n, qs, "does not terminate within the step bound"))
                run.judged(r5, "n=%d queries=%s" % (n, qs), ok=False)
                continue
            if len(outs) != 1 or outs[0][0] != "return" or not isinstance(outs[0][1], _Vec) or outs[0][1].kind != "int":
                raise AnalysisError("search_bisection_vec is not deterministic/concrete over order types (n=%d): %r" % (n, outs[:1]))
            got = outs[0][1].data
            ok = got == want
            run.judged(r5, "n=%d query classes %s -> %s" % (n, qs if len(qs) < 6 else "[all %d]" % len(qs), got if len(got) < 8 else "..."), nontrivial=n > 1, ok=ok)
            if not ok:
                bad.append((n, qs, "returns %s, specification %s" % (got, want)))
    run.extra["vector_bisection_cases"] = total
    if bad:
        n, qs, why = bad[0]
        run.report(rule_id, UTIL, fn, "for a strictly increasing array of length %d and query classes %s the vectorised search %s (%d of %d cases fail): it disagrees "
                                      "with the specification / the scalar search" % (n, qs, why, len(bad), total),
                   text="search_bisection_vec over order types: first failure n=%d: %s" % (n, why))


# ------------------------------------------------------------------------------------------------
def scale_discipline(repo, run):
    """'for intervals of either orientation', of any length the dtype can represent: the Hermite value and gradient are homogeneous of degree 0 and -1 in the unit of
    time, and the shipped code forms them from the normalised coordinate (degree 0) times at most ONE factor of the interval length.  A rewriting that is the same
    polynomial but forms a power of a time difference on its own (`trange**3`, `(t - t0)**2`) leaves the floating range long before the result does: in float16
    `trange**3` overflows for steps above 40 and underflows below 4e-3, in float32 below 1e-15 -- the gradient silently stops being the derivative of the value."""
    rid = run.rule("C17.8", "scale discipline of CubicHermiteInterp.__call__ / grad: every intermediate value has a degree in the unit of time between -1 and +1 (degrees by "
                            "dimensional analysis: times and the interval length +1, slopes -1, the normalised coordinate 0)", floor=10)
    DEG = {"self.trange": 1, "self.tshift": 1, "self.t0": 1, "self.t1": 1, "self.p0": 0, "self.p1": 0, "self.m0": -1, "self.m1": -1}
    for meth in ("__call__", "grad"):
        fn = repo.get(INTERP, CLS + "." + meth)
        tp = [a.arg for a in fn.args.args][1]
        env = inline_locals(fn)
        memo = {}

        def deg(e, depth=0):
            """degree in the unit of time, or None when not definite"""
            if depth > 14:
                return None
            if isinstance(e, ast.Constant):
                return 0 if isinstance(e.value, (int, float)) else None
            if isinstance(e, ast.Name):
                if e.id == tp:
                    return 1
                if e.id in env:
                    return deg(env[e.id], depth + 1)
                return None
            if isinstance(e, ast.Attribute):
                return DEG.get(src(e))
            if isinstance(e, ast.UnaryOp):
                return deg(e.operand, depth + 1)
            if isinstance(e, ast.Call):
                if dotted(e.func) == "self.__affine_transform":
                    return 0
                if (fname(e) or "").split(".")[-1] in ("abs", "absolute", "asarray", "copy") and e.args:
                    return deg(e.args[0], depth + 1)
                return None
            if isinstance(e, ast.BinOp):
                l, r = deg(e.left, depth + 1), deg(e.right, depth + 1)
                if isinstance(e.op, (ast.Add, ast.Sub)):
                    return l if l == r else (l if r is None else (r if l is None else None))
                if l is None or r is None:
                    if isinstance(e.op, ast.Pow) and l is not None:
                        try:
                            return l * const_value(e.right)
                        except ValueError:
                            return None
                    return None
                if isinstance(e.op, ast.Mult):
                    return l + r
                if isinstance(e.op, ast.Div):
                    return l - r
                if isinstance(e.op, ast.Pow):
                    try:
                        return l * const_value(e.right)
                    except ValueError:
                        return None
            return None
        run.analysed_fn(INTERP, fn)
        seen = set()
        for node in walk_no_nested(fn):
            if isinstance(node, (ast.BinOp,)) and id(node) not in seen:
                d = deg(node)
                if d is None:
                    continue
                ok = -1 <= d <= 1
                run.judged(rid, "%s: `%s` has degree %s" % (meth, src(node)[:70], d), ok=ok, nontrivial=d != 0)
                if not ok:
                    for x in ast.walk(node):
                        seen.add(id(x))
                    run.report("C17.8", INTERP, node, "`%s` is an intermediate of degree %s in the unit of time (a power of a time difference formed on its own): it overflows / "
                               "underflows for long / short intervals although the %s it is part of is of degree %s -- in float16 a cube of the interval length overflows for "
                               "steps above 40 and underflows below 4e-3; the result is then inf, nan or silently 0, and the gradient is no longer the derivative of the value"
                               % (src(node)[:60], d, "value" if meth == "__call__" else "gradient", 0 if meth == "__call__" else -1))
