"""Rules shared by several properties."""
import ast

from ..front import AnalysisError, dotted, is_self_attr, src, walk_no_nested


def readonly(repo, run, rule_id, rel, quals, what, allowed=(), floor=None):
    """who-may-write: the listed query functions / methods store nothing that outlives the call -- no instance attribute, no item of an instance
    attribute, no module-level name (global), no mutation of a mutable default argument.  A lookup that leaves state behind answers a later
    lookup from that state (a stale cache), which is exactly what these properties exclude for all sequences of calls."""
    rid = run.rule(rule_id, "who-may-write: %s keep no state between calls (no attribute / attribute-item / global store, no call of a mutating method on an "
                            "attribute or on a default argument)" % what, floor=floor if floor is not None else len(quals))
    MUT = {"append", "extend", "insert", "pop", "remove", "clear", "update", "setdefault", "add", "discard", "sort", "reverse", "popitem"}
    for q in quals:
        fn = repo.maybe(rel, q)
        if fn is None:
            raise AnalysisError("anchor missing: %s::%s" % (rel, q))
        bad = []
        defaults = set()
        pos = fn.args.posonlyargs + fn.args.args
        for a, d in zip(pos[len(pos) - len(fn.args.defaults):], fn.args.defaults):
            if isinstance(d, (ast.List, ast.Dict, ast.Set)) or (isinstance(d, ast.Call) and dotted(d.func) in ("dict", "list", "set")):
                defaults.add(a.arg)
        for st in ast.walk(fn):
            tg = st.targets if isinstance(st, ast.Assign) else ([st.target] if isinstance(st, (ast.AugAssign, ast.AnnAssign)) else [])
            for t in tg:
                for x in ast.walk(t):
                    if isinstance(x, ast.Attribute) and isinstance(x.ctx, ast.Store) and isinstance(x.value, ast.Name) and x.value.id in ("self", "cls") and x.attr not in allowed:
                        bad.append((st, "self.%s" % x.attr))
                    if isinstance(x, ast.Subscript) and isinstance(x.ctx, ast.Store) and is_self_attr(x.value) and x.value.attr not in allowed:
                        bad.append((st, "self.%s[...]" % x.value.attr))
                    if isinstance(x, ast.Subscript) and isinstance(x.ctx, ast.Store) and isinstance(x.value, ast.Name) and x.value.id in defaults:
                        bad.append((st, "default argument %s[...]" % x.value.id))
            if isinstance(st, (ast.Global, ast.Nonlocal)) and st in list(walk_no_nested(fn)):
                bad.append((st, "%s %s" % (type(st).__name__.lower(), ", ".join(st.names))))
            if isinstance(st, ast.Call) and isinstance(st.func, ast.Attribute) and st.func.attr in MUT:
                recv = st.func.value
                if is_self_attr(recv) and recv.attr not in allowed:
                    bad.append((st, "self.%s.%s(...)" % (recv.attr, st.func.attr)))
                if isinstance(recv, ast.Name) and recv.id in defaults:
                    bad.append((st, "default argument %s.%s(...)" % (recv.id, st.func.attr)))
        run.judged(rid, "%s stores %s" % (q, sorted({b for _, b in bad}) or "nothing"), ok=not bad)
        for st, b in bad:
            run.report(rule_id, rel, st, "%s writes `%s`: state left behind by one call is visible to the next (a lookup answered from a value cached by an earlier lookup)" % (q, b))
