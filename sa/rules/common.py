"""Rules shared by several properties."""
import ast

from ..front import AnalysisError, dotted, fname, is_self_attr, src, walk_no_nested


def readonly(repo, run, rule_id, rel, quals, what, allowed=(), floor=None):
    """who-may-write: the listed query functions / methods store nothing that outlives the call -- no instance attribute, no item of an instance
    attribute, no module-level name (global), no mutation of a mutable default argument.  A lookup that leaves state behind answers a later
    lookup from that state (a stale cache), which is exactly what these properties exclude for all sequences of calls."""
    rid = run.rule(rule_id, "who-may-write: %s keep no state between calls (no attribute / attribute-item / global store, no call of a mutating method on an "
                            "attribute or on a default argument)" % what, floor=floor if floor is not None else len(quals))
    MUT = {"append", "extend", "insert", "pop", "remove", "clear", "update", "setdefault", "add", "discard", "sort", "reverse", "popitem"}
    for q in quals:
        fn = repo.maybe(rel, q)
        if fn is None:
            raise AnalysisError("anchor missing: %s::%s" % (rel, q))
        bad = []
        defaults = set()
        pos = fn.args.posonlyargs + fn.args.args
        for a, d in zip(pos[len(pos) - len(fn.args.defaults):], fn.args.defaults):
            if isinstance(d, (ast.List, ast.Dict, ast.Set)) or (isinstance(d, ast.Call) and dotted(d.func) in ("dict", "list", "set")):
                defaults.add(a.arg)
        for st in ast.walk(fn):
            tg = st.targets if isinstance(st, ast.Assign) else ([st.target] if isinstance(st, (ast.AugAssign, ast.AnnAssign)) else [])
            for t in tg:
                for x in ast.walk(t):
                    if isinstance(x, ast.Attribute) and isinstance(x.ctx, ast.Store) and isinstance(x.value, ast.Name) and x.value.id in ("self", "cls") and x.attr not in allowed:
                        bad.append((st, "self.%s" % x.attr))
                    if isinstance(x, ast.Subscript) and isinstance(x.ctx, ast.Store) and is_self_attr(x.value) and x.value.attr not in allowed:
                        bad.append((st, "self.%s[...]" % x.value.attr))
                    if isinstance(x, ast.Subscript) and isinstance(x.ctx, ast.Store) and isinstance(x.value, ast.Name) and x.value.id in defaults:
                        bad.append((st, "default argument %s[...]" % x.value.id))
            if isinstance(st, (ast.Global, ast.Nonlocal)) and st in list(walk_no_nested(fn)):
                bad.append((st, "%s %s" % (type(st).__name__.lower(), ", ".join(st.names))))
            if isinstance(st, ast.Call) and isinstance(st.func, ast.Attribute) and st.func.attr in MUT:
                recv = st.func.value
                if is_self_attr(recv) and recv.attr not in allowed:
                    bad.append((st, "self.%s.%s(...)" % (recv.attr, st.func.attr)))
                if isinstance(recv, ast.Name) and recv.id in defaults:
                    bad.append((st, "default argument %s.%s(...)" % (recv.id, st.func.attr)))
        run.judged(rid, "%s stores %s" % (q, sorted({b for _, b in bad}) or "nothing"), ok=not bad)
        for st, b in bad:
            run.report(rule_id, rel, st, "%s writes `%s`: state left behind by one call is visible to the next (a lookup answered from a value cached by an earlier lookup)" % (q, b))


# ------------------------------------------------------------------------------------------------
def reachable_under(node, root, canon, fix, max_free=14):
    """Can ``node`` execute (path condition inside ``root``, guard clauses and short circuits included) under a hypothesis that fixes some atoms?
    ``fix(leaf)`` returns True/False for the atoms the hypothesis decides and None for the others, which stay free.  Returns (reachable, #fixed)."""
    import itertools
    from ..sym import path_condition, tree_atoms, eval_bool, BoolTracker
    bt = BoolTracker(canon=canon)
    pc, _ = path_condition(node, root, tracker=bt, guards=True)
    atoms = tree_atoms(pc)
    fixed = {}
    for a in atoms:
        v = fix(bt.leaves.get(a))
        if v is not None:
            fixed[a] = v
    free = [a for a in atoms if a not in fixed]
    if len(free) > max_free:
        return True, len(fixed)
    for vals in itertools.product((False, True), repeat=len(free)):
        asg = dict(fixed)
        asg.update(zip(free, vals))
        if eval_bool(pc, asg):
            return True, len(fixed)
    return False, len(fixed)


def index_decrement(repo, run, rule_id, rel, quals):
    """An index that is decremented must be known to be positive where that happens: `idx - 1` evaluated at idx == 0 is -1, which Python (and numpy)
    accept as 'the last element' -- for a piece lookup that is the interpolant of the other END of the run, extrapolated across it."""
    import operator
    from ..front import const_value
    from ..sym import Canon, inline_locals
    rid = run.rule(rule_id, "an index is decremented only where it is known to be positive: every `<index> - k` is unreachable under <index> < k (path condition with "
                            "guards), so a piece lookup never wraps around to the other end of the list", floor=len(quals))
    ops = {"Eq": operator.eq, "NotEq": operator.ne, "Lt": operator.lt, "LtE": operator.le, "Gt": operator.gt, "GtE": operator.ge}
    for q in quals:
        fn = repo.get(rel, q)
        run.analysed_fn(rel, fn)
        canon = Canon(env=inline_locals(fn))
        sites = []
        for n in walk_no_nested(fn):
            if isinstance(n, ast.BinOp) and isinstance(n.op, ast.Sub) and isinstance(n.left, ast.Name) and isinstance(n.right, ast.Constant) and \
                    isinstance(n.right.value, int) and not isinstance(n.right.value, bool) and n.right.value > 0:
                sites.append((n, n.left.id, n.right.value))
            if isinstance(n, ast.AugAssign) and isinstance(n.op, ast.Sub) and isinstance(n.target, ast.Name) and isinstance(n.value, ast.Constant) and \
                    isinstance(n.value.value, int) and n.value.value > 0:
                sites.append((n, n.target.id, n.value.value))
        for n, name, k in sites:
            worst = None
            for v0 in range(k):             # hypotheses index == 0 .. k-1
                def fix(leaf, v0=v0):
                    if isinstance(leaf, tuple):
                        l, op, r = leaf
                        opn = type(op).__name__
                        if opn not in ops:
                            return None
                        try:
                            if isinstance(l, ast.Name) and l.id == name:
                                return ops[opn](v0, const_value(r))
                            if isinstance(r, ast.Name) and r.id == name:
                                return ops[opn](const_value(l), v0)
                        except (ValueError, TypeError):
                            return None
                        return None
                    if isinstance(leaf, ast.Name) and leaf.id == name:
                        return bool(v0)
                    return None
                reach, nfixed = reachable_under(n, fn, canon, fix)
                if reach:
                    worst = v0
                    break
            run.judged(rid, "%s: `%s` unreachable while %s < %d" % (q, src(n), name, k), ok=worst is None)
            if worst is not None:
                run.report(rule_id, rel, n, "`%s` can execute while %s == %d: the result %d is taken by list / array indexing as 'counted from the END', so a query beyond the "
                                            "first piece (e.g. past the far end of a backward run) is answered by the piece at the other end of the run, extrapolated across it" % (
                                                src(n), name, worst, worst - k))
        if not sites:
            run.judged(rid, "%s: no index decrement" % q, nontrivial=False)


# ------------------------------------------------------------------------------------------------
VIEW_CALLS = {"reshape", "ravel", "asarray", "asanyarray", "atleast_1d", "atleast_2d", "squeeze", "transpose", "swapaxes", "view", "expand_dims", "moveaxis", "broadcast_to"}
VIEW_ATTRS = {"T", "real", "flat"}
INPLACE_METHODS = {"fill", "sort", "resize", "itemset", "put", "partition", "setfield", "byteswap", "append", "extend", "insert", "pop", "remove", "clear", "update",
                   "setdefault", "popitem", "reverse", "add_", "mul_", "sub_", "div_", "copy_", "zero_", "fill_"}


def may_alias_params(fn, params=None):
    """names of ``fn`` that may denote (a view of) one of its parameters: the parameters themselves, and locals bound -- by any of their definitions, flow-
    insensitively -- to a view-producing expression over such a name (plain copy of the name, reshape / ravel / asarray / atleast_nd / squeeze / transpose,
    `.T`, a basic slice, tuple-unpacking of an aliasing sequence, loop variables over an aliasing array of arrays are NOT views of elements for 1-D data and
    are not followed)."""
    pos = fn.args.posonlyargs + fn.args.args + fn.args.kwonlyargs
    alias = {a.arg: a.arg for a in pos if a.arg not in ("self", "cls")} if params is None else {p: p for p in params}

    def root(e):
        """parameter an expression may be a view of, or None"""
        if isinstance(e, ast.Name):
            return alias.get(e.id)
        if isinstance(e, ast.Attribute) and e.attr in VIEW_ATTRS:
            return root(e.value)
        if isinstance(e, ast.Subscript):
            sl = e.slice
            parts = sl.elts if isinstance(sl, ast.Tuple) else [sl]
            if all(isinstance(p_, ast.Slice) or (isinstance(p_, ast.Constant) and (p_.value is Ellipsis or p_.value is None)) for p_ in parts):
                return root(e.value)
            return None
        if isinstance(e, ast.Call):
            f = e.func
            nm = f.attr if isinstance(f, ast.Attribute) else (f.id if isinstance(f, ast.Name) else None)
            if nm in VIEW_CALLS:
                if isinstance(f, ast.Attribute) and root(f.value) is not None:
                    return root(f.value)            # a.reshape(...)
                if e.args:
                    return root(e.args[0])
            return None
        if isinstance(e, ast.IfExp):
            return root(e.body) or root(e.orelse)
        return None
    changed = True
    while changed:
        changed = False
        for st in walk_no_nested(fn):
            if isinstance(st, ast.Assign):
                for t in st.targets:
                    if isinstance(t, ast.Name):
                        r = root(st.value)
                        if r is not None and alias.get(t.id) is None:
                            alias[t.id] = r
                            changed = True
                    elif isinstance(t, (ast.Tuple, ast.List)) and isinstance(st.value, (ast.Tuple, ast.List)) and len(t.elts) == len(st.value.elts):
                        for a, b in zip(t.elts, st.value.elts):
                            if isinstance(a, ast.Name):
                                r = root(b)
                                if r is not None and alias.get(a.id) is None:
                                    alias[a.id] = r
                                    changed = True
    return alias


def args_unmodified(repo, run, rule_id, rel, quals, what, exempt=None, floor=None):
    """who-may-write, for arguments: the listed functions store nothing INTO the arrays they are given -- no item / slice store, augmented assignment, `out=`
    or in-place method on a parameter or on a local that may be a view of one.  The state handed down from OdeSystem is a row VIEW of the stored trajectory
    (`self.__y[counter]`), and on the first step a view of the copy of the caller's y0: a callee that writes into it -- even temporarily, restoring the
    value afterwards -- rewrites recorded history whenever the user's code raises in between, and corrupts what reset() restores."""
    exempt = exempt or {}
    rid = run.rule(rule_id, "who-may-write (arguments): %s store nothing into the arrays they are given (no item/slice store, augmented assignment, out= or "
                            "in-place method on a parameter or on a reshape/ravel/asarray/slice view of one)" % what, floor=floor if floor is not None else len(quals))
    for q in quals:
        fn = repo.maybe(rel, q)
        if fn is None:
            raise AnalysisError("anchor missing: %s::%s" % (rel, q))
        run.analysed_fn(rel, fn)
        alias = may_alias_params(fn)
        ex = exempt.get(q, {})
        bad = []
        for st in walk_no_nested(fn):
            if isinstance(st, (ast.Assign, ast.AugAssign, ast.AnnAssign)):
                tg = st.targets if isinstance(st, ast.Assign) else [st.target]
                flat = []
                for t in tg:
                    flat.extend(t.elts if isinstance(t, (ast.Tuple, ast.List)) else [t])
                for t in flat:
                    if isinstance(t, ast.Subscript):
                        b = t.value
                        while isinstance(b, ast.Subscript):
                            b = b.value
                        if isinstance(b, ast.Name) and alias.get(b.id) is not None and alias[b.id] not in ex:
                            bad.append((st, "`%s[...]` is stored into; `%s` may be (a view of) the argument `%s`" % (b.id, b.id, alias[b.id])))
                    if isinstance(st, ast.AugAssign) and isinstance(t, ast.Name) and alias.get(t.id) is not None and alias[t.id] not in ex:
                        bad.append((st, "`%s` is updated in place (`%s`); it may be (a view of) the argument `%s`" % (t.id, src(st)[:40], alias[t.id])))
            if isinstance(st, ast.Call):
                for k in st.keywords:
                    if k.arg == "out" and isinstance(k.value, ast.Name) and alias.get(k.value.id) is not None and alias[k.value.id] not in ex:
                        bad.append((st, "`out=%s` writes into (a view of) the argument `%s`" % (k.value.id, alias[k.value.id])))
                if isinstance(st.func, ast.Attribute) and st.func.attr in INPLACE_METHODS and isinstance(st.func.value, ast.Name) and \
                        alias.get(st.func.value.id) is not None and alias[st.func.value.id] not in ex:
                    bad.append((st, "`%s.%s(...)` changes (a view of) the argument `%s` in place" % (st.func.value.id, st.func.attr, alias[st.func.value.id])))
        run.judged(rid, "%s: %s" % (q, "arguments only read" if not bad else [b[:60] for _, b in bad]), ok=not bad)
        for st, b in bad:
            run.report(rule_id, rel, st, "%s: %s: the caller's array is modified (the state handed down by OdeSystem is a view of the stored trajectory; if user code raises "
                                         "before the value is restored, the recorded state and what reset() restores are corrupted)" % (q, b))


# ------------------------------------------------------------------------------------------------
MEMO_DECORATORS = {"lru_cache", "cache", "cached_property"}


def memo_discipline(repo, run, rule_id, rels, what):
    """Results kept between calls must be keyed by EVERYTHING they depend on.  Two decidable forms:
    (a) a function decorated with lru_cache / cache is keyed by the hash / identity of its arguments: it must not read ATTRIBUTES of its parameters (or of the
        elements of a parameter it iterates) -- the objects handed in (event functions carrying `is_terminal`, `direction`; user callables) are mutable, and a
        changed attribute does not change the key;
    (b) a function that looks a result up in / stores it into a module-level dict: every parameter the function uses must flow into the key expression."""
    rid = run.rule(rule_id, "memoisation discipline in %s: (a) an lru_cache'd function reads no attribute of its parameters or of their elements; (b) a module-level dict "
                            "used as a result registry is keyed by every parameter the result depends on" % what, floor=1)
    n = 0
    for rel in rels:
        mod = repo.module(rel)
        module_dicts = {t.id for st in mod.tree.body if isinstance(st, ast.Assign) for t in st.targets if isinstance(t, ast.Name) and (
            isinstance(st.value, ast.Dict) or (isinstance(st.value, ast.Call) and dotted(st.value.func) in ("dict", "collections.OrderedDict", "OrderedDict", "collections.defaultdict", "defaultdict", "weakref.WeakValueDictionary")))}
        for fn in [x for x in ast.walk(mod.tree) if isinstance(x, (ast.FunctionDef, ast.AsyncFunctionDef))]:
            params = [a.arg for a in fn.args.posonlyargs + fn.args.args + fn.args.kwonlyargs if a.arg not in ("self", "cls")]
            decos = {(dotted(d.func) if isinstance(d, ast.Call) else dotted(d) or "").split(".")[-1] for d in fn.decorator_list}
            if decos & MEMO_DECORATORS:
                n += 1
                elems = set(params)
                for x in ast.walk(fn):       # loop variables over a parameter are elements of it
                    if isinstance(x, (ast.For, ast.comprehension)):
                        itn = {y.id for y in ast.walk(x.iter) if isinstance(y, ast.Name)}
                        if itn & elems:
                            elems |= {y.id for y in ast.walk(x.target) if isinstance(y, ast.Name)}
                bad = []
                for x in ast.walk(fn):
                    if isinstance(x, ast.Attribute) and isinstance(x.value, ast.Name) and x.value.id in elems and isinstance(x.ctx, ast.Load) and \
                            x.attr not in ("dtype", "shape", "ndim", "__name__", "__qualname__", "__class__"):
                        if not (isinstance(x._parent, ast.Call) and x._parent.func is x):        # method calls on immutable keys (str.format ...) are not attribute state
                            bad.append(x)
                    if isinstance(x, ast.Call) and dotted(x.func) in ("getattr", "hasattr") and x.args and isinstance(x.args[0], ast.Name) and x.args[0].id in elems:
                        bad.append(x)
                run.judged(rid, "%s::%s is memoised on (%s): attribute reads of its arguments: %d" % (rel.split("/")[-1], fn.name, ", ".join(params), len(bad)), ok=not bad)
                for x in bad[:3]:
                    run.report(rule_id, rel, x, "`%s` is memoised (%s) on the identity / hash of its arguments but reads `%s`, an attribute of an argument (or of an element of one): "
                               "when that attribute is changed on the same object between calls -- an event function flagged terminal after a survey run -- the cached result of "
                               "the old value is returned" % (fn.name, "/".join(sorted(decos & MEMO_DECORATORS)), src(x)[:50]))
            # (b) module-level registries, and mutable default arguments used the same way (`def f(x, _memo={})`)
            pos_ = fn.args.posonlyargs + fn.args.args
            default_dicts = {a.arg for a, d in list(zip(pos_[len(pos_) - len(fn.args.defaults):], fn.args.defaults)) + [
                (a, d) for a, d in zip(fn.args.kwonlyargs, fn.args.kw_defaults) if d is not None]
                if isinstance(d, ast.Dict) or (isinstance(d, ast.Call) and dotted(d.func) in ("dict", "collections.OrderedDict", "OrderedDict"))}
            params = [p_ for p_ in params if p_ not in default_dicts]
            module_dicts = set(module_dicts) | default_dicts
            used_dicts = {}
            for x in ast.walk(fn):
                if isinstance(x, ast.Subscript) and isinstance(x.value, ast.Name) and x.value.id in module_dicts:
                    used_dicts.setdefault(x.value.id, []).append(x.slice)
                if isinstance(x, ast.Call) and isinstance(x.func, ast.Attribute) and x.func.attr in ("get", "setdefault") and isinstance(x.func.value, ast.Name) and \
                        x.func.value.id in module_dicts and x.args:
                    used_dicts.setdefault(x.func.value.id, []).append(x.args[0])
            for dname, keys in used_dicts.items():
                stores = [x for x in ast.walk(fn) if isinstance(x, ast.Subscript) and isinstance(x.ctx, ast.Store) and isinstance(x.value, ast.Name) and x.value.id == dname]
                if not stores or not params:
                    continue            # a read-only table is not a result cache
                n += 1
                from ..sym import inline_locals
                env = inline_locals(fn)

                def deps(e, depth=0):
                    out = set()
                    for y in ast.walk(e):
                        if isinstance(y, ast.Name):
                            if y.id in params:
                                out.add(y.id)
                            elif y.id in env and depth < 6:
                                out |= deps(env[y.id], depth + 1)
                    return out
                key_deps = set()
                for k in keys:
                    key_deps |= deps(k)
                used = {y.id for y in ast.walk(fn) if isinstance(y, ast.Name) and y.id in params and isinstance(y.ctx, ast.Load)}
                missing = sorted(used - key_deps)
                run.judged(rid, "%s::%s keeps results in the module-level dict `%s` keyed by (%s); parameters used: %s" % (
                    rel.split("/")[-1], fn.name, dname, ", ".join(sorted(key_deps)) or "-", sorted(used)), ok=not missing)
                if missing:
                    run.report(rule_id, rel, stores[0], "`%s` returns results kept in the module-level dict `%s`, whose key depends on (%s) only, although the result also depends on the "
                               "parameter(s) %s: a second request that differs only in %s is answered with the object built for the first" % (
                                   fn.name, dname, ", ".join(sorted(key_deps)) or "nothing", missing, missing[0]))
    if n == 0:
        run.judged(rid, "no memoised function / result registry in scope", nontrivial=False)


# ------------------------------------------------------------------------------------------------
def instance_tables_are_class_tables(repo, run, rule_id):
    """The order / symplecticity / stability verdicts are computed from the CLASS-level coefficient tables; step() reads `self.tableau_*`.  The two are the same table only if
    every store to an instance's `tableau_intermediate` / `tableau_final` is an elementwise conversion (dtype, device) of the class attribute of the same name: a slice,
    a row selection or a table taken from elsewhere makes the integrator step with other coefficients than the ones that were verified."""
    rid = run.rule(rule_id, "every store to self.tableau_intermediate / self.tableau_final in the integrators package is an elementwise conversion (asarray / astype / copy / to) of "
                            "the class attribute of the same name: the tables step() reads are the tables that were verified", floor=2)
    ELEM = {"asarray", "array", "astype", "copy", "clone", "to", "to_device", "ascontiguousarray"}
    n = 0
    for rel, mod in repo.modules.items():
        if not rel.startswith("desolver/integrators/"):
            continue
        for st in ast.walk(mod.tree):
            if not isinstance(st, (ast.Assign, ast.AugAssign)):
                continue
            for t in (st.targets if isinstance(st, ast.Assign) else [st.target]):
                if isinstance(t, ast.Attribute) and t.attr in ("tableau_intermediate", "tableau_final") and isinstance(t.value, ast.Name) and t.value.id == "self":
                    n += 1
                    v = st.value if isinstance(st, ast.Assign) else None
                    while isinstance(v, ast.Call) and ((fname(v) or "").split(".")[-1] in ELEM or (isinstance(v.func, ast.Attribute) and v.func.attr in ELEM)):
                        v = v.args[0] if v.args and (fname(v) or "").split(".")[-1] in ELEM and not (isinstance(v.func, ast.Attribute) and isinstance(v.func.value, ast.Attribute) and v.func.value.attr == t.attr) else v.func.value
                    ok = isinstance(v, ast.Attribute) and v.attr == t.attr and src(v.value) in ("self.__class__", "type(self)", "self", "cls")
                    run.judged(rid, "%s: `%s`" % (rel.split("/")[-1], src(st)[:110]), ok=ok)
                    if not ok:
                        run.report(rule_id, rel, st, "an integrator instance's `%s` is set to `%s`, which is not (a conversion of) the class's table: step() then propagates / estimates with other "
                                   "coefficients than the ones verified for the class (e.g. the embedded row instead of the propagated one once adaptivity is switched off)" % (
                                       t.attr, src(st.value)[:60] if isinstance(st, ast.Assign) else src(st)[:60]))
    if n == 0:
        raise AnalysisError("no store to self.tableau_* found in the integrators package")


def returns_pass_through(repo, run, rule_id, rel, qual, anchors, what, consequence):
    """must-pass-through, syntax-directed: every `return` of the function is preceded, on the way from the entry, by each anchor statement.  An anchor 'precedes' a
    return when it is (or is contained, outside any If / For / While of its own, in) a statement that comes before the return in the same block or in the block of
    one of the return's ancestors - a short-cut return placed before an anchor (a special case for 'nothing to do' steps) hands back whatever the instance held."""
    rid = run.rule(rule_id, "%s: every return passes through %s" % (what, ", ".join(a[0] for a in anchors)), floor=len(anchors))
    fn = repo.get(rel, qual)
    run.analysed_fn(rel, fn)
    rets = [st for st in walk_no_nested(fn) if isinstance(st, ast.Return)]
    if not rets:
        raise AnalysisError("%s: no return statement" % qual)

    def contains_unconditionally(st, pred):
        if pred(st):
            return True
        kids = []
        if isinstance(st, ast.Try):
            kids = st.body            # the body is entered on every path; what a handler then does is judged by the flow rules of the property
        elif isinstance(st, ast.With):
            kids = st.body
        return any(contains_unconditionally(k, pred) for k in kids)

    for r in rets:
        for desc, pred in anchors:
            node, found = r, False
            while node is not fn and not found:
                par = node._parent
                for fld in ("body", "orelse", "finalbody"):
                    blk = getattr(par, fld, None)
                    if isinstance(blk, list) and node in blk:
                        found = any(contains_unconditionally(s, pred) for s in blk[:blk.index(node)])
                        # a return inside a try's handler / orelse has passed through the try body's first statements only if they completed: accept the body
                        break
                else:
                    if isinstance(par, ast.ExceptHandler):
                        tr = par._parent
                        found = any(contains_unconditionally(s, pred) for s in tr.body)
                node = par
            run.judged(rid, "`%s` (line %d) is preceded by %s" % (src(r)[:50], r.lineno, desc), ok=found)
            if not found:
                run.report(rule_id, rel, r, "%s returns here without having passed through %s: %s" % (qual, desc, consequence), text="return bypasses %s" % desc)
