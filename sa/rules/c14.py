"""C14 — bracketing root finders: unit discipline of the function values (DIM), the bisection safeguard as a
tautology of the extracted boolean function, agreement of the scalar and the vectorised solver, iteration caps."""
import ast
import itertools

from ..front import AnalysisError, dotted, fname, is_self_attr, src, walk_no_nested, const_value
from ..kind import KindEngine, Seeds
from ..sym import Canon, BoolTracker, eval_bool, tree_atoms, inline_locals

LEVEL = "other"
OPT = "desolver/utilities/optimizer.py"

BRENT_NAMES = {"a": "X", "b": "X", "c": "X", "d": "X", "s": "X", "lower_bound": "X", "upper_bound": "X",
               "fa": "G", "fb": "G", "fc": "G", "fs": "G", "tol": "X"}


def _arith_env(fn):
    """single-assignment locals that abbreviate an arithmetic expression (not a function evaluation)"""
    return {k: v for k, v in inline_locals(fn).items() if isinstance(v, (ast.BinOp, ast.UnaryOp))}


def brent_seeds():
    return Seeds(names=BRENT_NAMES, calls={"f": "G", "_f": "G", "D.epsilon": "M", "D.tol_epsilon": "M"})


def dim_rule(repo, run, rid, funcs, floor):
    run.rule(rid, "DIM discipline: a value of the searched function (kind G, its own unit) is never ordered against an abscissa tolerance or a "
                  "pure number other than zero; the value returned as 'success' is invariant under rescaling of the function", floor=floor)
    for q in funcs:
        fn = repo.get(OPT, q)
        run.analysed_fn(OPT, fn)
        ke = KindEngine(fn, brent_seeds(), disciplines=("DIM",))
        vs = ke.check()
        bad = {id(v.node) for v in vs}
        for node, ktxt in ke.judged:
            if id(node) not in bad and isinstance(node, ast.Compare):
                run.judged(rid, "%s: %s  [%s]" % (q, src(node)[:90], ktxt))
        for v in vs:
            run.judged(rid, "%s: %s" % (q, src(v.node)[:90]), ok=False)
            run.report(rid, OPT, v.node, "DIM discipline: %s" % v.why)


def run(repo, run, tier):
    from .common import readonly
    readonly(repo, run, "C14.9", OPT, ["brentsroot", "brentsrootvec"], "the Brent solvers")
    run.assumptions += ["NOT decided: that the returned point is within the requested tolerance of a sign change (convergence of the iteration on a given function)",
                        "kinds: a,b,c,d,s,tol are abscissae (X); fa,fb,fc,fs and f(.) are function values (G)"]
    dim_rule(repo, run, "C14.1", ["brentsroot", "brentsrootvec"], floor=12)
    safeguard(repo, run)
    caps(repo, run)
    endpoints(repo, run)
    bracket_invariant(repo, run)
    product_sign_tests(repo, run)
    tolerance_floor(repo, run)
    stop_width(repo, run)
    no_aliased_iteration_arrays(repo, run)



def _scalar_tree(fn):
    loop = [st for st in fn.body if isinstance(st, ast.While)]
    if len(loop) != 1:
        raise AnalysisError("brentsroot: main loop not found")
    # the bisection decision is the condition under which `s = (a + b) / 2` executes in the loop body (whatever local names carry it)
    from ..sym import path_condition
    cb = Canon(env=_arith_env(fn))
    want = cb.ptext(ast.parse("(a + b) / 2", mode="eval").body)
    bis = [st for st in ast.walk(loop[0]) if isinstance(st, ast.Assign) and src(st.targets[0]) == "s" and cb.ptext(st.value) == want]
    if len(bis) != 1:
        raise AnalysisError("brentsroot: bisection assignment `s = (a + b) / 2` not found")
    top = bis[0]
    while top._parent is not loop[0]:
        top = top._parent
    bt = BoolTracker(canon=cb)
    bt.run(loop[0].body[:loop[0].body.index(top)])
    tree, _ = path_condition(bis[0], loop[0], tracker=bt)
    bt.decision_stmt = top
    return bt, tree, loop[0]


def _vector_tree(fn):
    loop = [st for st in fn.body if isinstance(st, ast.While)]
    if len(loop) != 1:
        raise AnalysisError("brentsrootvec: main loop not found")
    body = loop[0].body
    # the bisection mask is the value of `mask` at the statement  s[mask] = (a[mask] + b[mask]) / 2
    upto = None
    for i, st in enumerate(body):
        if isinstance(st, ast.Assign) and isinstance(st.targets[0], ast.Subscript) and src(st.targets[0].value) == "s" and "/ 2" in src(st.value) and "a[" in src(st.value):
            upto = i
    if upto is None:
        raise AnalysisError("brentsrootvec: bisection assignment `s[mask] = (a[mask] + b[mask]) / 2` not found")
    bt = BoolTracker(canon=Canon(env=_arith_env(fn)))
    bt.run(body[:upto])
    maskname = src(body[upto].targets[0].slice)
    if maskname not in bt.trees:
        raise AnalysisError("brentsrootvec: the bisection mask `%s` is not a tracked boolean" % maskname)
    return bt, bt.trees[maskname], loop[0], body[upto]


def _strip_versions(tree):
    if tree[0] == "atom":
        return ("atom", tree[1].split("@")[0])
    if tree[0] == "const":
        return tree
    return (tree[0], [_strip_versions(t) for t in tree[1]])


def safeguard(repo, run):
    rid = run.rule("C14.2", "safeguard: whenever the interpolated point is outside ((3a+b)/4, b) the step is a bisection (cond1 => bisect is a tautology of the "
                            "extracted boolean function), in both solvers; the scalar and the vector solver compute the same boolean function of the "
                            "same arithmetic atoms", floor=3)
    sfn = repo.get(OPT, "brentsroot")
    vfn = repo.get(OPT, "brentsrootvec")
    bt_s, tree_s, loop_s = _scalar_tree(sfn)
    bt_v, tree_v, loop_v, bis_v = _vector_tree(vfn)
    tree_s, tree_v = _strip_versions(tree_s), _strip_versions(tree_v)
    at_s, at_v = tree_atoms(tree_s), tree_atoms(tree_v)
    # the 'inside' predicate: s strictly between (3a+b)/4 and b
    inside = [a for a in at_s if " Lt " in a and ("s" in a.split(" "))]

    def outside(asg, atoms):
        # cond1 = not( (q<s and s<b) or (b<s and s<q) )
        q_lt_s = [a for a in atoms if a.endswith(" Lt s") and a != "b Lt s"]
        s_lt_q = [a for a in atoms if a.startswith("s Lt ") and a != "s Lt b"]
        if len(q_lt_s) != 1 or len(s_lt_q) != 1 or "s Lt b" not in atoms or "b Lt s" not in atoms:
            return None
        ins = (asg[q_lt_s[0]] and asg["s Lt b"]) or (asg["b Lt s"] and asg[s_lt_q[0]])
        return not ins
    for label, tree, atoms, node in (("brentsroot", tree_s, at_s, loop_s), ("brentsrootvec", tree_v, at_v, bis_v)):
        ok = True
        why = ""
        if len(atoms) > 14:
            raise AnalysisError("%s: bisection predicate has too many atoms" % label)
        for vals in itertools.product((False, True), repeat=len(atoms)):
            asg = dict(zip(atoms, vals))
            out = outside(asg, atoms)
            if out is None:
                ok = False
                why = "the interval test ((3a+b)/4 < s < b or b < s < (3a+b)/4) is not part of the bisection predicate"
                break
            if out and not eval_bool(tree, asg):
                ok = False
                why = "an interpolated point outside ((3a+b)/4, b) can be accepted without bisecting"
                break
        run.judged(rid, "%s: outside-interval => bisect over %d atoms" % (label, len(atoms)), ok=ok)
        if not ok:
            run.report("C14.2", OPT, node, "%s: %s: the iterate can leave the bracket, so the returned point need not lie inside it" % (label, why),
                       text="%s safeguard" % label)
    # agreement
    same_atoms = set(at_s) == set(at_v)
    agree = same_atoms
    diff_row = None
    if same_atoms:
        for vals in itertools.product((False, True), repeat=len(at_s)):
            asg = dict(zip(at_s, vals))
            if eval_bool(tree_s, asg) != eval_bool(tree_v, asg):
                agree = False
                diff_row = {k: v for k, v in asg.items()}
                break
    run.judged(rid, "scalar and vector bisection predicates agree (atoms %d / %d)" % (len(at_s), len(at_v)), ok=agree)
    if not agree:
        run.report("C14.2", OPT, bis_v, "the vectorised solver's bisection predicate differs from the scalar one (%s): the two solvers take different steps on the same function" % (
            "different arithmetic tests: only scalar %s, only vector %s" % (sorted(set(at_s) - set(at_v)), sorted(set(at_v) - set(at_s))) if not same_atoms
            else "e.g. at %s" % {k: v for k, v in list(diff_row.items())[:4]}), text="scalar/vector bisection predicate agreement")
    # mflag update: scalar mflag = bisect_now ; vector mflag[mask] = True, mflag[~mask] = False
    # the flag's value when the decision is taken, as a boolean function, must be that decision (it is tested next iteration as 'last step was a bisection')
    mtree = bt_s.trees.get("mflag")
    oks = mtree is not None
    if oks:
        mt = _strip_versions(mtree)
        ats = sorted(set(tree_atoms(mt)) | set(at_s))
        oks = len(ats) <= 14 and all(eval_bool(mt, dict(zip(ats, vals))) == eval_bool(tree_s, dict(zip(ats, vals))) for vals in itertools.product((False, True), repeat=len(ats)))
    run.judged(rid, "scalar mflag follows the bisection decision", ok=oks)
    if not oks:
        run.report("C14.2", OPT, loop_s, "brentsroot: mflag is not set to the bisection decision of the iteration", text="scalar mflag update")
    # convergence atoms
    def conv_atoms(loop):
        f_ = loop
        while not isinstance(f_, ast.FunctionDef):
            f_ = f_._parent
        bt = BoolTracker(canon=Canon(env=_arith_env(f_)))
        # only the statements that build the convergence flag: the last plain assignments to `conv` and the booleans they use
        bt.run(loop.body)
        # the iteration cap may be folded into conv (`conv & (numiter <= 64)`): take the value before that conjunction too
        hist = [t for (_, t) in bt.history.get("conv", []) if t is not None]
        return (hist[0] if hist else None), bt
    cs, _ = conv_atoms(loop_s)
    cv, _ = conv_atoms(loop_v)
    if cs is not None and cv is not None:
        a_s = {a.split("@")[0] for a in tree_atoms(cs)}
        a_v = {a.split("@")[0] for a in tree_atoms(cv)}
        common = {"0 Eq fb", "0 Eq fs"} | {a for a in a_s if "abs" in a}
        okc = common <= a_s and common <= a_v
        # the two stopping tests are the SAME boolean function of the same arithmetic tests (the vector solver tracks 'not yet converged', so either polarity is
        # accepted, consistently): an extra disjunct in one of them (stop on a short last step, on a small residual, ...) ends that solver with a bracket wider than tol
        if okc:
            okc = a_s == a_v
            if okc and len(a_s) <= 12:
                cs0, cv0 = _strip_versions(cs), _strip_versions(cv)
                ats = sorted(set(tree_atoms(cs0)) | set(tree_atoms(cv0)))
                rows = [(eval_bool(cs0, dict(zip(ats, vals))), eval_bool(cv0, dict(zip(ats, vals)))) for vals in itertools.product((False, True), repeat=len(ats))]
                okc = all(x == y for x, y in rows) or all(x != y for x, y in rows)
        run.judged(rid, "convergence atoms scalar %s / vector %s" % (sorted(a_s), sorted(a_v)), ok=okc)
        if not okc:
            run.report("C14.2", OPT, loop_v, "the two solvers do not stop on the same convergence tests: scalar %s, vector %s" % (sorted(a_s), sorted(a_v)),
                       text="convergence tests agreement")


def caps(repo, run):
    rid = run.rule("C14.4", "both iteration loops carry a counter that is incremented every pass and compared with a constant cap", floor=2)
    for q in ("brentsroot", "brentsrootvec"):
        fn = repo.get(OPT, q)
        loop = [st for st in fn.body if isinstance(st, ast.While)][0]
        from ..sym import inline_locals as _il
        lenv = _il(fn)
        incs = set()
        for st in ast.walk(loop):
            if isinstance(st, ast.AugAssign) and isinstance(st.op, ast.Add) and isinstance(st.target, ast.Name):
                incs.add(st.target.id)
            if isinstance(st, ast.Assign) and isinstance(st.value, ast.BinOp) and isinstance(st.value.op, ast.Add):
                t = st.targets[0]
                base = t.value if isinstance(t, ast.Subscript) else t
                if isinstance(base, ast.Name) and base.id in src(st.value.left):
                    incs.add(base.id)
        capped = False
        for cmp_ in [n for n in ast.walk(loop) if isinstance(n, ast.Compare)]:
            names = {x.id for x in ast.walk(cmp_) if isinstance(x, ast.Name)}
            consts = []
            for side in [cmp_.left] + cmp_.comparators:
                # a cap named once before the loop (`numiter_cap = 64`) is the same constant
                if isinstance(side, ast.Name) and side.id in lenv and side.id not in incs:
                    side = lenv[side.id]
                try:
                    consts.append(const_value(side))
                except ValueError:
                    pass
            if names & incs and consts and max(consts) <= 10000:
                # the comparison must end the loop: inside `if ...: break` or feed the loop condition variable
                capped = True
        run.judged(rid, "%s: counters %s, capped=%s" % (q, sorted(incs), capped), ok=capped)
        if not capped:
            run.report("C14.4", OPT, loop, "%s: the iteration is not bounded by a counter compared with a constant cap" % q, text="%s iteration cap" % q)


# ------------------------------------------------------------------------------------------------
def _sign_product_eval(atom, s):
    """evaluate a comparison atom about fa*fb under sign(fa*fb) = s in {-1, 0, 1}; None if the atom is about something else"""
    base = atom.split("@")[0]
    parts = base.split(" ")
    if len(parts) != 3:
        return None
    l, op, r = parts
    import operator
    f = {"Lt": operator.lt, "LtE": operator.le, "Eq": operator.eq, "NotEq": operator.ne}.get(op)

    def val(x):
        if x in ("fa*fb", "fb*fa", "sign(fa)*sign(fb)", "sign(fb)*sign(fa)"):
            return s        # the sign of the product of the values and the product of their signs are the same element of {-1, 0, 1} (exact arithmetic)
        try:
            return float(x)
        except ValueError:
            return None
    a, b = val(l), val(r)
    if f is None or a is None or b is None:
        return None
    return f(a, b)


def endpoints(repo, run):
    import itertools
    rid = run.rule("C14.5", "bracket admission over the sign of f(a)*f(b) in {-, 0, +}: the scalar solver gives up (no success) exactly when the product is strictly "
                            "positive (a root at an end point is kept); the value it returns as success is `product <= 0`; the vector solver's success covers an "
                            "exact zero at the end point", floor=3)
    fn = repo.get(OPT, "brentsroot")
    # early rejection: the first `if` before the main loop whose body returns (..., False)
    rej = None
    pre = []
    for st in fn.body:
        if isinstance(st, ast.While):
            break
        pre.append(st)
        if isinstance(st, ast.If) and any(isinstance(x, ast.Return) and isinstance(x.value, ast.Tuple) and isinstance(x.value.elts[-1], ast.Constant) and x.value.elts[-1].value is False
                                         for x in st.body) and ("fa" in src(st.test) or any(isinstance(n, ast.Name) for n in ast.walk(st.test))):
            names = {n.id for n in ast.walk(st.test) if isinstance(n, ast.Name)}
            if names & {"fa", "fb"} or names & {s2.targets[0].id for s2 in pre if isinstance(s2, ast.Assign) and isinstance(s2.targets[0], ast.Name) and "fa" in src(s2.value)}:
                rej = st
    if rej is None:
        run.judged(rid, "scalar bracket rejection present", ok=False)
        run.report("C14.5", OPT, fn, "brentsroot has no early rejection of brackets without a sign change", text="missing bracket rejection")
    else:
        bt = BoolTracker()
        bt.run([s2 for s2 in pre if s2 is not rej])
        tree = bt.tree(rej.test)
        atoms = tree_atoms(tree)
        verdict = {}
        okk = True
        for sgn in (-1, 0, 1):
            asg = {}
            for a in atoms:
                v = _sign_product_eval(a, sgn)
                if v is None:
                    okk = False
                asg[a] = v
            if not okk:
                break
            verdict[sgn] = eval_bool(tree, asg)
        ok = okk and verdict == {-1: False, 0: False, 1: True}
        run.judged(rid, "scalar rejection `%s` over sign(fa*fb): %s" % (src(rej.test), verdict), ok=ok)
        if not okk:
            run.report("C14.5", OPT, rej, "the bracket rejection is not a test on the sign of f(a)*f(b) (it compares with something that depends on the scale of f)")
        elif not ok:
            run.report("C14.5", OPT, rej, "the scalar solver %s: brackets are rejected for sign(f(a)f(b)) in %s, it must be exactly {+}" % (
                "gives up when the function is exactly zero at an end point of the bracket (returns inf, no success, and disagrees with the vector solver)" if verdict.get(0) else
                "accepts brackets without a sign change", sorted(k for k, v in verdict.items() if v)))
    # returned success
    rets = [st for st in fn.body if isinstance(st, ast.If) and "return_interval" in src(st.test)]
    succ = []
    for st in walk_no_nested(fn):
        if isinstance(st, ast.Return) and isinstance(st.value, ast.Tuple) and len(st.value.elts) >= 2 and not (isinstance(st.value.elts[1], ast.Constant)):
            succ.append(st.value.elts[1])
    for e in succ:
        btf = BoolTracker(canon=Canon(env=_arith_env(fn)))
        btf.run(fn.body)
        tree = btf.tree(e)
        atoms = tree_atoms(tree)
        verdict = {}
        okk = True
        for sgn in (-1, 0, 1):
            asg = {a: _sign_product_eval(a, sgn) for a in atoms}
            if any(v is None for v in asg.values()):
                okk = False
                break
            verdict[sgn] = eval_bool(tree, asg)
        ok = okk and verdict == {-1: True, 0: True, 1: False}
        run.judged(rid, "scalar success `%s` over sign(fa*fb): %s" % (src(e), verdict), ok=ok)
        if not ok:
            run.report("C14.5", OPT, e, "the success value of brentsroot is not `f(a)*f(b) <= 0` of the final bracket (sign change kept, or an exact zero at its end)")
    # vector: true_conv must be implied by fb == 0 and by the initial sign change
    vfn = repo.get(OPT, "brentsrootvec")
    tcs = [st for st in ast.walk(vfn) if isinstance(st, ast.Assign) and src(st.targets[0]) == "true_conv"]
    if not tcs:
        raise AnalysisError("brentsrootvec: true_conv not found")
    for st in tcs:
        bt = BoolTracker()
        bt.run([s2 for s2 in vfn.body if isinstance(s2, ast.Assign) and src(s2.targets[0]) == "bracketed"])
        tree = bt.tree(st.value)
        atoms = tree_atoms(tree)
        zero_atoms = [a for a in atoms if a.split("@")[0] in ("0 Eq fb", "fb Eq 0")]
        ok = bool(zero_atoms)
        if ok:
            for vals in itertools.product((False, True), repeat=len(atoms)):
                asg = dict(zip(atoms, vals))
                if asg[zero_atoms[0]] and not eval_bool(tree, asg):
                    ok = False
        run.judged(rid, "vector success `%s` is implied by an exact zero at b" % src(st.value), ok=ok)
        if not ok:
            run.report("C14.5", OPT, st, "the vector solver's success mask is not implied by an exact zero at the end point b: a root at an end of the bracket is not certified")


# ------------------------------------------------------------------------------------------------
class _Tok:
    """an abscissa together with the sign of the function there"""
    def __init__(self, name, sign):
        self.name, self.sign = name, sign


def bracket_invariant(repo, run):
    """The update after a new point s keeps a sign change in [a, b]: interpreted over signs of f in {-,0,+} (scalar solver); the vector solver must
    apply the same update under the mask `fa * fs < 0` and its complement."""
    from ..absint import Interp, Domain, OPAQUE, Nondet
    import copy
    rid = run.rule("C14.6", "bracket invariant: for every sign pattern (f(a), f(b), f(s)) with f(a) f(b) <= 0, after the update statements the bracket still satisfies "
                            "f(a) f(b) <= 0, contains the new point, and each abscissa keeps its own function value (scalar solver, by abstract interpretation "
                            "over signs); the vector solver applies the same update under mask / complement", floor=10)
    fn = repo.get(OPT, "brentsroot")
    loop = [st for st in fn.body if isinstance(st, ast.While)][0]
    body = loop.body
    i0 = next((i for i, st in enumerate(body) if isinstance(st, ast.Assign) and src(st.targets[0]) == "fs"), None)
    # the convergence flag, by role: the boolean local the `while` test reads (whatever it is called)
    flagnames = {n.id for n in ast.walk(loop.test) if isinstance(n, ast.Name)}
    i1 = next((i for i, st in enumerate(body) if isinstance(st, ast.Assign) and isinstance(st.targets[0], ast.Name) and st.targets[0].id in flagnames), None)
    if i0 is None or i1 is None or i1 <= i0:
        raise AnalysisError("brentsroot: update block (fs = f(s) ... conv = ...) not found")
    block = [st for st in body[i0 + 1:i1] if not (isinstance(st, ast.AugAssign) and src(st.target) == "numiter")]
    synth = ast.FunctionDef(name="update", args=ast.arguments(posonlyargs=[], args=[], kwonlyargs=[], kw_defaults=[], defaults=[]),
                            body=block + [ast.Return(value=ast.Tuple(elts=[ast.Name(id=n, ctx=ast.Load()) for n in ("a", "b", "fa", "fb")], ctx=ast.Load()))],
                            decorator_list=[], type_params=[])
    ast.fix_missing_locations(synth)

    class Dom(Domain):
        def call(self, name, node, args, kwargs, interp):
            short = (name or "").split(".")[-1]
            if short in ("abs", "absolute") and args and isinstance(args[0], int):
                return ("absval", args[0])
            if short == "sign" and args and isinstance(args[0], int):
                return args[0]          # the abstract values ARE signs
            return NotImplemented

        def compare(self, op, a, b, node):
            if isinstance(a, tuple) and a and a[0] == "absval" and isinstance(b, tuple) and b and b[0] == "absval":
                # |fa| < |fb| on signs: decided only when one of them is exactly zero
                x, y = abs(a[1]), abs(b[1])
                if isinstance(op, ast.Lt):
                    if x == 0 and y == 1:
                        return True
                    if y == 0:
                        return False
                    return Nondet
                return Nondet
            return NotImplemented
    bad = []
    n = 0
    for sa in (-1, 0, 1):
        for sb in (-1, 0, 1):
            if sa * sb > 0 or (sa == 0 and sb != 0):
                continue        # loop invariant: |f(b)| <= |f(a)| (established by the swap), so f(a) = 0 implies f(b) = 0
            for ss in (-1, 0, 1):
                it = Interp(Dom(), max_paths=16)
                env = {"a": _Tok("a", sa), "b": _Tok("b", sb), "s": _Tok("s", ss), "fa": sa, "fb": sb, "fs": ss,
                       "c": _Tok("c", None), "d": _Tok("d", None)}
                for outcome, val, _ in it.all_paths(synth, env):
                    n += 1
                    ok = outcome == "return" and isinstance(val, tuple) and all(isinstance(v, _Tok) for v in val[:2]) and all(isinstance(v, int) for v in val[2:])
                    why = "update block not interpretable"
                    if ok:
                        ta, tb, nfa, nfb = val
                        if nfa * nfb > 0:
                            ok, why = False, "the sign change is lost: new bracket has f(a) f(b) > 0"
                        elif "s" not in (ta.name, tb.name):
                            ok, why = False, "the new point is not an end of the new bracket"
                        elif ta.sign != nfa or tb.sign != nfb:
                            ok, why = False, "an abscissa is paired with the function value of another point"
                        elif ta.name == tb.name:
                            ok, why = False, "both ends of the bracket are the same point"
                        elif nfa == 0 and nfb != 0:
                            ok, why = False, "the end with the smaller |f| is not kept in b (the swap that maintains |f(b)| <= |f(a)| is missing)"
                    run.judged(rid, "signs (fa,fb,fs)=(%d,%d,%d): %s" % (sa, sb, ss, "ok" if ok else why), ok=ok)
                    if not ok:
                        bad.append(((sa, sb, ss), why))
    if bad:
        (sg, why) = bad[0]
        run.report("C14.6", OPT, block[0] if block else loop, "brentsroot: for function signs (f(a), f(b), f(s)) = %s the bracket update goes wrong: %s (%d of %d sign cases fail): the "
                                                             "returned point need not be near a sign change" % (sg, why, len(bad), n), text="brentsroot bracket update: %s" % why)
    # vector solver: same update under mask and complement
    vfn = repo.get(OPT, "brentsrootvec")
    vloop = [st for st in vfn.body if isinstance(st, ast.While)][0]
    vb = vloop.body
    j0 = next((i for i, st in enumerate(vb) if isinstance(st, ast.Assign) and src(st.targets[0]) == "fs"), None)
    stores = {}
    cur_mask = None
    masks = {}
    # masks by role: any boolean local used as the index of a masked store; its CURRENT definition (text, other mask names resolved) is the condition of the store
    vflag = {n.id for n in ast.walk(vloop.test) if isinstance(n, ast.Name)}
    mask_def = {}
    for st in vb[j0 + 1:] if j0 is not None else []:
        if isinstance(st, ast.Assign) and isinstance(st.targets[0], ast.Name) and (st.targets[0].id in vflag or st.targets[0].id == "conv"):
            break
        if isinstance(st, ast.Assign) and isinstance(st.targets[0], ast.Name) and len(st.targets) == 1:
            txt = Canon().text(st.value)
            for nm, d in mask_def.items():
                txt = txt.replace("logical_not(%s)" % nm, "logical_not(%s)" % d)
            mask_def[st.targets[0].id] = txt
        if isinstance(st, ast.Assign) and isinstance(st.targets[0], ast.Subscript) and isinstance(st.targets[0].value, ast.Name) and isinstance(st.targets[0].slice, ast.Name) \
                and st.targets[0].slice.id in mask_def and isinstance(st.value, ast.Subscript) and isinstance(st.value.slice, ast.Name) and st.value.slice.id == st.targets[0].slice.id:
            stores.setdefault(mask_def[st.targets[0].slice.id], []).append((st.targets[0].value.id, src(st.value.value)))
    want_pos = sorted([("b", "s"), ("fb", "fs")])
    want_neg = sorted([("a", "s"), ("fa", "fs")])
    def _nosign(k):
        return k.replace(" ", "").replace("sign(fa)", "fa").replace("sign(fs)", "fs")
    pos = [k for k in stores if k and _nosign(k) in ("cmp(fa*fsLt0)", "cmp(fs*faLt0)")]
    neg = [k for k in stores if k and k.startswith("logical_not(")]
    okv = len(pos) == 1 and sorted(stores[pos[0]]) == want_pos and len(neg) >= 1 and sorted(stores[neg[0]]) == want_neg
    run.judged(rid, "vector update: under `fa*fs < 0` %s, under its complement %s" % (stores.get(pos[0]) if pos else None, stores.get(neg[0]) if neg else None), ok=okv)
    if not okv:
        run.report("C14.6", OPT, vloop, "brentsrootvec does not apply the bracket update (b, fb) <- (s, fs) where f(a) f(s) < 0 and (a, fa) <- (s, fs) elsewhere: %s" % (
            {k: v for k, v in stores.items()},), text="brentsrootvec bracket update")


# ------------------------------------------------------------------------------------------------
def product_sign_tests(repo, run, rule_id="C14.7", funcs=("brentsroot", "brentsrootvec"), floor=2):
    """'whatever the scale': whether two function values have opposite signs must be decided from their signs.  The sign of the floating-point PRODUCT
    f(a)*f(b) is not that: for |f(a) f(b)| below the smallest subnormal it is 0, so 'same sign' passes `product > 0`-rejection and `product <= 0` success,
    and a genuine sign change fails `product < 0` (the bracket update then moves the wrong end)."""
    rid = run.rule(rule_id, "every sign test on two function values compares signs (sign(f1)*sign(f2), or separate comparisons with zero), never the product of the "
                            "values themselves with zero: a product of small values underflows to zero and the test then answers for a root that is not there", floor=floor)
    n = 0
    from ..sym import inline_locals
    for q in funcs:
        fn = repo.get(OPT, q)
        ke = KindEngine(fn, brent_seeds(), disciplines=("DIM",))
        env = inline_locals(fn)
        for cmp_ in [x for x in ast.walk(fn) if isinstance(x, ast.Compare) and len(x.ops) == 1]:
            l, r = cmp_.left, cmp_.comparators[0]
            for prod, other in ((l, r), (r, l)):
                try:
                    zero = const_value(other) == 0
                except ValueError:
                    zero = False
                if zero and isinstance(prod, ast.Name) and prod.id in env:
                    prod = env[prod.id]         # a product computed once into a local and tested several times
                elif zero and isinstance(prod, ast.Name):
                    # ... also when its operands are updated later (the local then is a snapshot, which is all this rule needs: WHAT was multiplied)
                    ds = [st for st in walk_no_nested(fn) if isinstance(st, ast.Assign) and len(st.targets) == 1 and isinstance(st.targets[0], ast.Name) and st.targets[0].id == prod.id]
                    if len(ds) == 1:
                        prod = ds[0].value
                if not zero or not (isinstance(prod, ast.BinOp) and isinstance(prod.op, ast.Mult)):
                    continue
                kl, kr = ke.kind(prod.left), ke.kind(prod.right)
                both_values = kl in ("G", "Seq(G)") and kr in ("G", "Seq(G)")
                signs = all(isinstance(x, ast.Call) and fname(x) in ("sign", "signbit", "copysign") for x in (prod.left, prod.right))
                if both_values or signs:
                    n += 1
                    run.judged(rid, "%s: %s  [%s * %s]" % (q, src(cmp_)[:70], kl, kr), ok=not both_values)
                    if both_values:
                        run.report(rule_id, OPT, cmp_, "%s decides a sign relation of two function values from their floating-point product `%s`: when the product underflows "
                                                       "(|f1 f2| < 5e-324, 1.4e-45 in float32 -- small scale, flat or high-order roots) it is zero, so equal signs count as a root "
                                                       "(false success / no rejection) and opposite signs count as none (the bracket loses the root)" % (q, src(prod)))
    if n == 0:
        raise AnalysisError("Brent solvers: no sign test of two function values found")


def stop_width(repo, run):
    """'within the requested tolerance of a sign change': the solvers return the end point b of the final bracket, so the loop may stop on the bracket's width only when
    the WHOLE width |b - a| is below the tolerance (the sign change lies somewhere in [a, b]); a half-width criterion is right for a solver that returns the midpoint."""
    rid = run.rule("C14.11", "every width-based stopping test of the Brent solvers compares |b - a| itself with tol (no fraction of the width): the returned point is an END of the bracket", floor=2)
    n = 0
    for q in ("brentsroot", "brentsrootvec"):
        fn = repo.get(OPT, q)
        for cmp_ in [x for x in ast.walk(fn) if isinstance(x, ast.Compare) and len(x.ops) == 1 and isinstance(x.ops[0], (ast.Lt, ast.LtE, ast.Gt, ast.GtE))]:
            sides = [cmp_.left, cmp_.comparators[0]]
            tol_side = [s_ for s_ in sides if src(s_) == "tol"]
            w_side = [s_ for s_ in sides if s_ not in tol_side and any(isinstance(x, ast.BinOp) and isinstance(x.op, ast.Sub) and {src(x.left), src(x.right)} == {"a", "b"} for x in ast.walk(s_))]
            if not tol_side or not w_side:
                continue
            n += 1
            w = w_side[0]
            plain = isinstance(w, ast.Call) and fname(w) == "abs" and len(w.args) == 1 and isinstance(w.args[0], ast.BinOp) and isinstance(w.args[0].op, ast.Sub)
            run.judged(rid, "%s: `%s`" % (q, src(cmp_)[:70]), ok=plain)
            if not plain:
                run.report("C14.11", OPT, cmp_, "%s stops when `%s` is below tol, not when the full width |b - a| is: the final bracket can be up to twice the tolerance wide, and the "
                                                "returned END point is then up to 2*tol from the sign change while success is reported (bisection-terminated runs: jumps, very steep "
                                                "functions)" % (q, src(w)[:50]), text="%s: stopping width %s" % (q, src(w)[:50]))
    if n == 0:
        raise AnalysisError("Brent solvers: no width-based stopping test found")


def tolerance_floor(repo, run):
    """'within the requested tolerance': the solvers raise a tolerance that is finer than the resolution of the BRACKET's floating-point type (nothing finer can be
    resolved); the resolution must be taken from the bracket's dtype -- a tolerance given as a Python float is a float64 whatever the bracket is"""
    rid = run.rule("C14.8", "every machine-epsilon the Brent solvers consult is that of the bracket's dtype (lower_bound / upper_bound / a / b), never of the tolerance "
                            "argument or a fixed type: with a longdouble bracket a float tolerance below 8.9e-16 would silently be raised to float64 resolution", floor=2)
    BR = {"lower_bound", "upper_bound", "a", "b"}
    for q in ("brentsroot", "brentsrootvec"):
        fn = repo.get(OPT, q)
        calls = [c for c in ast.walk(fn) if isinstance(c, ast.Call) and fname(c) in ("epsilon", "tol_epsilon", "finfo")]
        if not calls:
            raise AnalysisError("%s: no machine-epsilon lookup found (tolerance floor anchor)" % q)
        for c in calls:
            a = c.args[0] if c.args else None
            ok = isinstance(a, ast.Attribute) and a.attr == "dtype" and isinstance(a.value, ast.Name) and a.value.id in BR
            run.judged(rid, "%s: %s" % (q, src(c)), ok=ok)
            if not ok:
                run.report("C14.8", OPT, c, "%s takes the floating-point resolution from `%s`, not from the bracket's dtype: the requested tolerance can be raised (or lowered) to the "
                                            "resolution of another type, so the returned point need not be within the requested tolerance of a sign change" % (q, src(a) if a is not None else "<default>"))


# ------------------------------------------------------------------------------------------------
def no_aliased_iteration_arrays(repo, run):
    """'the vectorised solver agrees component-wise with the scalar one': the scalar solver rebinds names, the vector solver updates its arrays IN PLACE under masks
    (`fa[mask] = fs[mask]`).  Two of those arrays bound to the same object (`fc = fa`) move together from then on: `fa != fc` is never true again, the inverse
    quadratic step is never taken, and the two solvers take different iterates (on a bracket with several roots they return different roots)."""
    rid = run.rule("C14.10", "brentsrootvec: no array that is updated by item stores is bound by a plain `x = y` to another name (each "
                             "iteration array is its own object: copies or fresh results)", floor=1)
    fn = repo.get(OPT, "brentsrootvec")
    run.analysed_fn(OPT, fn)
    stored = set()
    for st in walk_no_nested(fn):
        tg = st.targets if isinstance(st, ast.Assign) else ([st.target] if isinstance(st, ast.AugAssign) else [])
        for t in tg:
            for x in (t.elts if isinstance(t, (ast.Tuple, ast.List)) else [t]):
                if isinstance(x, ast.Subscript) and isinstance(x.value, ast.Name):
                    stored.add(x.value.id)
    bad = []
    for st in walk_no_nested(fn):
        if isinstance(st, ast.Assign) and len(st.targets) == 1 and isinstance(st.targets[0], ast.Name) and isinstance(st.value, ast.Name):
            a, b = st.targets[0].id, st.value.id
            if (a in stored or b in stored) and a != b and _alias_hazard(st, a, b):
                bad.append(st)
        if isinstance(st, ast.Assign) and len(st.targets) > 1 and all(isinstance(t, ast.Name) and t.id in stored for t in st.targets):
            bad.append(st)          # a = b = <one array>
    run.judged(rid, "arrays updated in place: %s; plain bindings between them: %d" % (sorted(stored), len(bad)), ok=not bad)
    for st in bad:
        run.report("C14.10", OPT, st, "`%s` binds two arrays that the loop updates in place to ONE object: every masked store into one is a store into the other, so tests that "
                   "compare them (`fa != fc`: is inverse quadratic interpolation possible?) are constant and the vectorised solver no longer takes the scalar solver's "
                   "steps" % src(st)[:40])


def _alias_hazard(st, a, b):
    """after `a = b` (statement st): is one of the two names updated by an item store while both still name the same object?  The statements that follow st in its
    block are scanned in order; a plain rebinding of a (or b) ends the alias; a compound statement (loop / if) that contains an item store into either name while the
    alias is alive is a hazard."""
    blk = None
    par = st._parent
    for fld in ("body", "orelse", "finalbody"):
        lst = getattr(par, fld, None)
        if isinstance(lst, list) and any(x is st for x in lst):
            blk = lst
    if blk is None:
        return True
    after = blk[[i for i, x in enumerate(blk) if x is st][0] + 1:]

    def item_store(node, names):
        for x in ast.walk(node):
            tg = x.targets if isinstance(x, ast.Assign) else ([x.target] if isinstance(x, ast.AugAssign) else [])
            for t in tg:
                for e in (t.elts if isinstance(t, (ast.Tuple, ast.List)) else [t]):
                    if isinstance(e, ast.Subscript) and isinstance(e.value, ast.Name) and e.value.id in names:
                        return True
        return False

    def rebinds(node, name):
        return isinstance(node, ast.Assign) and any(isinstance(t, ast.Name) and t.id == name for t in node.targets) and not (
            isinstance(node.value, ast.Name) and node.value.id in (a, b))
    for nxt in after:
        if rebinds(nxt, a) or rebinds(nxt, b):
            return False
        if item_store(nxt, {a, b}):
            return True
        # a compound statement (a fold `for c in (c2, c3, ...): mask = logical_or(mask, c)`) that rebinds one of the names and stores into neither ends the alias too
        if not isinstance(nxt, (ast.Assign, ast.AugAssign, ast.Expr)) and any(rebinds(x, a) or rebinds(x, b) for x in ast.walk(nxt)):
            return False
    return False
