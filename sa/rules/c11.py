"""C11 — A-stability of every shipped implicit table, decided exactly on the folded coefficients:
R(z) = P(z)/Q(z), P = det(I - zA + z 1 b^T), Q = det(I - zA).  A-stable iff |R(iy)| <= 1 for real y and R is
analytic in Re z < 0 (maximum-modulus principle)."""
from fractions import Fraction

from .. import tab, extract
from ..front import AnalysisError

LEVEL = "proof"
TAU = Fraction(1, 10 ** 9)


def run(repo, run, tier):
    classes, exp, imp = tab.load_tables(repo)
    run.trusted += ["maximum-modulus characterisation of A-stability (Hairer-Wanner IV.3): |R(iy)|<=1 and no poles in C^-",
                    "Sturm's theorem; Routh-Hurwitz criterion; Faddeev-LeVerrier characteristic polynomial",
                    "python ast, fractions; the analyser in /verif/sa"]
    run.assumptions += ["the implicit step solves the stage equations of the table (property C02's clause); the stability "
                        "function of that map is R(z)",
                        "tolerance tau=1e-9 on |R(iy)|^2 <= 1+tau absorbs the rounding of the float literals "
                        "(Gauss/Lobatto tables have |R(iy)| = 1 exactly in exact arithmetic)"]
    r0 = run.rule("C11.0", "the implicit list contains only tables that are implicit (some a_ij, j>=i, non-zero) and the "
                           "explicit list only explicit ones", floor=32)
    r1 = run.rule("C11.1", "F_tau(y^2) = (1+tau)|Q(iy)|^2 - |P(iy)|^2 > 0 for all real y: Sturm count of roots in "
                           "[0,inf) is 0, F_tau(0) > 0, leading coefficient > 0", floor=16)
    r2 = run.rule("C11.2", "all poles of R lie in the open right half-plane: Q(-z) is a Hurwitz polynomial (Routh array)", floor=16)
    prow, _ = extract.propagated_row(repo)
    for name in exp + imp:
        fc = classes[name]
        if tab.base_kind(fc) != "rk":
            run.judged(r0, "%s: splitting method (explicit by construction)" % name)
            continue
        c, A, rows = tab.split_rk(fc.table("tableau_intermediate"), fc.table("tableau_final"))
        s = len(A)
        implicit = any(A[i][j] != 0 for i in range(s) for j in range(i, s))
        should = name in imp
        ok0 = implicit == should
        run.judged(r0, "%s: %s table in the %s list" % (name, "implicit" if implicit else "explicit",
                                                          "implicit" if should else "explicit"), ok=ok0)
        if not ok0:
            run.report("C11.0", fc.rel, fc.attr_nodes["tableau_intermediate"],
                       "listed as %s but its coefficient table is %s" % ("implicit" if should else "explicit",
                                                                         "implicit" if implicit else "explicit"),
                       qual=name, text="%s implicitness" % name)
        if not should:
            continue
        b = rows[prow]
        run.analysed_fn(fc.rel, name)
        st = tab.a_stability(A, b, TAU)
        ok1 = st["positive_roots"] == 0 and st["F0"] > 0 and st["lead"] > 0
        run.judged(r1, "%s: deg P=%d deg Q=%d, F_tau(0)=%.3g, roots of F_tau in (0,inf)=%d, lead=%.3g" % (
            name, st["degP"], st["degQ"], float(st["F0"]), st["positive_roots"], float(st["lead"])), ok=ok1)
        if not ok1:
            run.report("C11.1", fc.rel, fc.attr_nodes["tableau_intermediate"],
                       "|R(iy)| exceeds 1 somewhere on the imaginary axis: (1+1e-9)|Q(iy)|^2 - |P(iy)|^2 has %d sign change(s) "
                       "for y^2 > 0 (value at 0: %.3g, leading coefficient %.3g); the method amplifies some decaying mode" % (
                           st["positive_roots"], float(st["F0"]), float(st["lead"])),
                       qual=name, text="%s |R(iy)| <= 1" % name)
        ok2 = st["poles_right"]
        run.judged(r2, "%s: Q(-z) Hurwitz = %s" % (name, ok2), ok=ok2)
        if not ok2:
            run.report("C11.2", fc.rel, fc.attr_nodes["tableau_intermediate"],
                       "the stability function has a pole in the closed left half-plane (Q(-z) is not Hurwitz)",
                       qual=name, text="%s poles of R" % name)
    # 'an ACCEPTED step never increases |y|' presupposes that accepted means solved: the acceptance logic of C02.4, re-judged here
    from .c02 import newton
    newton(repo, run, rule_id="C11.3")
    # 'the computed step agrees with the scheme's stability function': R(z) above is the function of (A, b) with b = the propagated row; the step must
    # advance with exactly that row (not, e.g., with the last row of A for tables that merely have c_s = 1)
    from .c02 import increment
    increment(repo, run, rule_id="C11.4")
    # ... and the stage equations that are solved must be those of the table (every stage slope is f at that stage's own time and state, not a value
    # cached from elsewhere): R(z) is the stability function of exactly that system
    from .c02 import stage_args
    stage_args(repo, run, rule_id="C11.5")
    # 'an accepted step never increases |y|' is a statement about SOLVED stage equations: the tolerance they are accepted to is relative to the state,
    # not to the unknowns of the Newton system (whose explicit-sweep guess grows like |z|^s on stiff problems and makes any residual acceptable)
    from .c02 import stage_tolerance
    stage_tolerance(repo, run, rule_id="C11.6")
    solved_not_predicted(repo, run)
    from .common import instance_tables_are_class_tables
    instance_tables_are_class_tables(repo, run, "C11.8")
    # ... and the number the integrator compares with that tolerance is the RESIDUAL of the stage equations at every return site of the front end (a step length in
    # that slot accepts an unconverged - essentially explicit - stage vector whenever the solver stalls)
    from .c15 import slots
    slots(repo, run, rule_id="C11.9")


# ------------------------------------------------------------------------------------------------
def solved_not_predicted(repo, run):
    """'an accepted step of any implicit method never increases |y|': the stage values of an accepted step are what the nonlinear solver produced from the stage
    equations.  The initial guess the integrator hands over is the EXPLICIT sweep through the table; a front end that hands that guess back as 'converged' whenever
    its residual is below the (absolute) tolerance accepts explicit steps as soon as |y| is small against atol -- and an explicit sweep grows like |z|^s."""
    import ast as _ast
    from ..front import walk_no_nested, src, fname
    OPT = "desolver/utilities/optimizer.py"
    rid = run.rule("C11.7", "nonlinear_roots never hands its initial guess back as the root with a success flag that can be true: every success return carries a point "
                            "produced by a solver (MINPACK result, dogleg / trust-region iterate)", floor=1)
    fn = repo.get(OPT, "nonlinear_roots")
    run.analysed_fn(OPT, fn)
    p0 = [a.arg for a in fn.args.args][1]
    # names that are the guess itself: the parameter and locals bound ONLY to shape/dtype conversions of it
    same = {p0}
    changed = True
    while changed:
        changed = False
        for st in walk_no_nested(fn):
            if isinstance(st, _ast.Assign) and len(st.targets) == 1 and isinstance(st.targets[0], _ast.Name) and st.targets[0].id not in same:
                v = st.value
                while isinstance(v, _ast.Call) and (fname(v) or "").split(".")[-1] in ("reshape", "asarray", "copy", "clone", "astype", "ravel", "array") and v.args:
                    v = v.args[0]
                nm = st.targets[0].id
                defs = [d for d in walk_no_nested(fn) if isinstance(d, (_ast.Assign, _ast.AugAssign)) and any(
                    isinstance(x, _ast.Name) and x.id == nm and isinstance(x.ctx, _ast.Store) for x in _ast.walk(d))]
                if isinstance(v, _ast.Name) and v.id in same and len(defs) == 1:
                    same.add(nm)
                    changed = True
    rets = [r for r in walk_no_nested(fn) if isinstance(r, _ast.Return) and isinstance(r.value, _ast.Tuple) and len(r.value.elts) == 2 and isinstance(r.value.elts[1], _ast.Tuple)]
    if not rets:
        raise AnalysisError("nonlinear_roots: no `return x, (success, ...)` found")
    for r in rets:
        root, flag = r.value.elts[0], r.value.elts[1].elts[0]
        v = root
        while isinstance(v, _ast.Call) and (fname(v) or "").split(".")[-1] in ("reshape", "asarray", "copy", "clone", "astype") and v.args:
            v = v.args[0]
        is_guess = isinstance(v, _ast.Name) and v.id in same
        can_succeed = not (isinstance(flag, _ast.Constant) and flag.value is False)
        ok = not (is_guess and can_succeed)
        run.judged(rid, "return of `%s` with flag `%s`" % (src(root)[:40], src(flag)[:40]), ok=ok)
        if not ok:
            run.report("C11.7", OPT, r, "nonlinear_roots returns its initial guess `%s` with the success flag `%s`: the implicit integrators pass the explicit sweep through the table as the "
                       "guess, so whenever its residual is below the absolute tolerance (|y| small against atol) the 'implicit' step that is accepted is an explicit one, which is not "
                       "bounded by the stability function on the left half-plane" % (src(root)[:30], src(flag)[:30]))
