"""C12 — failures leave a consistent prefix: handler discipline of integrate's try statement, every call that can reach
user code lies inside it, commit atomicity, balance on exceptional exits, the trim in `finally`."""
import ast

from ..front import AnalysisError, dotted, fname, is_self_attr, src, walk_no_nested, ancestors
from ..imodel import IntegrateModel, DS, path_key
from .c09 import balance_rule

LEVEL = "other"


def run(repo, run, tier):
    run.assumptions += ["exceptions are raised by calls that can reach user code (rhs, Jacobian, callbacks, event functions, the integrator, "
                        "the recursive integrate); asynchronous interrupts between two bytecodes are not modelled",
                        "numerical correctness of a resumed run is not decided"]
    m = IntegrateModel(repo)
    run.analysed_fn(DS, m.fn)
    handlers(repo, run, m)
    containment(repo, run, m)
    atomicity(repo, run, m)
    balance_rule(repo, run, "C12.4", want="exceptional")
    from .c06 import slope_cache
    slope_cache(repo, run, rule_id="C12.5")
    trim(repo, run, m)
    # 'the recorded trajectory is the prefix of fully accepted steps; when tolerances cannot be met the failure is raised': a step whose stage
    # equations were not solved must never be returned to integrate() (it would be committed, and FailedToMeetTolerances would never be raised)
    from .c02 import newton
    newton(repo, run, rule_id="C12.7")
    # a right-hand side that starts returning nan/inf must end in the integration-failure error, not in recorded NaN rows
    from .c05 import nan_rejection
    nan_rejection(repo, run, rule_id="C12.8")
    no_swallowing(repo, run)
    handler_cannot_fail(repo, run, m)
    temporary_settings_restored(repo, run, m)
    # 'reset() restores a pristine system' after ANY failure, also one that strikes before the first step is accepted (counter still 0)
    from .c13 import reset_unconditional
    reset_unconditional(repo, run, rule_id="C12.12")
    # ... and restores the step size the system was constructed with: the integrators must not rewrite, in place, the step array handed to them (it is the system's
    # stored dt and, by aliasing, the saved initial step) -- also on an attempt that then fails
    from .c13 import no_inplace_on_aliases
    no_inplace_on_aliases(repo, run, rule_id="C12.13")


def _hnames(h):
    if h.type is None:
        return ["<bare>"]
    elts = h.type.elts if isinstance(h.type, ast.Tuple) else [h.type]
    return [(dotted(e) or "?").split(".")[-1] for e in elts]


def handlers(repo, run, m):
    rid = run.rule("C12.1", "handler discipline: a KeyboardInterrupt handler (not shadowed by a broader one before it) stores the status and re-raises "
                            "the caught object; an Exception (not BaseException) handler stores and raises FailedIntegration whose __cause__ is the "
                            "caught object; the else branch only upgrades the status to success", floor=5)
    t = m.try_
    hs = t.handlers
    ki = [i for i, h in enumerate(hs) if "KeyboardInterrupt" in _hnames(h)]
    ex = [i for i, h in enumerate(hs) if "Exception" in _hnames(h)]
    broad = [i for i, h in enumerate(hs) if set(_hnames(h)) & {"BaseException", "<bare>"}]
    ok = len(ki) == 1 and not any(b < ki[0] for b in broad) and not any(e < ki[0] for e in [])
    run.judged(rid, "handlers in order: %s" % [_hnames(h) for h in hs], ok=ok)
    if not ok:
        run.report("C12.1", DS, t, "there is no KeyboardInterrupt handler reachable before a broader handler: a keyboard interrupt would not propagate as itself",
                   text="handler order: %s" % [_hnames(h) for h in hs])
    # every handler records what happened: a handler that lets an exception through without storing the status leaves `success` / the status text of
    # the previous call in place (e.g. `except FailedIntegration: raise` placed before the general handler, once a failure type derives from it)
    ET = "desolver/exception_types/exception_types.py"
    parents = {}
    if ET in repo.modules:
        for q, n in repo.modules[ET].index.items():
            if isinstance(n, ast.ClassDef):
                parents[q] = [(dotted(b) or "?").split(".")[-1] for b in n.bases]

    def is_sub(a, b, depth=0):
        return a == b or (depth < 6 and any(is_sub(p_, b, depth + 1) for p_ in parents.get(a, [])))
    raised = set()
    for rel, mod in repo.modules.items():
        if rel.startswith("desolver/integrators/") or rel.endswith("optimizer.py"):
            for x in ast.walk(mod.tree):
                if isinstance(x, ast.Raise) and x.exc is not None:
                    e = x.exc.func if isinstance(x.exc, ast.Call) else x.exc
                    raised.add((dotted(e) or "?").split(".")[-1])
    for h in hs:
        stores_status = any(isinstance(st, ast.Assign) and any(is_self_attr(x, "__int_status") for x in st.targets) for st in ast.walk(h))
        # a handler without a status store is harmless only if nothing but the nested integrate() call (which recorded the status itself) can raise its type
        reachable = [r_ for r_ in sorted(raised) if any(is_sub(r_, hn) for hn in _hnames(h))] if not stores_status else []
        # (no exemption for types the library itself never raises inside the try: the right-hand side, the event functions and the callbacks are user code and can
        # raise ANY type - e.g. the FailedIntegration of an inner system they drive - so a handler that passes its type on must record the status like the others)
        run.judged(rid, "handler %s records the status" % _hnames(h), ok=stores_status)
        if not stores_status:
            run.report("C12.1", DS, h, "the handler for %s does not store the integration status before the exception leaves integrate(): after such a failure the status and "
                                       "`success` still describe the previous call, and the error is not wrapped with its cause (user code reached from the step loop can raise any type%s)" % (_hnames(h), "; integrator code raises %s" % reachable if reachable else ""),
                       text="handler %s without status store" % _hnames(h))
    if ki:
        h = hs[ki[0]]
        name = h.name
        stores = [st for st in h.body if isinstance(st, ast.Assign) and any(is_self_attr(x, "__int_status") for x in st.targets)]
        oks = len(stores) == 1 and isinstance(stores[0].value, ast.Name) and stores[0].value.id == name
        raises = [st for st in h.body if isinstance(st, ast.Raise)]
        okr = len(raises) == 1 and (raises[0].exc is None or (isinstance(raises[0].exc, ast.Name) and raises[0].exc.id == name)) and raises[0].cause is None
        run.judged(rid, "KeyboardInterrupt handler stores status and re-raises the caught object", ok=oks and okr)
        if not oks:
            run.report("C12.1", DS, h, "the KeyboardInterrupt handler does not record the interrupt as the integration status", text="KeyboardInterrupt status store")
        if not okr:
            run.report("C12.1", DS, raises[0] if raises else h, "the KeyboardInterrupt handler does not re-raise the interrupt itself")
    if broad:
        run.judged(rid, "no BaseException/bare handler", ok=False)
        run.report("C12.1", DS, hs[broad[0]], "a BaseException / bare handler wraps keyboard interrupts (and SystemExit) into the failure path",
                   text="broad handler %s" % _hnames(hs[broad[0]]))
    if not ex:
        run.judged(rid, "Exception handler present", ok=False)
        run.report("C12.1", DS, t, "no `except Exception` handler: failures of the right-hand side are not converted into FailedIntegration", text="missing Exception handler")
    else:
        h = hs[ex[0]]
        name = h.name
        raises = [st for st in h.body if isinstance(st, ast.Raise)]
        new = None
        for st in h.body:
            if isinstance(st, ast.Assign) and isinstance(st.value, ast.Call) and (dotted(st.value.func) or "").endswith("FailedIntegration") and isinstance(st.targets[0], ast.Name):
                new = st.targets[0].id
        okraise = False
        okcause = False
        if len(raises) == 1 and raises[0].exc is not None:
            r = raises[0]
            if isinstance(r.exc, ast.Name) and r.exc.id == new:
                okraise = True
            if isinstance(r.exc, ast.Call) and (dotted(r.exc.func) or "").endswith("FailedIntegration"):
                okraise = True
            if r.cause is not None and isinstance(r.cause, ast.Name) and r.cause.id == name:
                okcause = True
        for st in h.body:
            if isinstance(st, ast.Assign) and len(st.targets) == 1 and isinstance(st.targets[0], ast.Attribute) and st.targets[0].attr == "__cause__" and \
                    isinstance(st.targets[0].value, ast.Name) and st.targets[0].value.id == new and isinstance(st.value, ast.Name) and st.value.id == name:
                if raises and path_key(st, m.fn) < path_key(raises[0], m.fn):
                    okcause = True
        run.judged(rid, "Exception handler raises FailedIntegration", ok=okraise)
        run.judged(rid, "FailedIntegration carries the caught exception as __cause__", ok=okcause)
        if not okraise:
            run.report("C12.1", DS, raises[0] if raises else h, "the Exception handler does not raise the library's FailedIntegration error")
        if not okcause:
            run.report("C12.1", DS, h, "the FailedIntegration raised by the handler does not carry the original exception as its __cause__", text="missing __cause__")
        stores = [st for st in h.body if isinstance(st, ast.Assign) and any(is_self_attr(x, "__int_status") for x in st.targets)]
        oks = len(stores) == 1 and isinstance(stores[0].value, ast.Name) and stores[0].value.id in (new, name)
        run.judged(rid, "Exception handler records the failure as status", ok=oks)
        if not oks:
            run.report("C12.1", DS, h, "the Exception handler does not record the failure in the integration status", text="failure status store")
    # else: only sets status 1 and only when no failure/terminal status is present
    for st in t.orelse:
        for x in ast.walk(st):
            if isinstance(x, ast.Assign) and any(is_self_attr(tg, "__int_status") for tg in x.targets):
                ok1 = isinstance(x.value, ast.Constant) and x.value.value == 1
                guard = [a for a in ancestors(x) if isinstance(a, ast.If)]
                # the store must be unreachable when the status already is 2 (terminated by event)
                from ..sym import path_condition, tree_atoms, eval_bool
                import itertools
                pc, _bt = path_condition(x, t)
                ats = tree_atoms(pc)
                two = [a for a in ats if a.split("@")[0] in ("2 Eq self.__int_status", "self.__int_status Eq 2")]
                okg = bool(two)
                if okg:
                    for vals in itertools.product((False, True), repeat=len(ats)):
                        asg = dict(zip(ats, vals))
                        if asg[two[0]] and eval_bool(pc, asg):
                            okg = False
                run.judged(rid, "else-branch status store: %s under `%s`" % (src(x), src(guard[0].test)[:80] if guard else ""), ok=ok1 and okg)
                if not (ok1 and okg):
                    run.report("C12.1", DS, x, "the success status is assigned without preserving status 2 (terminated by event)")


def containment(repo, run, m):
    rid = run.rule("C12.2", "every call in integrate that can reach user code (integrator, event handling, callbacks, recursive integrate) is "
                            "lexically inside the try body", floor=4)
    calls = [c for c in ast.walk(m.fn) if isinstance(c, ast.Call) and m.user_call(c) and dotted(c.func) not in ("prepare_events",)]
    inside = {id(c) for st in m.try_.body for c in ast.walk(st) if isinstance(c, ast.Call)}
    for c in calls:
        d = dotted(c.func) or src(c.func)
        ok = id(c) in inside
        run.judged(rid, "call %s at line %d" % (d, c.lineno), ok=ok)
        if not ok:
            run.report("C12.2", DS, c, "a call that can run user code lies outside the try body: its failure would escape as a raw exception with the "
                                       "status and the buffers left untrimmed")


def atomicity(repo, run, m):
    rid = run.rule("C12.3", "state is written only after the integrator returned, and nothing that can raise sits between the row writes and the "
                            "counter increment", floor=2)
    k = {s: path_key(s, m.fn) for s in (m.step_assign, m.commit_y, m.commit_t, m.commit_inc)}
    ok = k[m.step_assign] < min(k[m.commit_y], k[m.commit_t])
    run.judged(rid, "rows are written after the integrator call", ok=ok)
    if not ok:
        run.report("C12.3", DS, m.commit_y, "a trajectory row is written before the integrator returned")
    top = m.loop.body
    i0 = min(top.index(m.commit_y), top.index(m.commit_t))
    i1 = top.index(m.commit_inc)
    between = top[min(i0, i1):max(i0, i1) + 1]
    bad = [cc for st in between for cc in ast.walk(st) if isinstance(cc, ast.Call) and m.user_call(cc)]
    ok2 = not bad and i1 > i0
    run.judged(rid, "no raising call between row writes and `counter += 1`", ok=ok2)
    if not ok2:
        run.report("C12.3", DS, bad[0] if bad else m.commit_inc, "a failure between the row writes and the counter increment would leave an unpaired or half-written row visible")


def trim(repo, run, m, rule_id="C12.6"):
    rid = run.rule(rule_id, "the finally block trims the buffers to counter+1 unconditionally, so every exit leaves exactly the committed rows", floor=1)
    t = m.try_
    calls = [st for st in t.finalbody if isinstance(st, ast.Expr) and isinstance(st.value, ast.Call) and dotted(st.value.func) == "self.__trim_soln_space"]
    ok = len(calls) >= 1
    # nothing before the trim in the finally block may raise/return except the guarded progress-bar close
    if ok:
        idx = t.finalbody.index(calls[0])
        for st in t.finalbody[:idx]:
            for x in ast.walk(st):
                if isinstance(x, (ast.Return, ast.Raise, ast.Break, ast.Continue)):
                    ok = False
    run.judged(rid, "finally: %s" % [src(s)[:50] for s in t.finalbody], ok=ok)
    if not ok:
        run.report(rule_id, DS, t, "the `finally` block does not (unconditionally) trim the solution buffers: after a failure the recorded arrays would "
                                   "expose unwritten rows", text="finally trim")
    tr = repo.get(DS, "OdeSystem.__trim_soln_space")
    run.analysed_fn(DS, tr)
    from ..sym import inline_locals, Canon
    ctr = Canon(env=inline_locals(tr))
    want = {"self.__y": "self.__y[:1 + self.counter]", "self.__t": "self.__t[:1 + self.counter]"}
    got = {src(st.targets[0]): ctr.text(st.value) for st in tr.body if isinstance(st, ast.Assign) and is_self_attr(st.targets[0])}
    ok2 = got == want
    run.judged(rid, "trim slices: %s" % got, ok=ok2)
    if not ok2:
        run.report(rule_id, DS, tr, "__trim_soln_space does not cut both buffers to [:counter + 1]", text="trim slices %s" % got)


# ------------------------------------------------------------------------------------------------
BROAD = {"Exception", "BaseException", "<bare>", "RuntimeError", "ArithmeticError", "StandardError"}
SWALLOW_EXEMPT = {
    ("desolver/differential_system.py", "OdeSystem.integrate"): "the one place where failures are converted (rule C12.1 judges its handlers)",
    ("desolver/differential_system.py", "DiffRHS.__init__"): "falls back to str(rhs) when building the wrapper's textual representation at construction; "
                                                             "no integration is in progress",
}


def no_swallowing(repo, run):
    """'If the right-hand side, a callback or an event function raises at any point ... the call raises the integration-failure error carrying the original
    cause': between the user's code and integrate()'s own handler nothing may absorb an arbitrary exception.  Every `except` in the package either names
    specific numerical failure classes (linear-algebra errors, ValueError from the stage solver, MemoryError, ...) or re-raises on every path."""
    rid = run.rule("C12.9", "no handler between user code and integrate() absorbs arbitrary exceptions: every `except` outside integrate() either names specific "
                            "classes (nothing as broad as Exception / BaseException / RuntimeError / bare) or ends every path with a re-raise", floor=5)

    def reraises(body):
        """does every path through the handler body end in a raise?"""
        if not body:
            return False
        last = body[-1]
        if isinstance(last, ast.Raise):
            return True
        if isinstance(last, ast.If) and last.orelse:
            return reraises(last.body) and reraises(last.orelse)
        return False

    for rel, mod in sorted(repo.modules.items()):
        for q, fn in sorted(mod.index.items()):
            if not isinstance(fn, ast.FunctionDef):
                continue
            for t in walk_no_nested(fn):
                if not isinstance(t, ast.Try):
                    continue
                for h in t.handlers:
                    names = _hnames(h)
                    broad = sorted(set(names) & BROAD)
                    if (rel, q) in SWALLOW_EXEMPT:
                        run.judged(rid, "%s: except %s (exempt: %s)" % (q, "/".join(names), SWALLOW_EXEMPT[(rel, q)][:60]), nontrivial=False)
                        continue
                    ok = not broad or reraises(h.body)
                    run.judged(rid, "%s: except %s%s" % (q, "/".join(names), " (re-raises)" if reraises(h.body) else ""), ok=ok)
                    if not ok:
                        run.report("C12.9", rel, h, "`except %s` in %s does not re-raise: an exception raised by the user's right-hand side (Jacobian, event function) inside this "
                                                    "`try` is absorbed here, the step is recomputed and integrate() can return normally -- the failure never reaches the "
                                                    "caller as FailedIntegration with its cause" % ("/".join(names), q), text="except %s swallows" % "/".join(names))


# ------------------------------------------------------------------------------------------------
def handler_cannot_fail(repo, run, m):
    """'the call raises the integration-failure error carrying the original cause ... and the status reports the failure' for EVERY exception the user code
    can raise.  Statements of a handler that run before the status store and the raise must therefore not depend on the payload of the caught object:
    `e.args[0]` raises IndexError for an exception built without arguments (a bare `assert`, `raise NotImplementedError`, MemoryError()), `e.args[k]`,
    `e.message`, unpacking `a, b = e.args` likewise -- the handler then dies with THAT error, nothing is recorded and the cause is lost."""
    rid = run.rule("C12.10", "the failure handlers of integrate() cannot themselves fail on the caught object: before the status store / raise no handler indexes or "
                             "unpacks the exception's payload (e.args[k], e.message, tuple-unpacking of e.args), whose shape is chosen by the user's code", floor=1)
    for h in m.try_.handlers:
        name = h.name
        if name is None:
            run.judged(rid, "handler %s binds no name" % _hnames(h), nontrivial=False)
            continue
        bad = []
        for x in ast.walk(h):
            if isinstance(x, ast.Subscript) and isinstance(x.ctx, ast.Load):
                root = x.value
                while isinstance(root, (ast.Attribute, ast.Subscript)):
                    root = root.value
                if isinstance(root, ast.Name) and root.id == name:
                    bad.append((x, "indexes the payload of the caught exception"))
            if isinstance(x, ast.Attribute) and isinstance(x.value, ast.Name) and x.value.id == name and isinstance(x.ctx, ast.Load) and \
                    x.attr not in ("args", "__cause__", "__context__", "__traceback__", "__class__", "with_traceback", "add_note", "__notes__", "__dict__"):
                bad.append((x, "reads attribute `%s`, which an arbitrary exception need not have" % x.attr))
            if isinstance(x, ast.Assign) and isinstance(x.targets[0], (ast.Tuple, ast.List)) and any(
                    isinstance(n, ast.Name) and n.id == name for n in ast.walk(x.value)) and not isinstance(x.value, (ast.Tuple, ast.List)):
                bad.append((x, "unpacks the payload of the caught exception into a fixed number of names"))
        run.judged(rid, "handler %s as %s: %s" % (_hnames(h), name, "independent of the payload" if not bad else [src(b)[:40] for b, _ in bad]), ok=not bad)
        for x, why in bad:
            run.report("C12.10", DS, x, "the handler for %s %s (`%s`): for an exception raised without arguments (bare assert, `raise NotImplementedError`, a user exception "
                       "class with its own fields) the handler itself raises (IndexError / AttributeError / ValueError) before the status is stored and before the "
                       "failure is wrapped: integrate() then raises that secondary error, the status still describes the previous call and the cause is lost" % (
                           _hnames(h), why, src(x)[:60]))


# ------------------------------------------------------------------------------------------------
def temporary_settings_restored(repo, run, m):
    """'calling integrate again continues correctly from its end': integrate() works with objects that outlive the call (the integrator, the right-hand-side wrapper, the
    dense output).  A setting of one of them that integrate() changes for part of its work (`self.integrator.is_adaptive = False` ... `= True`) has to be put back on
    EVERY exit: user code runs in between, and when it raises, a restore written as a plain statement after the call is skipped -- the resumed run then integrates with
    the temporary setting (fixed steps, tolerances ignored) although status, trajectory and dense output of the failed call all look consistent."""
    rid = run.rule("C12.11", "integrate() stores into attributes of its persistent sub-objects (self.integrator.*, self.equ_rhs.*, self.__sol.*) only where a `finally` "
                             "clause enclosing the following code stores the same attribute back (or not at all)", floor=1)
    SUBS = ("integrator", "equ_rhs", "__sol", "sol", "__method")
    fn = m.fn
    stores = []
    for st in walk_no_nested(fn):
        if isinstance(st, (ast.Assign, ast.AugAssign)):
            for t in (st.targets if isinstance(st, ast.Assign) else [st.target]):
                if isinstance(t, ast.Attribute) and is_self_attr(t.value) and t.value.attr in SUBS:
                    stores.append((st, src(t)))
    if not stores:
        run.judged(rid, "integrate() changes no setting of the integrator / rhs wrapper / dense output", nontrivial=False)
        return
    for st, tgt in stores:
        in_finally = any(isinstance(a, ast.Try) and any(st is x or any(st is y for y in ast.walk(x)) for x in a.finalbody) for a in ancestors(st))
        if in_finally:
            run.judged(rid, "`%s` is the restoring store (in a finally clause)" % src(st)[:70])
            continue
        # a try statement that follows the store in the same block (or encloses it) and whose finally stores the same target
        restored = False
        blk_owner = st._parent
        for fld in ("body", "orelse", "finalbody"):
            blk = getattr(blk_owner, fld, None)
            if isinstance(blk, list) and any(x is st for x in blk):
                after = blk[[i for i, x in enumerate(blk) if x is st][0] + 1:]
                for nxt in after:
                    if isinstance(nxt, ast.Try) and any(isinstance(y, (ast.Assign, ast.AugAssign)) and any(
                            src(t2) == tgt for t2 in (y.targets if isinstance(y, ast.Assign) else [y.target])) for x in nxt.finalbody for y in ast.walk(x)):
                        restored = True
                    break       # only the statement immediately following may be the protecting try
        for a in ancestors(st):
            if isinstance(a, ast.Try) and any(st is y for x in a.body for y in ast.walk(x)) and a is not m.try_ and any(
                    isinstance(y, (ast.Assign, ast.AugAssign)) and any(src(t2) == tgt for t2 in (y.targets if isinstance(y, ast.Assign) else [y.target]))
                    for x in a.finalbody for y in ast.walk(x)):
                restored = True
        run.judged(rid, "`%s`: %s" % (src(st)[:70], "restored by a finally clause" if restored else "no finally clause restores it"), ok=restored)
        if not restored:
            run.report("C12.11", DS, st, "integrate() changes `%s`, a setting of an object that outlives the call, and no `finally` clause puts it back: if the right-hand side, an event "
                       "function or a callback raises (or the user interrupts) before the plain restoring statement is reached, the object keeps the temporary setting; the "
                       "failed call looks consistent, but integrate() called again does NOT continue correctly (e.g. an adaptive method keeps taking uncontrolled steps)" % tgt)
