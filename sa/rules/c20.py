"""C20 — counters and callbacks: who may call the user's right-hand side, who may write the counters, njev on every path of
jac, position of the callback loop in the iteration, dt integrity between a callback and the next step."""
import ast
import re

from ..flow import Client, Engine
from ..front import AnalysisError, dotted, fname, is_self_attr, src, walk_no_nested, ancestors, qualname_of
from ..imodel import IntegrateModel, DS, path_key

LEVEL = "other"
ITY = "desolver/integrators/integrator_types.py"
FILES = [DS, ITY, "desolver/integrators/components/runge_kutta_methods.py", "desolver/integrators/integrator_template.py",
         "desolver/integrators/utilities.py", "desolver/integrators/explicit_integration_schemes.py",
         "desolver/integrators/implicit_integration_schemes.py"]
# calls through `.rhs` that are not evaluations of the right-hand side (one reason each)
RHS_CALL_EXEMPT = {
    "torch.func.jacrev": "torch.func.jacrev(self.rhs, ...) inside class DiffRHS builds an autodiff transform in the torch-only branch (torch is not "
                         "installed here; autodiff Jacobian evaluations are outside nfev by construction)",
}


def run(repo, run, tier):
    run.assumptions += ["counts per method follow from who-may-call / who-may-write; nothing numeric remains"]
    who_calls(repo, run)
    who_writes(repo, run)
    njev_paths(repo, run)
    m = IntegrateModel(repo)
    run.analysed_fn(DS, m.fn)
    callbacks(repo, run, m)
    dt_integrity(repo, run, m)
    counter_ownership(repo, run)
    # 'since construction or the last reset': reset() zeroes the counter on every path
    from .c13 import reset_unconditional
    reset_unconditional(repo, run, rule_id="C20.6")
    callbacks_must_run(repo, run, m)
    first_attempt_uses_given_step(repo, run)
    facade_leaves_dt_alone(repo, run)
    who_stores_dt(repo, run)
    # 'a step size assigned by a callback is the one used for the next step': the dt setter stores what it is given (no clamp to the construction interval)
    from ..report import Rejudged
    from .c04 import setter_keeps_magnitude
    rj = Rejudged(run, {"C04.8": "C20.11"}, note="re-judged for C20: callbacks assign the step through this setter")
    setter_keeps_magnitude(repo, rj)
    rj.finish_rejudge()


def who_calls(repo, run):
    rid = run.rule("C20.1", "the user's right-hand side (`<obj>.rhs(...)`) is called only in DiffRHS.__call__; every other evaluation goes through the "
                            "counting wrapper", floor=1)
    n = 0
    for rel in FILES:
        mod = repo.module(rel)
        for c in [x for x in ast.walk(mod.tree) if isinstance(x, ast.Call)]:
            f = c.func
            q = qualname_of(c)
            is_rhs_call = isinstance(f, ast.Attribute) and f.attr == "rhs"
            passes_rhs = any(isinstance(a, ast.Attribute) and a.attr == "rhs" and is_self_attr(a) for a in c.args) and q.startswith("DiffRHS.") \
                and not (dotted(f) or "").startswith("copy.") and dotted(f) not in ("DiffRHS", "repr", "str", "hasattr", "getattr", "isinstance")
            if is_rhs_call:
                n += 1
                ok = rel == DS and q == "DiffRHS.__call__"
                run.judged(rid, "%s::%s: %s" % (rel.split("/")[-1], q, src(c)[:80]), ok=ok)
                if not ok:
                    run.report("C20.1", rel, c, "the user's right-hand side is evaluated directly (not through DiffRHS.__call__): these evaluations are not counted in nfev")
            elif passes_rhs:
                n += 1
                ok = dotted(f) in RHS_CALL_EXEMPT and q.startswith("DiffRHS.")
                run.judged(rid, "%s::%s hands the raw rhs to %s%s" % (rel.split("/")[-1], q, src(f), " (exempt: torch autodiff)" if ok else ""), nontrivial=not ok, ok=ok)
                if not ok:
                    run.report("C20.1", rel, c, "the raw right-hand side is handed to `%s`: evaluations made through it bypass the counter" % src(f))
    # closures built inside DiffRHS for finite differences must call self(...)
    cls = repo.get(DS, "DiffRHS")
    for lam in [x for x in ast.walk(cls) if isinstance(x, ast.Lambda)]:
        body = lam.body
        ok = isinstance(body, ast.Call) and isinstance(body.func, ast.Name) and body.func.id == "self"
        run.judged(rid, "closure in %s: %s" % (qualname_of(lam), src(lam)[:80]), ok=ok)
        if not ok and not (isinstance(body, ast.Call) and isinstance(body.func, ast.Attribute) and body.func.attr == "rhs"):
            run.report("C20.1", DS, lam, "a closure handed to the finite-difference wrapper does not evaluate the right-hand side through the counting wrapper self(...)")


def who_writes(repo, run):
    rid = run.rule("C20.2", "nfev is incremented only in DiffRHS.__call__, by one, after the user call returned; it is zeroed only in the constructor and in "
                            "OdeSystem.reset; njev is incremented only in DiffRHS.jac", floor=4)
    for rel in FILES:
        mod = repo.module(rel)
        for st in [x for x in ast.walk(mod.tree) if isinstance(x, (ast.Assign, ast.AugAssign))]:
            tg = st.targets if isinstance(st, ast.Assign) else [st.target]
            for t in tg:
                if isinstance(t, ast.Attribute) and t.attr in ("nfev", "njev") and not (isinstance(t.value, ast.Name) and t.value.id in ("res",)):
                    q = qualname_of(st)
                    if qualname_of(st).split(".")[0] in ("newtontrustregion", "nonlinear_roots"):
                        continue
                    if isinstance(st, ast.AugAssign):
                        ok = isinstance(st.op, ast.Add) and src(st.value) == "1" and q == ("DiffRHS.__call__" if t.attr == "nfev" else "DiffRHS.jac")
                        if ok and t.attr == "nfev":
                            fn = repo.get(DS, "DiffRHS.__call__")
                            ucall = [s2 for s2 in fn.body if any(isinstance(c, ast.Call) and isinstance(c.func, ast.Attribute) and c.func.attr == "rhs" for c in ast.walk(s2))]
                            ok = bool(ucall) and path_key(ucall[0], fn) < path_key(st, fn)
                    else:
                        ok = src(st.value) == "0" and q in ("DiffRHS.__init__", "OdeSystem.reset")
                    run.judged(rid, "%s: %s" % (q, src(st)), ok=ok)
                    if not ok:
                        run.report("C20.2", rel, st, "the %s counter is written here (%s): it must change only by +1 per completed %s" % (
                            t.attr, q, "call of the user's right-hand side in DiffRHS.__call__ (after it returned)" if t.attr == "nfev" else "Jacobian request in DiffRHS.jac"))
    call = repo.get(DS, "DiffRHS.__call__")
    run.analysed_fn(DS, call)
    incs = [st for st in walk_no_nested(call) if isinstance(st, ast.AugAssign) and is_self_attr(st.target, "nfev")]
    ok = len(incs) == 1 and incs[0]._parent is call
    run.judged(rid, "DiffRHS.__call__ increments nfev exactly once, unconditionally", ok=ok)
    if not ok:
        run.report("C20.2", DS, call, "DiffRHS.__call__ does not increment nfev exactly once per call", text="nfev increment count")


class NjevClient(Client):
    def transfer(self, st, state):
        if isinstance(st, ast.AugAssign) and is_self_attr(st.target, "njev") and isinstance(st.op, ast.Add):
            return [min(state + 1, 3)]
        return [state]


def njev_paths(repo, run):
    rid = run.rule("C20.2b", "must-pass-through: every path of DiffRHS.jac to a `return` passes exactly one `njev += 1`", floor=1)
    fn = repo.get(DS, "DiffRHS.jac")
    run.analysed_fn(DS, fn)
    eng = Engine(NjevClient())
    out = eng.run(fn, [0])
    counts = sorted({s for (s, n) in out.ret} | set(out.normal))
    ok = counts == [1]
    run.judged(rid, "njev increments on paths to return: %s" % counts, ok=ok)
    if not ok:
        bad = [(s, n) for (s, n) in out.ret if s != 1]
        run.report("C20.2b", DS, bad[0][1] if bad else fn, "a path through jac() returns after %s increments of njev (exactly one per Jacobian request is required)" % (
            [s for s, _ in bad] or counts), text="njev increments per path: %s" % counts)


def callbacks(repo, run, m):
    rid = run.rule("C20.3", "the callback loop iterates the callbacks in the order given, after the step is committed (and after the event handling of the "
                            "step), once per iteration at the top level of the step loop; the recursive call made for a terminal event passes no callbacks", floor=5)
    if m.cb_loop is None:
        run.judged(rid, "callback loop present", ok=False)
        run.report("C20.3", DS, m.loop, "no `for cb in callback:` loop in the step loop", text="missing callback loop")
        return
    cb = m.cb_loop
    body_ok = isinstance(cb.iter, ast.Name) and len(cb.body) == 1 and isinstance(cb.body[0], ast.Expr) and isinstance(cb.body[0].value, ast.Call) and \
        isinstance(cb.body[0].value.func, ast.Name) and cb.body[0].value.func.id == src(cb.target) and [src(a) for a in cb.body[0].value.args] == ["self"]
    run.judged(rid, "callback loop: %s" % src(cb)[:80], ok=body_ok)
    if not body_ok:
        run.report("C20.3", DS, cb, "the callback loop does not invoke each callback once as cb(self) in list order")
    top = cb._parent is m.loop
    run.judged(rid, "callback loop is a direct child of the step loop (not nested in event/retry loops)", ok=top)
    if not top:
        run.report("C20.3", DS, cb, "the callback loop is nested inside another block of the iteration: callbacks can fire more than once per recorded step, or not at all")
    k = path_key(cb, m.fn)
    after_commit = path_key(m.commit_inc, m.fn) < k
    run.judged(rid, "callbacks run after the commit", ok=after_commit)
    if not after_commit:
        run.report("C20.3", DS, cb, "callbacks run before the new state is recorded: they see the previous step")
    ev_blocks = [st for st in m.loop.body if isinstance(st, ast.If) and "events is not None" in src(st.test)]
    after_events = all(path_key(e, m.fn) < k for e in ev_blocks)
    run.judged(rid, "callbacks run after the event handling of the step", ok=after_events)
    if not after_events:
        run.report("C20.3", DS, cb, "callbacks run before the events of the step are handled (the step may still be rolled back)")
    # the callback list is built without reordering
    defs = [st for st in walk_no_nested(m.fn) if isinstance(st, ast.Assign) and src(st.targets[0]) == "callback"]
    def as_given(v, name):
        if isinstance(v, ast.IfExp):
            return as_given(v.body, name) and as_given(v.orelse, name)
        if src(v) in ("[]", "list(%s)" % name, "[%s]" % name, "list()", "[*%s]" % name):
            return True
        # normalisation moved into a helper method: every return of the helper is one of the forms above (in its own parameter)
        if isinstance(v, ast.Call) and (dotted(v.func) or "").startswith("self.") and len(v.args) == 1 and src(v.args[0]) == name and not v.keywords:
            try:
                h = repo.get(DS, "OdeSystem." + dotted(v.func).split(".", 1)[1])
            except (AnalysisError, KeyError):
                return False
            ps = [a.arg for a in h.args.args if a.arg != "self"]
            rets = [r for r in ast.walk(h) if isinstance(r, ast.Return)]
            stores = [x for x in ast.walk(h) if isinstance(x, (ast.Assign, ast.AugAssign, ast.For, ast.While))]
            return len(ps) == 1 and bool(rets) and not stores and all(r.value is not None and as_given(r.value, ps[0]) for r in rets)
        return False
    okd = all(as_given(st.value, "callback") for st in defs) and bool(defs)
    # ... and on EVERY path: the object iterated in the step loop must be the function's own (a fresh list), never the caller's list, which user code
    # (a callback removing itself, appending another) can mutate while it is being iterated.  The path conditions of the rebindings must cover all cases.
    if okd:
        import itertools
        from ..sym import path_condition, tree_atoms, eval_bool, BoolTracker
        bt = BoolTracker()
        pcs = [path_condition(st, m.fn, tracker=bt)[0] for st in defs]
        direct = [st for st in defs if not (isinstance(st.value, ast.Call) and (dotted(st.value.func) or "").startswith("self."))]
        atoms = []
        for pc in pcs:
            for a in tree_atoms(pc):
                if a not in atoms:
                    atoms.append(a)
        covered = len(atoms) <= 10 and all(any(eval_bool(pc, dict(zip(atoms, vals))) for pc in pcs) for vals in itertools.product((False, True), repeat=len(atoms)))
        if len(defs) == 1 and not tree_atoms(pcs[0]):
            covered = True          # a single unconditional normalisation (e.g. through a helper)
        run.judged(rid, "the callback list is rebound to a fresh list on every path (conditions %s)" % [a.split("@")[0] for a in atoms], ok=covered)
        if not covered:
            run.report("C20.3", DS, defs[-1], "on some path (e.g. the callbacks given as a list) the callback parameter is iterated as it was passed: the caller's own list object "
                                              "is then iterated once per step, and a callback that mutates it (removes itself, adds another) makes later callbacks be skipped or "
                                              "unlisted ones run", text="callback list aliasing")
    # ... and the given object is DROPPED (rebound to an empty list) only when it is None: any other test (truthiness, len(), ==) consults a protocol of the
    # user's object - a callable with __len__ / __bool__ (a recorder that is empty at the start) is falsy and would never be invoked.
    if okd:
        from ..sym import path_condition, tree_atoms, eval_bool, BoolTracker
        import itertools
        for st in defs:
            if src(st.value) not in ("[]", "list()"):
                continue
            bt2 = BoolTracker()
            pc = path_condition(st, m.fn, tracker=bt2)[0]
            ats = tree_atoms(pc)
            none_atoms = [a for a in ats if re.sub(r"\s+", "", a.split("@")[0]) in ("callbackisNone", "callbackIsNone", "NoneIscallback", "callback Is None".replace(" ", ""))]
            implied = bool(none_atoms) and len(ats) <= 10 and all(
                any(dict(zip(ats, vals))[a] for a in none_atoms)
                for vals in itertools.product((False, True), repeat=len(ats)) if eval_bool(pc, dict(zip(ats, vals))))
            run.judged(rid, "the callbacks are dropped only under `callback is None` (atoms %s)" % [a.split("@")[0] for a in ats], ok=implied)
            if not implied:
                run.report("C20.3", DS, st, "the given callback object is replaced by an empty list under a condition that does not imply `callback is None` (atoms: %s): a truth-value / "
                                            "length / equality test consults the user's object, and a legal callable that is falsy (defines __len__ or __bool__) is never invoked" % (
                                                [a.split("@")[0] for a in ats],), text="callbacks dropped under a test other than `is None`")
    run.judged(rid, "callback list construction: %s" % [src(st.value) for st in defs], ok=okd)
    if not okd:
        run.report("C20.3", DS, defs[0] if defs else m.fn, "the callback list is not taken as given (list(callback) / [callback] / [])", text="callback list construction")
    okr = all(not any(k_.arg in ("callback", "events") for k_ in c.keywords) and len(c.args) <= 1 for c in m.recursive)
    run.judged(rid, "recursive integrate passes no callbacks", ok=okr)
    if not okr:
        run.report("C20.3", DS, m.recursive[0], "the sub-steps taken to land on a terminal event fire callbacks of their own")


def dt_integrity(repo, run, m):
    rid = run.rule("C20.4", "between the callback loop and the next use of self.dt as the step nothing stores dt except the magnitude-preserving "
                            "re-orientation; the integrator's proposal is stored BEFORE the callbacks", floor=2)
    cb = m.cb_loop
    if cb is None:
        return
    k = path_key(cb, m.fn)
    stores = []
    for st in walk_no_nested(m.loop):
        if isinstance(st, (ast.Assign, ast.AugAssign)):
            tg = st.targets if isinstance(st, ast.Assign) else [st.target]
            if any(is_self_attr(t, "dt") or is_self_attr(t, "__dt") for t in tg):
                stores.append(st)
    late = [st for st in stores if path_key(st, m.fn) > k]
    run.judged(rid, "stores to dt after the callback loop: %d" % len(late), ok=not late)
    for st in late:
        run.report("C20.4", DS, st, "self.dt is overwritten after the callbacks ran: a step size assigned by a callback is not the one used for the next step")
    # statements at the top of the loop before the step is chosen: only __fix_dt_dir may touch dt
    fix = repo.get(DS, "OdeSystem.__fix_dt_dir")
    run.analysed_fn(DS, fix)
    vals = {src(st.value) for st in ast.walk(fix) if isinstance(st, ast.Assign) and any(is_self_attr(t, "__dt") for t in st.targets)}
    ok = vals <= {"-self.__dt", "self.__dt"}
    run.judged(rid, "__fix_dt_dir only flips the sign of dt: %s" % sorted(vals), ok=ok)
    if not ok:
        run.report("C20.4", DS, fix, "__fix_dt_dir changes the magnitude of dt (values %s): it runs between a callback and the next step" % sorted(vals), text="__fix_dt_dir values")


def counter_ownership(repo, run):
    rid = run.rule("C20.5", "each OdeSystem owns its counters: a DiffRHS handed to the constructor is copied (copy.copy -> DiffRHS.__copy__ builds a fresh wrapper whose "
                            "counters start at zero), any other callable is wrapped in a new DiffRHS", floor=3)
    init = repo.get(DS, "OdeSystem.__init__")
    run.analysed_fn(DS, init)
    p = [a.arg for a in init.args.args][1]
    stores = [st for st in walk_no_nested(init) if isinstance(st, ast.Assign) and any(is_self_attr(t, "equ_rhs") for t in st.targets)]
    if not stores:
        raise AnalysisError("anchor missing: stores to self.equ_rhs in OdeSystem.__init__")
    for st in stores:
        v = st.value
        ok = isinstance(v, ast.Call) and (dotted(v.func) in ("copy.copy", "copy.deepcopy", "DiffRHS")) and v.args and src(v.args[0]) == p
        run.judged(rid, "%s" % src(st), ok=ok)
        if not ok:
            run.report("C20.5", DS, st, "the system keeps the caller's right-hand-side object itself (`%s`): evaluation counters, reset() and the hooked Jacobian are then shared with the "
                                        "caller and with every other system built from the same object, so nfev/njev no longer count the calls made through THIS system" % src(v))
    cp = repo.get(DS, "DiffRHS.__copy__")
    run.analysed_fn(DS, cp)
    news = [c for c in ast.walk(cp) if isinstance(c, ast.Call) and dotted(c.func) == "DiffRHS"]
    rets = [st for st in cp.body if isinstance(st, ast.Return)]
    ok = len(news) == 1 and news[0].args and src(news[0].args[0]) == "self.rhs" and len(rets) == 1 and isinstance(rets[0].value, ast.Name) and \
        not any(isinstance(st, ast.Assign) and isinstance(st.targets[0], ast.Attribute) and st.targets[0].attr in ("nfev", "njev") for st in ast.walk(cp))
    run.judged(rid, "DiffRHS.__copy__ builds a new DiffRHS around the same function with fresh counters", ok=ok)
    if not ok:
        run.report("C20.5", DS, cp, "DiffRHS.__copy__ does not build a fresh wrapper (with counters at zero) around the same function", text="DiffRHS.__copy__")


# ------------------------------------------------------------------------------------------------
def callbacks_must_run(repo, run, m):
    """'exactly once per recorded step (the sub-steps taken to land on a terminal event share one final invocation)': every iteration of the step loop
    that does not end in an exception reaches the callback loop -- in particular the iteration in which a terminal event stops the run.  A `break`,
    `continue` or `return` that leaves the iteration before the callback loop skips the invocation (and the store of a step size a callback assigns)."""
    rid = run.rule("C20.7", "must-pass-through: no `break` / `continue` / `return` of the step loop lies before the callback loop in the loop body (the iteration that "
                            "handles a terminal event included): each recorded step gets its callback invocation", floor=1)
    if m.cb_loop is None:
        run.judged(rid, "callback loop present", ok=False)
        return
    k = path_key(m.cb_loop, m.fn)
    jumps = []

    def visit(stmts, inner_loop):
        for st in stmts:
            if isinstance(st, (ast.FunctionDef, ast.ClassDef, ast.Lambda)):
                continue
            if isinstance(st, ast.Return) or (isinstance(st, (ast.Break, ast.Continue)) and not inner_loop):
                jumps.append(st)
            for field in ("body", "orelse", "finalbody"):
                sub = getattr(st, field, None)
                if isinstance(sub, list):
                    # the `else` of an inner loop is not inside that loop for break/continue purposes
                    visit(sub, inner_loop or (isinstance(st, (ast.For, ast.While)) and field == "body"))
            for h in getattr(st, "handlers", []) or []:
                visit(h.body, inner_loop)
    visit(m.loop.body, False)
    early = [j for j in jumps if path_key(j, m.fn) < k]
    run.judged(rid, "jumps out of the iteration before the callback loop: %d (of %d break/continue/return statements of the step loop)" % (len(early), len(jumps)), ok=not early)
    for j in early:
        run.report("C20.7", DS, j, "`%s` leaves the iteration of the step loop before the callback loop: the step recorded in this iteration (e.g. the one that lands on a terminal "
                                   "event) gets no callback invocation, and the statements between here and the end of the body (the store of the next step size) are skipped" % src(j)[:40])


# ------------------------------------------------------------------------------------------------
def first_attempt_uses_given_step(repo, run):
    """'a step size assigned by a callback is the one used for the next step': integrate() hands self.dt to the integrator (C20.4, C03.2); the integrator's FIRST
    attempt must then be made with exactly that step.  (Retries after a rejection may shorten it; a first attempt that is clamped, damped or limited in growth
    relative to the previous step silently replaces the callback's step.)"""
    from .. import extract
    from ..front import positional
    rid = run.rule("C20.8", "every integrator __call__ makes its first attempt (each self.step(...) call that precedes the step controller) with the step parameter "
                            "itself: the argument is the parameter or a local whose every definition reaching the call is a plain copy of it", floor=2)
    for q in (extract.RK + ".__call__", extract.SPLIT + ".__call__"):
        fn = repo.get(ITY, q)
        run.analysed_fn(ITY, fn)
        params = [a.arg for a in fn.args.args]
        p = params[5]
        upd = [c for c in ast.walk(fn) if isinstance(c, ast.Call) and dotted(c.func) == "self.update_timestep"]
        first_upd = min((path_key(c, fn) for c in upd), default=None)
        calls = [c for c in ast.walk(fn) if isinstance(c, ast.Call) and dotted(c.func) == "self.step"]
        firsts = [c for c in calls if first_upd is None or path_key(c, fn) < first_upd]
        if not firsts:
            raise AnalysisError("%s: no first-attempt self.step(...) call found" % q)
        stepfn = repo.get(ITY, q.rsplit(".", 1)[0] + ".step")
        for c in firsts:
            arg = c.args[4] if len(c.args) > 4 else next((k.value for k in c.keywords if k.arg == [a.arg for a in stepfn.args.args][5]), None)
            ok, why = False, "is `%s`" % (src(arg)[:60] if arg is not None else None)
            if isinstance(arg, ast.Name):
                if arg.id == p:
                    stores = [n for n in walk_no_nested(fn) if isinstance(n, ast.Name) and n.id == p and isinstance(n.ctx, ast.Store) and path_key(n, fn) < path_key(c, fn)]
                    ok = not stores
                    why = "is the parameter, rebound before the call" if stores else why
                else:
                    defs = [st for st in walk_no_nested(fn) if isinstance(st, (ast.Assign, ast.AugAssign, ast.For)) and path_key(st, fn) < path_key(c, fn) and any(
                        isinstance(x, ast.Name) and x.id == arg.id and isinstance(x.ctx, ast.Store) for x in ast.walk(st))]
                    plain = [st for st in defs if isinstance(st, ast.Assign) and len(st.targets) == 1 and isinstance(st.targets[0], ast.Name) and (
                        (isinstance(st.value, ast.Name) and st.value.id == p) or
                        (isinstance(st.value, ast.Call) and fname(st.value) in ("copy", "clone", "asarray") and st.value.args and isinstance(st.value.args[0], ast.Name) and st.value.args[0].id == p))]
                    ok = bool(defs) and len(plain) == len(defs)
                    bad = [st for st in defs if st not in plain]
                    why = "is `%s`, also bound by `%s`" % (arg.id, src(bad[0])[:90]) if bad else why
            run.judged(rid, "%s: first attempt self.step(..., %s)" % (q, src(arg)[:40] if arg is not None else None), ok=ok)
            if not ok:
                run.report("C20.8", ITY, c, "the first attempt of %s is not made with the step it was given (the step argument %s): a step size assigned by a callback (or by "
                           "the user through dt) is silently replaced before it is tried -- e.g. limited to a multiple of the previous step -- so it is not 'the one used for the "
                           "next step'" % (q, why))


# ------------------------------------------------------------------------------------------------
def facade_leaves_dt_alone(repo, run):
    """'a step size assigned by a callback is the one used for the next step' also when the system is driven through solve_ivp (one integrate() call per t_eval
    point, the user's callbacks passed through): between two integrate() calls the facade must not put another step size back.  The only store to the system's dt
    the facade may contain is the one inside its own clipping callback (C18.5), which runs AFTER the user's callbacks in the same iteration."""
    rid = run.rule("C20.9", "solve_ivp stores the system's dt nowhere except inside its step-clipping callback: a dt assigned by a user callback on the last step of a t_eval "
                            "segment is still the step size when the next segment starts", floor=1)
    fn = repo.get(DS, "solve_ivp")
    run.analysed_fn(DS, fn)
    sysnames = {t.id for st in walk_no_nested(fn) if isinstance(st, ast.Assign) and isinstance(st.value, ast.Call) and dotted(st.value.func) == "OdeSystem"
                for t in st.targets if isinstance(t, ast.Name)}
    if not sysnames:
        raise AnalysisError("solve_ivp: the OdeSystem(...) construction was not found")
    bad = []
    for st in walk_no_nested(fn):          # nested functions (the clipping callback) are not walked
        tg = st.targets if isinstance(st, ast.Assign) else ([st.target] if isinstance(st, (ast.AugAssign, ast.AnnAssign)) else [])
        for t in tg:
            for x in ast.walk(t):
                if isinstance(x, ast.Attribute) and x.attr == "dt" and isinstance(x.value, ast.Name) and x.value.id in sysnames and isinstance(x.ctx, ast.Store):
                    bad.append(st)
        if isinstance(st, ast.Call) and dotted(st.func) == "setattr" and st.args and isinstance(st.args[0], ast.Name) and st.args[0].id in sysnames and \
                len(st.args) > 1 and isinstance(st.args[1], ast.Constant) and st.args[1].value == "dt":
            bad.append(st)
    # a store made before the first integrate() call (and outside any loop) configures the run; it cannot overwrite anything a callback assigned
    ints = [c for c in ast.walk(fn) if isinstance(c, ast.Call) and isinstance(c.func, ast.Attribute) and c.func.attr == "integrate" and
            isinstance(c.func.value, ast.Name) and c.func.value.id in sysnames]
    first_int = min((path_key(c, fn) for c in ints), default=None)
    bad = [st for st in bad if first_int is None or not (path_key(st, fn) < first_int and not any(isinstance(a, (ast.For, ast.While)) for a in ancestors(st)))]
    run.judged(rid, "stores to <system>.dt in the body of solve_ivp after (or in a loop with) an integrate() call: %d" % len(bad), ok=not bad)
    for st in bad:
        run.report("C20.9", DS, st, "solve_ivp assigns the system's dt itself (`%s`): a step size assigned by a user callback during the preceding integrate() call is overwritten before the "
                   "next call uses it" % src(st)[:70])


# ------------------------------------------------------------------------------------------------
def who_stores_dt(repo, run):
    """'a step size assigned by a callback is the one used for the next step': a callback may, after assigning dt, touch other settings (tolerances, kick variables, the
    method): those setters rebuild the integrator.  None of them -- and nothing they call -- may store the step size; only the constructor, the dt setter, reset(),
    integrate() and the orientation helper do."""
    rid = run.rule("C20.10", "who-may-write: the system's step size (self.dt / self.__dt) is stored only by __init__, the dt setter, reset(), integrate() and __fix_dt_dir",
                   floor=4)
    OWNERS = {"OdeSystem.__init__", "OdeSystem.dt@setter", "OdeSystem.reset", "OdeSystem.integrate", "OdeSystem.__fix_dt_dir"}
    for q, fn in repo.functions(DS):
        if not q.startswith("OdeSystem."):
            continue
        sts = [st for st in walk_no_nested(fn) if isinstance(st, (ast.Assign, ast.AugAssign)) and any(
            is_self_attr(x, "dt") or is_self_attr(x, "__dt") for t in (st.targets if isinstance(st, ast.Assign) else [st.target]) for x in ast.walk(t) if isinstance(getattr(x, "ctx", None), ast.Store))]
        if not sts:
            continue
        ok = q in OWNERS
        run.judged(rid, "%s stores the step size (%d store(s))" % (q, len(sts)), ok=ok)
        if not ok:
            run.report("C20.10", DS, sts[0], "%s stores the system's step size: it runs whenever a tolerance, the kick variables or the method is set (also from a step callback), so a "
                       "step size the callback assigned just before is silently replaced and is not the one used for the next step" % q)
