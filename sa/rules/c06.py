"""C06 — dense output: slot agreement of the Hermite pieces, direction-aware piece selection, cache-key discipline of
the reused end slope, paired and sorted container updates, commit/interpolant balance."""
import ast

from .. import extract, seeds
from ..flow import Client, Engine, tri_eval
from ..front import AnalysisError, dotted, fname, is_self_attr, src, walk_no_nested, ancestors
from ..imodel import DS
from ..sym import Canon, Poly
from .c09 import balance_rule

LEVEL = "other"
ITY = seeds.ITY


def T(s):
    return Canon().poly(ast.parse(s, mode="eval").body)


def run(repo, run, tier):
    from .common import readonly
    readonly(repo, run, "C06.9", DS, ["DenseOutput.__call__", "DenseOutput.grad", "DenseOutput.find_interval", "DenseOutput.find_interval_vec"], "the query methods of the dense output")
    run.assumptions += ["NOT decided: O(h^4) interpolation error; tolerance-level reproduction for Richardson pieces",
                        "the Hermite algebra itself is property C17's clause"]
    slots(repo, run)
    end_slopes(repo, run)
    selection(repo, run)
    slope_cache(repo, run)
    slope_cache_dropped_between_calls(repo, run)
    containers(repo, run)
    evaluation_paths(repo, run)
    cache_invalidation(repo, run)
    hermite_time_arithmetic(repo, run, "C06.11")
    from .common import index_decrement
    index_decrement(repo, run, "C06.13", DS, ["DenseOutput.find_interval", "DenseOutput.find_interval_vec"])     # 'never by extrapolating a neighbouring step'
    from .c09 import emptiness
    emptiness(repo, run, "C06.12")      # 'after events': the store emptied by a terminal event in the first step accepts the next piece
    balance_rule(repo, run, "C06.5", want="all")
    from .c09 import removal_index
    removal_index(repo, run, "C06.7")
    # array queries are answered through the vectorised bisection over the step end times: it has to return, for every query of every dtype, the first
    # end time not smaller than the query (a table cast to the dtype of integer queries truncates the end times)
    from .c17 import bisection_vec
    bisection_vec(repo, run, tier, rule_id="C06.14")
    dense_lookup_is_the_interpolant(repo, run)
    piece_store_single_writer(repo, run)
    richardson_pieces_are_this_steps(repo, run)


# ------------------------------------------------------------------------------------------------
def slots(repo, run):
    rid = run.rule("C06.1", "each dense_output builds CubicHermiteInterp(t0, t0+dTime, y0, y0+dState, initial_rhs, final_rhs) from the ends of its own "
                            "step and returns the knot t0+dTime", floor=2)
    want = ["self.initial_time", "self.dTime + self.initial_time", "self.initial_state", "self.dState + self.initial_state", "self.initial_rhs", "self.final_rhs"]
    from ..sym import inline_locals
    for q in ("TableauIntegrator.dense_output", extract.SPLIT + ".dense_output"):
        fn = repo.get(ITY, q)
        run.analysed_fn(ITY, fn)
        c = Canon(env=inline_locals(fn))
        rets = [st for st in fn.body if isinstance(st, ast.Return)]
        ok = False
        why = "dense_output does not return (knot, CubicHermiteInterp(...))"
        if len(rets) == 1 and isinstance(rets[0].value, ast.Tuple) and len(rets[0].value.elts) == 2:
            knot, piece = rets[0].value.elts
            while isinstance(piece, ast.Name) and piece.id in c.env:
                piece = c.env[piece.id]
            if isinstance(piece, ast.Call) and (dotted(piece.func) or "").endswith("CubicHermiteInterp") and len(piece.args) == 6 and not piece.keywords:
                got = [c.poly(a).canon() for a in piece.args]
                if got != want:
                    bad = [i for i in range(6) if got[i] != want[i]]
                    why = "argument slot(s) %s of the Hermite piece: got %s, the piece of this step needs %s" % (
                        bad, [got[i] for i in bad], [want[i] for i in bad])
                elif c.poly(knot).canon() != want[1]:
                    why = "the knot handed to the dense output is %s, not the end time of the step" % c.poly(knot).canon()
                else:
                    ok = True
        run.judged(rid, "%s: %s" % (q, src(rets[0].value)[:160] if rets else "<no return>"), ok=ok)
        if not ok:
            run.report("C06.1", ITY, rets[0] if rets else fn, why)


def _fsal_explicit_guard(test):
    """is the boolean test equivalent to  is_fsal and is_explicit ?"""
    import itertools
    from ..sym import bool_atoms, eval_bool
    tree, leaves = bool_atoms(test)
    atoms = sorted(leaves)
    if not set(atoms) <= {"self.is_fsal", "self.is_explicit", "self.is_implicit"}:
        return False
    for fs, ex in itertools.product((False, True), repeat=2):
        val = {"self.is_fsal": fs, "self.is_explicit": ex, "self.is_implicit": not ex}
        if eval_bool(tree, {k: val[k] for k in atoms}) != (fs and ex):
            return False
    return True


def end_slopes(repo, run):
    rid = run.rule("C06.6", "end slopes are the right-hand side at the step ends: initial_rhs = rhs(t0, y0), final_rhs = rhs(t0 + dTime, y0 + dState) "
                            "(or the FSAL last-stage slope) in both integrator families", floor=4)
    step = repo.get(ITY, extract.RK + ".step")
    P = [a.arg for a in step.args.args]
    c = Canon(rename=dict(zip(P, ["self", "rhs", "t0", "y0", "consts", "h"])))
    fr = [st for st in walk_no_nested(step) if isinstance(st, ast.Assign) and any(is_self_attr(t, "final_rhs") for t in st.targets)]
    if not fr:
        raise AnalysisError("anchor missing: stores to self.final_rhs in step()")
    for st in fr:
        v = st.value
        if isinstance(v, ast.Call) and isinstance(v.func, ast.Name) and v.func.id == P[1]:
            ok = len(v.args) >= 2 and c.poly(v.args[0]) == T("t0 + self.dTime") and c.poly(v.args[1]) == T("y0 + self.dState")
            run.judged(rid, "RK step final slope: %s" % src(st), ok=ok)
            if not ok:
                run.report("C06.6", ITY, st, "the end slope is not rhs(t0 + dTime, y0 + dState): consecutive pieces would not join with the right-hand side at the recorded state")
        elif isinstance(v, ast.Name):
            # FSAL: slot 2 of compute_step's result, stored under is_fsal and is_explicit (checked by C02.3)
            ok = any(isinstance(s2, ast.Assign) and isinstance(s2.value, ast.Call) and (dotted(s2.value.func) or "").endswith("compute_step") and
                     isinstance(s2.targets[0], ast.Tuple) and len(s2.targets[0].elts) == 3 and src(s2.targets[0].elts[2]) == v.id for s2 in step.body)
            iff = st._parent
            okg = extract.executes_iff_fsal_explicit(st, step)
            run.judged(rid, "RK step FSAL slope: %s under `%s`" % (src(st), src(iff.test) if isinstance(iff, ast.If) else None), ok=ok and okg)
            if not ok:
                run.report("C06.6", ITY, st, "final_rhs is taken from a value that is not the last-stage slope of an FSAL table")
            elif not okg:
                run.report("C06.6", ITY, st, "the last-stage slope of the explicit predictor sweep is used as the end slope outside `is_fsal and is_explicit`: for an implicit table "
                                             "whose last row equals b (Radau IIA, Lobatto IIIA/IIIC, backward Euler, ...) it is the slope at the PREDICTED end state, not at the "
                                             "solved y0 + dState, so pieces do not end with the right-hand side at the recorded state")
        else:
            run.judged(rid, "RK step final slope: %s" % src(st), ok=False)
            run.report("C06.6", ITY, st, "final_rhs is not an evaluation of the right-hand side")
    call = repo.get(ITY, extract.RK + ".__call__")
    Q = [a.arg for a in call.args.args]
    c2 = Canon(rename=dict(zip(Q, ["self", "rhs", "t0", "y0", "consts", "h"])))
    ir = [st for st in walk_no_nested(call) if isinstance(st, ast.Assign) and any(is_self_attr(t, "initial_rhs") for t in st.targets)]
    fresh = [st for st in ir if isinstance(st.value, ast.Call) and isinstance(st.value.func, ast.Name) and st.value.func.id == Q[1]]
    ok = len(fresh) == 1 and c2.poly(fresh[0].value.args[0]) == T("t0") and c2.poly(fresh[0].value.args[1]) == T("y0")
    run.judged(rid, "RK __call__ initial slope: %s" % [src(s) for s in fresh], ok=ok)
    if not ok:
        run.report("C06.6", ITY, fresh[0] if fresh else call, "the start slope is not rhs(initial_time, initial_state)", text="RK initial slope")
    sc = repo.get(ITY, extract.SPLIT + ".__call__")
    S = [a.arg for a in sc.args.args]
    from ..sym import inline_locals as _il
    c3 = Canon(rename=dict(zip(S, ["self", "rhs", "t0", "y0", "consts", "h"])), env=_il(sc))
    for attr, wt, wy in (("initial_rhs", "t0", "y0"), ("final_rhs", "t0 + self.dTime", "y0 + self.dState")):
        sts = [st for st in walk_no_nested(sc) if isinstance(st, ast.Assign) and any(is_self_attr(t, attr) for t in st.targets) and isinstance(st.value, ast.Call)]
        ok = len(sts) == 1 and c3.poly(sts[0].value.args[0]) == T(wt) and c3.poly(sts[0].value.args[1]) == T(wy)
        run.judged(rid, "splitting __call__ %s: %s" % (attr, [src(s) for s in sts]), ok=ok)
        if not ok:
            run.report("C06.6", ITY, sts[0] if sts else sc, "%s of the splitting integrator is not rhs(%s, %s)" % (attr, wt, wy), text="splitting %s" % attr)


# ------------------------------------------------------------------------------------------------
DIRECTION_ATTRS = {"trange", "t0", "t1", "direction", "dTime"}


def _mentions_direction(test):
    for n in ast.walk(test):
        if isinstance(n, ast.Attribute) and n.attr in DIRECTION_ATTRS:
            return True
    return False


def selection(repo, run):
    rid = run.rule("C06.2", "the index of the piece that answers a query depends on the direction of the stored steps (a piece's own t0/t1/trange, a "
                            "stored direction, or a direction guard): t_eval holds step END times, so (t_eval, t) alone cannot tell whether the piece "
                            "before or after a knot contains t", floor=2)
    for q in ("DenseOutput.find_interval", "DenseOutput.find_interval_vec"):
        fn = repo.get(DS, q)
        run.analysed_fn(DS, fn)
        rets = [st for st in walk_no_nested(fn) if isinstance(st, ast.Return)]
        ok = False
        for r in rets:
            if r.value is None:
                continue
            if _mentions_direction(r.value):
                ok = True
            # control dependence through a guarded return: `if <direction test>: return idx - 1` ... `return idx`
            if any(isinstance(a, (ast.If, ast.IfExp)) and _mentions_direction(a.test) for a in ancestors(r)):
                ok = True
            names = {n.id for n in ast.walk(r.value) if isinstance(n, ast.Name)}
            for st in walk_no_nested(fn):
                # an assignment to the returned variable (or an element of it) under a test that reads a direction indicator
                tg = []
                if isinstance(st, ast.Assign):
                    tg = st.targets
                elif isinstance(st, ast.AugAssign):
                    tg = [st.target]
                hit = any((isinstance(t, ast.Name) and t.id in names) or (isinstance(t, ast.Subscript) and isinstance(t.value, ast.Name) and t.value.id in names) for t in tg)
                if hit:
                    if any(isinstance(a, (ast.If, ast.IfExp)) and _mentions_direction(a.test) for a in ancestors(st)):
                        ok = True
                    if _mentions_direction(st.value):
                        ok = True
        run.judged(rid, "%s: result depends on a direction indicator" % q, ok=ok)
        if not ok:
            run.report("C06.2", DS, fn, "the piece index is computed from (t_eval, t) only: for steps taken backward in time the piece AFTER a knot contains the "
                                        "query, for forward steps the piece BEFORE it; one of the two directions is answered by a neighbouring step "
                                        "(extrapolation)", text="%s ignores the direction of the stored steps" % q.split(".")[-1])


# ------------------------------------------------------------------------------------------------
class FreshClient(Client):
    """symplectic __call__: is self.final_rhs, as read by dense_output, computed in THIS call?   state in {'stale','none','fresh'}"""

    def transfer(self, st, state):
        if isinstance(st, ast.Assign) and any(is_self_attr(t, "final_rhs") for t in st.targets):
            v = st.value
            if isinstance(v, ast.Constant) and v.value is None:
                return ["none"]
            return ["fresh"]
        return [state]

    def branch(self, test, state):
        def val(n):
            t = src(n)
            if t == "self.final_rhs is None":
                return {"none": True, "fresh": False, "stale": None}[state]
            if t == "self.final_rhs is not None":
                return {"none": False, "fresh": True, "stale": None}[state]
            return None
        r = tri_eval(test, val)
        tt = [("none" if state == "stale" and src(test) == "self.final_rhs is None" else state)] if True in r else []
        ff = [state] if False in r else []
        return tt, ff


def slope_cache(repo, run, rule_id="C06.3"):
    rid = run.rule(rule_id, "cache-key discipline of the reused end slope: RungeKuttaIntegrator.__call__ may take final_rhs as the new initial_rhs only under a "
                            "comparison with the time AND state it was computed at (keys stored wherever final_rhs is stored); the splitting "
                            "integrator's final_rhs is recomputed in every call", floor=2)
    for owner in (extract.RK, extract.SPLIT):
        _keyed_reuse(repo, run, rid, owner)
    sc = repo.get(ITY, extract.SPLIT + ".__call__")
    run.analysed_fn(ITY, sc)
    eng = Engine(FreshClient())
    out = eng.run(sc, ["stale"])
    bad = [s for (s, n) in out.ret if s != "fresh"]
    run.judged(rid, "splitting __call__: final_rhs at return is %s" % sorted({s for (s, n) in out.ret}), ok=not bad)
    if bad:
        node = [st for st in walk_no_nested(sc) if isinstance(st, ast.If) and "final_rhs" in src(st.test)]
        run.report(rule_id, ITY, node[0] if node else sc, "the splitting integrator computes final_rhs only when it is None and never invalidates it: every piece after the first "
                                                          "ends with the slope of the FIRST step", text="splitting final_rhs computed once")


def slope_cache_dropped_between_calls(repo, run, rule_id="C06.17"):
    """'... and after continued calls': the end slope an integrator keeps is keyed by the time and the state it was computed at - not by the right-hand side and the
    constants, which the caller can replace between two integrate() calls (OdeSystem.constants has a setter, and the dict can be mutated in place).  Whenever an
    integrator's __call__ reuses a kept slope, integrate() therefore drops that slope before its step loop, for the integrator and for the basis integrators of a
    Richardson wrapper; the first piece of a continued call then starts with the right-hand side as it is NOW at the recorded state."""
    from ..imodel import IntegrateModel, path_key
    rid = run.rule(rule_id, "a slope kept across steps and reused by an integrator's __call__ is dropped by integrate() before the step loop (integrator and basis integrators)", floor=1)
    reused = {}
    for owner in (extract.RK, extract.SPLIT):
        call = repo.get(ITY, owner + ".__call__")
        for st in walk_no_nested(call):
            if isinstance(st, ast.Assign) and any(is_self_attr(t, "initial_rhs") for t in st.targets) and is_self_attr(st.value) and st.value.attr != "initial_rhs":
                reused.setdefault(st.value.attr, []).append((owner, st))
    m = IntegrateModel(repo)
    kl = path_key(m.loop, m.fn)
    dropped = {}
    cands = []
    for st in m.fn.body:
        if path_key(st, m.fn) >= kl:
            break
        cands.append(st)
        # the drop moved into a method of the system that integrate() calls unconditionally before the loop: its top-level statements count
        if isinstance(st, ast.Expr) and isinstance(st.value, ast.Call) and (dotted(st.value.func) or "").startswith("self.") and not st.value.args and not st.value.keywords:
            h = repo.maybe(DS, "OdeSystem." + dotted(st.value.func).split(".", 1)[1])
            if h is not None:
                cands.extend(h.body)

    def who_of(it):
        who = set()
        for x in ast.walk(it):
            if isinstance(x, ast.Attribute) and src(x) == "self.integrator":
                par = getattr(x, "_parent", None)
                if isinstance(par, ast.Attribute) or (isinstance(par, ast.Call) and fname(par) == "getattr" and par.args and par.args[0] is x):
                    if "basis_integrators" in src(par):
                        who.add("basis")
                else:
                    who.add("self")
        return who
    for st in cands:
        if isinstance(st, ast.Assign) and isinstance(st.value, ast.Constant) and st.value.value is None:
            for t in st.targets:
                if isinstance(t, ast.Attribute) and src(t.value) == "self.integrator":
                    dropped.setdefault(t.attr, set()).add("self")
        if isinstance(st, ast.For) and isinstance(st.target, ast.Name) and not st.orelse:
            who = who_of(st.iter)
            for b in st.body:
                if isinstance(b, ast.Assign) and isinstance(b.value, ast.Constant) and b.value.value is None:
                    for t in b.targets:
                        if isinstance(t, ast.Attribute) and isinstance(t.value, ast.Name) and t.value.id == st.target.id:
                            dropped.setdefault(t.attr, set()).update(who)
            # a loop over the basis integrators only (the wrapper itself dropped by a direct assignment)
    if not reused:
        run.judged(rid, "no integrator reuses a kept slope", ok=True)
    for attr, sites in sorted(reused.items()):
        got = dropped.get(attr, set())
        ok = got >= {"self", "basis"}
        run.judged(rid, "kept slope `%s` (reused in %s) is dropped before the step loop of integrate() for %s" % (attr, sorted({o for o, _ in sites}), sorted(got) or "nobody"), ok=ok)
        if not ok:
            owner, st = sites[0]
            run.report(rule_id, ITY, st, ("[%s] " % owner) + "the slope kept at the end of the previous step (`self.%s`) is reused as the start slope of a step whenever time and state match, and "
                                         "integrate() does not drop it before its step loop%s: after `system.constants = ...` (or an in-place change of the constants / of the right-hand "
                                         "side) between two integrate() calls the first piece of the continued call starts with the slope of the OLD right-hand side - its start "
                                         "slope is not the right-hand side at the recorded state, and the interpolation error inside that step is O(h) * |change of f| instead of O(h^4)" % (
                                             attr, "" if not got else " for %s" % sorted({"self", "basis"} - got)),
                       text="kept slope %s survives into the next integrate() call" % attr)


def _keyed_reuse(repo, run, rid, owner):
    rule_id = rid
    call = repo.get(ITY, owner + ".__call__")
    run.analysed_fn(ITY, call)
    Q = [a.arg for a in call.args.args]
    reuse = [st for st in walk_no_nested(call) if isinstance(st, ast.Assign) and any(is_self_attr(t, "initial_rhs") for t in st.targets) and is_self_attr(st.value, "final_rhs")]
    if not reuse:
        run.judged(rid, "%s.__call__ does not reuse final_rhs" % owner, ok=True)
    for st in reuse:
        guards = [a for a in ancestors(st) if isinstance(a, ast.If)]
        from ..sym import inline_locals
        from ..extract import _subst
        lenv = inline_locals(call)      # a guard hoisted into a named boolean local (`continues = <keys match>; if continues:`) is the same guard
        tests = [_subst(g.test, lenv) for g in guards]
        test_src = " and ".join(src(t_) for t_ in tests)
        keyed_t = keyed_y = False
        for gt in tests:
            for cmp_ in [n for n in ast.walk(gt) if isinstance(n, ast.Compare)]:
                sides = [src(cmp_.left)] + [src(x) for x in cmp_.comparators]
                if any("final_time" in s for s in sides) and any(s == Q[2] or s.endswith("initial_time") for s in sides) and all(isinstance(o, ast.Eq) for o in cmp_.ops):
                    keyed_t = True
                if any("final_state" in s for s in sides) and any(s == Q[3] or s.endswith("initial_state") for s in sides) and all(isinstance(o, ast.Eq) for o in cmp_.ops):
                    keyed_y = True
        ok = keyed_t and keyed_y
        run.judged(rid, "reuse `%s` guarded by: %s" % (src(st), test_src[:160]), ok=ok)
        if not ok:
            run.report(rule_id, ITY, st, ("[%s] " % owner) + "the slope cached at the end of the previous step is reused as this step's start slope without checking that this step "
                                         "starts at the time and state it was computed for (after a terminal event, a failure, a reset of the state by a "
                                         "callback, or a retried step the piece starts with a slope of another point)",
                       text="%sunkeyed reuse: initial_rhs = final_rhs guarded by `%s`" % ("" if owner == extract.RK else "[splitting] ", test_src[:120]))
        else:
            # keys are stored wherever final_rhs is stored
            step = repo.get(ITY, owner + ".step")
            P = [a.arg for a in step.args.args]
            c = Canon(rename=dict(zip(P, ["self", "rhs", "t0", "y0", "consts", "h"])))
            if owner == extract.SPLIT:
                step = call
                c = Canon(rename=dict(zip(Q, ["self", "rhs", "t0", "y0", "consts", "h"])))
            ft = [s2 for s2 in walk_no_nested(step) if isinstance(s2, ast.Assign) and any(is_self_attr(t, "final_time") for t in s2.targets)]
            fy = [s2 for s2 in walk_no_nested(step) if isinstance(s2, ast.Assign) and any(is_self_attr(t, "final_state") for t in s2.targets)]
            okk = bool(ft) and bool(fy) and all(c.poly(s2.value) == T("t0 + self.dTime") for s2 in ft) and all(c.poly(s2.value) == T("y0 + self.dState") for s2 in fy)
            # and not nested in a branch that final_rhs stores escape
            okk = okk and all(s2._parent is step for s2 in ft + fy)
            run.judged(rid, "cache keys stored in step(): %s" % [src(s2) for s2 in ft + fy], ok=okk)
            if not okk:
                run.report(rule_id, ITY, step, "the keys (final_time, final_state) the reuse is checked against are not stored as (t0 + dTime, y0 + dState) on every "
                                               "path of step() that stores final_rhs", text="cache keys of final_rhs")

# ------------------------------------------------------------------------------------------------
def containers(repo, run, rule_id="C06.4", position_only=False):
    rid = run.rule(rule_id, "t_eval and y_interpolants are updated in lock-step (same operation, same position) in add_/remove_interpolant; the two "
                            "branches of the direction test are mirror images; an insert at the front of the ascending t_eval is guarded by a comparison "
                            "with its FIRST element, an append by a comparison with its LAST", floor=4)
    add = repo.get(DS, "DenseOutput.add_interpolant")
    rem = repo.get(DS, "DenseOutput.remove_interpolant")
    run.analysed_fn(DS, add)
    run.analysed_fn(DS, rem)

    def ops(node):
        out = []
        for c in ast.walk(node):
            if isinstance(c, ast.Call) and isinstance(c.func, ast.Attribute) and c.func.attr in ("insert", "append", "pop") and is_self_attr(c.func.value):
                pos = src(c.args[0]) if c.func.attr in ("insert", "pop") and c.args else None
                out.append((c.func.value.attr, c.func.attr, pos, c))
        return out
    # remove: pop(idx) on both
    r = ops(rem)
    d = {a: (op, pos) for a, op, pos, _ in r}
    ok = d.get("t_eval") == d.get("y_interpolants") and d.get("t_eval") is not None and d["t_eval"][0] == "pop"
    run.judged(rid, "remove_interpolant: %s" % d, ok=ok)
    if not ok:
        run.report(rule_id, DS, rem, "remove_interpolant does not pop the same position from t_eval and y_interpolants", text="remove_interpolant pairing")
    # add: find the if with insert/append
    ifs = [st for st in ast.walk(add) if isinstance(st, ast.If) and ops(st) and not any(isinstance(x, ast.If) and ops(x) for b in (st.body + st.orelse) for x in ast.walk(b))]
    if not ifs:
        raise AnalysisError("anchor missing: insert/append branches of add_interpolant")
    iff = ifs[0]
    for label, blk in (("front", iff.body), ("back", iff.orelse)):
        o = [(a, op, pos) for st in blk for (a, op, pos, _) in ops(st)]
        da = {a: (op, pos) for a, op, pos in o}
        ok = da.get("t_eval") == da.get("y_interpolants") and da.get("t_eval") is not None
        run.judged(rid, "add_interpolant %s branch: %s" % (label, da), ok=ok)
        if not ok:
            run.report(rule_id, DS, blk[0] if blk else iff, "the %s branch of add_interpolant does not apply the same operation at the same position to t_eval and "
                                                            "y_interpolants: times and pieces fall out of step" % label, text="add_interpolant %s branch pairing" % label)
    b = {a: (op, pos) for st in iff.body for (a, op, pos, _) in ops(st)}
    e = {a: (op, pos) for st in iff.orelse for (a, op, pos, _) in ops(st)}
    mirror = {("insert", "0"): ("append", None), ("append", None): ("insert", "0")}
    okm = b.get("t_eval") in mirror and mirror[b["t_eval"]] == e.get("t_eval")
    run.judged(rid, "branches mirror each other: %s vs %s" % (b.get("t_eval"), e.get("t_eval")), ok=okm)
    if not okm:
        run.report(rule_id, DS, iff, "the two branches of the direction test are not insert(0)/append mirror images", text="add_interpolant mirror branches")
    # sorted-insert precondition
    test = iff.test
    front_is_body = b.get("t_eval") == ("insert", "0")
    refs = [src(n.slice) for n in ast.walk(test) if isinstance(n, ast.Subscript) and is_self_attr(n.value, "t_eval")]
    want_front = "0"
    oks = bool(refs) and ((front_is_body and want_front in refs) or (not front_is_body and want_front in refs)) and "-1" in refs + ["-1" if len(refs) > 1 else ""]
    # simpler statement: the front insertion must be decided by t_eval[0]
    oks = want_front in refs
    if position_only:
        # the weaker, history-free necessary condition: WHERE a piece goes in the ascending list must depend on the times already stored (the same new piece
        # belongs at the front of one stored list and at the back of another); a decision from the piece's own direction alone cannot keep the list sorted
        oks = bool(refs)
        run.judged(rid, "insertion position decided by comparison with stored end times %s (test: %s)" % (refs, src(test)), ok=oks)
        if not oks:
            run.report(rule_id, DS, test, "the position at which a new piece is stored (front or back of the ascending list of step end times) is decided by `%s`, which reads none "
                       "of the stored end times: after a run in the other direction (pieces kept from a backward run, then a forward call) the list is no longer sorted, the "
                       "event search evaluates the event functions on the wrong piece (extrapolated far outside its step) and crossings in the first steps are not seen" % src(test),
                       text="insertion position decided by `%s`" % src(test))
        return
    run.judged(rid, "front insertion decided by comparison with t_eval[%s] (test: %s)" % (refs, src(test)), ok=oks)
    if not oks:
        run.report(rule_id, DS, test, "the decision to insert at the FRONT of the ascending t_eval compares the new time with element [%s] only: a time that is smaller than "
                                      "the last element but larger than the first is inserted at the front and t_eval (which the lookup bisects) is no longer sorted" % ", ".join(refs),
                   text="front insertion guarded by `%s`" % src(test))


def _loop_bindings(loop):
    """{name: 'X[#]' | '#'} for  for i in range(len(X)) / for a, b in zip(X, Y) / for i, a in enumerate(X) / for i, (a, b) in enumerate(zip(X, Y));
    '#' stands for the position in iteration order (0, 1, 2, ...)"""
    it, tg = loop.iter, loop.target
    if not isinstance(it, ast.Call):
        return None
    f = dotted(it.func)
    if f == "range" and len(it.args) == 1 and isinstance(it.args[0], ast.Call) and dotted(it.args[0].func) == "len" and isinstance(tg, ast.Name):
        return {tg.id: "#"}

    def seq(target, iterable, out):
        if isinstance(iterable, ast.Call) and dotted(iterable.func) == "zip" and isinstance(target, ast.Tuple) and len(target.elts) == len(iterable.args):
            for e, a in zip(target.elts, iterable.args):
                if not isinstance(e, ast.Name):
                    return False
                out[e.id] = "%s[#]" % src(a)
            return True
        if isinstance(target, ast.Name) and isinstance(iterable, (ast.Name, ast.Attribute)):
            out[target.id] = "%s[#]" % src(iterable)
            return True
        return False
    out = {}
    if f == "enumerate" and len(it.args) == 1 and isinstance(tg, ast.Tuple) and len(tg.elts) == 2 and isinstance(tg.elts[0], ast.Name):
        out[tg.elts[0].id] = "#"
        return out if seq(tg.elts[1], it.args[0], out) else None
    return out if seq(tg, it, out) else None


def _norm_indexed(node, binds):
    if isinstance(node, ast.Name) and node.id in binds:
        return binds[node.id]
    if isinstance(node, ast.Subscript) and isinstance(node.slice, ast.Name) and binds.get(node.slice.id) == "#":
        return "%s[#]" % src(node.value)
    return src(node)


def evaluation_paths(repo, run):
    """DenseOutput.__call__ / grad: a scalar query is answered by piece find_interval(t) evaluated at t; an array query pairs each flattened query with
    the piece index computed for THAT query and restores the query's shape; a list of pieces is added piece by piece with its own knot."""
    from ..sym import inline_locals
    rid = run.rule("C06.8", "DenseOutput.__call__ and grad: scalar path = y_interpolants[find_interval(t)](t); array path = [y_interpolants[idx](t_k) for (idx, t_k) in "
                            "zip(find_interval_vec(flat t), flat t)] stacked on axis 0 and reshaped to shape(t) + value shape; add_interpolant pairs t[i] with y_interp[i]", floor=5)
    for q, meth in (("DenseOutput.__call__", None), ("DenseOutput.grad", "grad")):
        fn = repo.get(DS, q)
        run.analysed_fn(DS, fn)
        tp = [a.arg for a in fn.args.args][1]
        c = Canon(env=inline_locals(fn), rename={tp: "T"})
        rets = [r for r in ast.walk(fn) if isinstance(r, ast.Return) and r.value is not None]
        scalar_ok = vec_ok = False
        for r in rets:
            txt = c.text(r.value).replace(" ", "")
            c0 = Canon()
            want_scalar = c0.text(ast.parse("self.y_interpolants[self.find_interval(T)]%s(T)" % ("." + meth if meth else ""), mode="eval").body).replace(" ", "")
            if txt == want_scalar:
                scalar_ok = True
            if txt.startswith("reshape("):
                # reshape(stack([...], axis=0), shape(T) + shape(stack)[1:])
                lcs = [n for n in ast.walk(fn) if isinstance(n, ast.ListComp)]
                for lc in lcs:
                    g = lc.generators[0]
                    if isinstance(g.iter, ast.Call) and fname(g.iter) == "zip" and len(g.iter.args) == 2 and isinstance(g.target, ast.Tuple) and len(g.target.elts) == 2:
                        i_name, t_name = src(g.target.elts[0]), src(g.target.elts[1])
                        elt = src(lc.elt).replace(" ", "")
                        want_elt = "self.y_interpolants[%s]%s(%s)" % (i_name, "." + meth if meth else "", t_name)
                        idx_src, t_src = c.text(g.iter.args[0]).replace(" ", ""), c.text(g.iter.args[1]).replace(" ", "")
                        flat = Canon().text(ast.parse("D.ar_numpy.reshape(D.ar_numpy.asarray(T), (-1,))", mode="eval").body).replace(" ", "")
                        want_idx = Canon().text(ast.parse("self.find_interval_vec(D.ar_numpy.reshape(D.ar_numpy.asarray(T), (-1,)))", mode="eval").body).replace(" ", "")
                        if elt == want_elt and t_src == flat and idx_src == want_idx and not g.ifs:
                            stack_ok = any(isinstance(n, ast.Call) and fname(n) == "stack" and n.args and n.args[0] is lc and any(k.arg == "axis" and src(k.value) == "0" for k in n.keywords)
                                           for n in ast.walk(fn))
                            shape_ok = "shape(T)+" in txt or "shape(T)+" in txt.replace("D.ar_numpy.", "")
                            vec_ok = stack_ok and shape_ok
        run.judged(rid, "%s scalar path" % q, ok=scalar_ok)
        if not scalar_ok:
            run.report("C06.8", DS, fn, "%s: a scalar query is not answered by piece find_interval(t) evaluated at t" % q, text="%s scalar path" % q)
        run.judged(rid, "%s array path" % q, ok=vec_ok)
        if not vec_ok:
            run.report("C06.8", DS, fn, "%s: an array query does not pair each flattened query with the piece index computed for that query (stack axis 0, "
                                        "reshape to shape(t) + value shape)" % q, text="%s array path" % q)
    add = repo.get(DS, "DenseOutput.add_interpolant")
    P = [a.arg for a in add.args.args]
    rec = [cc for cc in ast.walk(add) if isinstance(cc, ast.Call) and dotted(cc.func) == "self.add_interpolant"]
    ok = False
    for cc in rec:
        loop = next((a for a in ancestors(cc) if isinstance(a, ast.For)), None)
        if loop is None or loop.orelse:
            continue
        binds = _loop_bindings(loop)
        if binds is None:
            continue
        got = [_norm_indexed(a, binds) for a in cc.args]
        ok = got == ["%s[#]" % P[1], "%s[#]" % P[2]] and not cc.keywords
    run.judged(rid, "add_interpolant adds a list of pieces pairwise, in order", ok=ok)
    if not ok:
        run.report("C06.8", DS, add, "a list of pieces (Richardson sub-steps) is not added pairwise (t[i], y_interp[i]) in order", text="add_interpolant list path")


# ------------------------------------------------------------------------------------------------
def cache_invalidation(repo, run):
    """array queries bisect `t_eval_arr`, a stacked copy of the knot list that is rebuilt only when the stale flag is set: every path of every DenseOutput method
    that changes the knot list must leave the flag set (or the copy rebuilt), or later array queries are answered from the old, shorter knot array"""
    from ..flow import Client, Engine
    rid = run.rule("C06.10", "cache discipline of DenseOutput (must-pass-through over all paths of every method): after any mutation of `self.t_eval` (append / insert / pop / "
                             "rebinding / item store) the method exits only after `self.__t_eval_arr_stale = True` or a rebuild of the stacked copy", floor=3)
    cls = repo.get(DS, "DenseOutput")
    MUT = {"append", "insert", "pop", "remove", "extend", "clear", "sort", "reverse"}

    class C(Client):
        def transfer(self, st, state):
            dirty = state
            for x in ast.walk(st):
                if isinstance(x, ast.Call) and isinstance(x.func, ast.Attribute) and x.func.attr in MUT and is_self_attr(x.func.value, "t_eval"):
                    dirty = True
            tg = st.targets if isinstance(st, ast.Assign) else ([st.target] if isinstance(st, (ast.AugAssign, ast.AnnAssign)) else ([t for t in st.targets] if isinstance(st, ast.Delete) else []))
            for t in tg:
                if is_self_attr(t, "t_eval") or (isinstance(t, ast.Subscript) and is_self_attr(t.value, "t_eval")):
                    dirty = True
            for t in tg:
                if is_self_attr(t, "__t_eval_arr_stale") and isinstance(st, ast.Assign) and isinstance(st.value, ast.Constant) and st.value.value is True:
                    dirty = False
                if is_self_attr(t, "__t_eval_arr") and isinstance(st, ast.Assign) and any(is_self_attr(a, "t_eval") for c in ast.walk(st.value) if isinstance(c, ast.Call) for a in c.args):
                    dirty = False
                if is_self_attr(t, "__t_eval_arr") and isinstance(st, ast.Assign) and isinstance(st.value, ast.Constant) and st.value.value is None:
                    dirty = dirty       # no copy at all: nothing to go stale only if the knot list is empty too; keep the state
            return [dirty]
    n = 0
    for fn in [x for x in cls.body if isinstance(x, ast.FunctionDef)]:
        touches = any(isinstance(x, ast.Attribute) and x.attr == "t_eval" and isinstance(x.ctx, (ast.Store, ast.Del)) for x in ast.walk(fn)) or any(
            isinstance(x, ast.Call) and isinstance(x.func, ast.Attribute) and x.func.attr in MUT and is_self_attr(x.func.value, "t_eval") for x in ast.walk(fn)) or any(
            isinstance(x, ast.Subscript) and is_self_attr(x.value, "t_eval") and isinstance(x.ctx, (ast.Store, ast.Del)) for x in ast.walk(fn))
        if not touches:
            continue
        n += 1
        run.analysed_fn(DS, fn)
        out = Engine(C()).run(fn, [False])
        bad = [(s, node) for (s, node) in out.ret if s is True] + [(s, fn) for s in out.normal if s is True]
        # in __init__ with no pieces the copy is None together with the list: accepted when the only dirty exits assign both to None
        if fn.name == "__init__":
            bad = [b for b in bad if not all(isinstance(st.value, ast.Constant) and st.value.value is None for st in ast.walk(fn)
                                             if isinstance(st, ast.Assign) and any(is_self_attr(t, "t_eval") for t in st.targets) and False)]
            # __init__ establishes list and copy together; judge it by presence of a rebuild/None on each branch
            ok_init = True
            for st in ast.walk(fn):
                if isinstance(st, ast.Assign) and any(is_self_attr(t, "t_eval") for t in st.targets):
                    blk = st._parent
                    body = [b for fld in ("body", "orelse") for b in (getattr(blk, fld, []) or []) if any(b is x for x in getattr(blk, fld))]
                    sib = [b for fld in ("body", "orelse") if any(st is x for x in (getattr(blk, fld, []) or [])) for b in getattr(blk, fld)]
                    if not any(isinstance(b, ast.Assign) and any(is_self_attr(t, "__t_eval_arr") for t in b.targets) for b in sib):
                        ok_init = False
            run.judged(rid, "DenseOutput.__init__ sets the knot list and its stacked copy together", ok=ok_init)
            if not ok_init:
                run.report("C06.10", DS, fn, "DenseOutput.__init__ binds the knot list without (re)building the stacked copy", text="__init__ knot list / copy")
            continue
        run.judged(rid, "DenseOutput.%s: exits with a stale stacked copy on %d of %d paths" % (fn.name, len(bad), len(out.ret) + len(out.normal)), ok=not bad)
        for s, node in bad[:2]:
            run.report("C06.10", DS, node, "DenseOutput.%s can return after changing the knot list without marking the stacked copy `t_eval_arr` stale: array queries keep "
                                           "bisecting the old knots (answers come from pieces several steps away from the query)" % fn.name)
    if n == 0:
        raise AnalysisError("DenseOutput: no method changes the knot list")


# ------------------------------------------------------------------------------------------------
INTERP = "desolver/utilities/interpolation.py"


def hermite_time_arithmetic(repo, run, rule_id):
    """AFF discipline inside CubicHermiteInterp: the normalised coordinate of a query is obtained by SUBTRACTING two absolute times (exact for a query
    inside the step, and invariant under a shift of the time axis) and dividing by the step; an absolute time is never scaled, used as a factor
    or added to a pure number.  `t*(1/h) - t0/h` is algebraically the same map but loses eps*|t|/h: the dense output of a run far from t = 0 is no
    longer the cubic of its step.  Attribute kinds are READ from the constructor (and the properties), not assumed."""
    from ..kind import KindEngine, Seeds
    rid = run.rule(rule_id, "CubicHermiteInterp handles absolute times only through differences (time arithmetic is well-kinded under the affine "
                            "discipline): the interpolant of a step does not depend on where the step lies on the time axis", floor=4)
    cls = "CubicHermiteInterp"
    init = repo.get(INTERP, cls + ".__init__")
    params = {"t0": "T", "t1": "T", "p0": "Y", "p1": "Y", "m0": "F", "m1": "F", "t_eval": "T", "t": "T"}
    cdef = init._parent
    methods = [n for n in cdef.body if isinstance(n, ast.FunctionDef)]
    attrs = {}
    for _ in range(4):           # attribute kinds from the constructor's stores and the property bodies (fixpoint)
        new = dict(attrs)
        ke = KindEngine(init, Seeds(params=params, attrs=attrs), disciplines=("AFF",))
        for st in walk_no_nested(init):
            if isinstance(st, ast.Assign) and len(st.targets) == 1 and is_self_attr(st.targets[0]):
                k = ke.kind(st.value)
                if isinstance(k, str) and k not in ("U", "None"):
                    new["self." + st.targets[0].attr] = k
        calls = {}
        for fn in methods:
            rets = [r for r in walk_no_nested(fn) if isinstance(r, ast.Return) and r.value is not None]
            if fn is init or len(rets) != 1 or fn.name.startswith("__") and fn.name.endswith("__"):
                continue
            k = KindEngine(fn, Seeds(params=params, attrs=attrs), disciplines=("AFF",)).kind(rets[0].value)
            if isinstance(k, str) and k not in ("U", "None"):
                if any(dotted(d) == "property" for d in fn.decorator_list):
                    new["self." + fn.name] = k
                else:
                    calls["self." + fn.name] = k
        if new == attrs:
            break
        attrs = new
    if attrs.get("self.t0") != "T" or attrs.get("self.t1") != "T":
        raise AnalysisError("anchor missing: CubicHermiteInterp.__init__ does not store its end times in self.t0 / self.t1")
    for fn in methods:
        if fn.name == "__repr__":
            continue
        run.analysed_fn(INTERP, fn)
        ke = KindEngine(fn, Seeds(params=params, attrs=attrs, calls=calls), disciplines=("AFF",))
        vs = ke.check()
        bad = {id(v.node) for v in vs}
        for node, ktxt in ke.judged:
            if id(node) not in bad and "T" in ktxt.split("/"):
                run.judged(rid, "%s.%s: %s  [%s]" % (cls, fn.name, src(node)[:80], ktxt))
        for v in vs:
            run.judged(rid, "%s.%s: %s" % (cls, fn.name, src(v.node)[:80]), ok=False)
            run.report(rule_id, INTERP, v.node, "%s (operand kinds %s): the normalised coordinate of a query must be (t - t0)/(t1 - t0), a difference of "
                       "absolute times over the step; any other use of an absolute time makes the piece depend on the position of the step on the time axis "
                       "(cancellation of size eps*|t|/h for runs far from t = 0)" % (v.why, "/".join(str(k) for k in (v.kinds or ()))))


# ------------------------------------------------------------------------------------------------
def dense_lookup_is_the_interpolant(repo, run):
    """'every query inside the integrated range is answered by the interpolant of the step that contains it': with dense output kept, a time lookup `system[t]` returns
    the dense solution at t on EVERY path of that branch.  A recorded row substituted inside a tolerance window around a grid time is the nearest SAMPLE, an O(h) answer,
    for every query once the step is shorter than the window (absolute windows: runs on tiny time scales, narrow dtypes)."""
    rid = run.rule("C06.15", "OdeSystem.__getitem__, branch taken when dense output is kept: every return is StateTuple(t=<query>, y=self.sol(<query>)): no path answers a time "
                             "lookup with a recorded row", floor=1)
    fn = repo.get(DS, "OdeSystem.__getitem__")
    run.analysed_fn(DS, fn)
    idx = [a.arg for a in fn.args.args][1]
    # the returns of the dense branch, whatever the arrangement of the branches: reachable when dense output is kept AND unreachable when it is not
    from .common import reachable_under
    from ..sym import Canon as _Canon

    def fix_with(dense):
        def fix(leaf):
            txt = src(leaf) if isinstance(leaf, ast.AST) else (" ".join(src(x) if isinstance(x, ast.AST) else type(x).__name__ for x in leaf) if isinstance(leaf, tuple) else "")
            if isinstance(leaf, ast.AST) and "dense_output" in txt:
                return dense
            if isinstance(leaf, tuple):
                l, op, r = leaf
                if "sol" in src(l) + src(r) and isinstance(op, (ast.IsNot, ast.Is)):
                    return dense if isinstance(op, ast.IsNot) else not dense
            return None
        return fix
    rets = [r for r in walk_no_nested(fn) if isinstance(r, ast.Return) and r.value is not None]
    dense_rets = []
    for r in rets:
        on, _ = reachable_under(r, fn, _Canon(), fix_with(True))
        off, _ = reachable_under(r, fn, _Canon(), fix_with(False))
        if on and not off:
            dense_rets.append(r)
    if not dense_rets:
        raise AnalysisError("__getitem__: the returns of the branch for kept dense output were not found")
    for r in dense_rets:
        v = r.value
        kw = {k.arg: src(k.value) for k in v.keywords} if isinstance(v, ast.Call) and dotted(v.func) == "StateTuple" else {}
        ok = kw.get("t") == idx and kw.get("y") in ("self.sol(%s)" % idx, "self.__sol(%s)" % idx)
        run.judged(rid, "dense branch returns %s" % src(v)[:80], ok=ok)
        if not ok:
            run.report("C06.15", DS, r, "with dense output kept, this path answers the time lookup with `%s` instead of the dense solution at the query: a recorded row returned "
                       "inside a tolerance window is the nearest sample, not the interpolant of the containing step, for every query once the steps are shorter than the "
                       "window (absolute tolerance: runs on tiny time scales, float32/float16 states)" % src(v)[:70])



# ------------------------------------------------------------------------------------------------
def richardson_pieces_are_this_steps(repo, run, rule_id="C06.18"):
    """the pieces a Richardson wrapper hands to the dense output are those of the step just taken: every subdiv_step starts from fresh (empty) lists, unconditionally, and every
    sub-step appends its piece, unconditionally.  Lists that survive a call under some condition carry the pieces of an EARLIER step into dense_output() whenever the
    extrapolation stops at a coarser level than the step before (possible from depth 6 on): duplicates are appended and the new step's range is left uncovered."""
    rid = run.rule(rule_id, "Richardson wrapper: subdiv_step empties both piece lists on every call and appends one piece per sub-step, with no condition on either", floor=2)
    fn = repo.get(ITY, extract.RICH + ".subdiv_step")
    run.analysed_fn(ITY, fn)
    names = {}
    for st in walk_no_nested(fn):
        if isinstance(st, ast.Assign) and isinstance(st.value, ast.List) and not st.value.elts and len(st.targets) == 1 and is_self_attr(st.targets[0]):
            names[st.targets[0].attr] = st
    if len(names) < 2:
        raise AnalysisError("subdiv_step: the two piece lists are not initialised as empty lists")
    for attr, st in sorted(names.items()):
        uncond = st in fn.body
        run.judged(rid, "`%s` is executed on every call of subdiv_step" % src(st), ok=uncond)
        if not uncond:
            run.report(rule_id, ITY, st, "the piece list `self.%s` is emptied only under a condition: when it is not, dense_output() returns the pieces of an earlier sub-division - of "
                                         "the previous STEP if this step's extrapolation stops at a coarser level - which are appended to the solution again (duplicate, unsorted "
                                         "knots) while the range of the step just taken stays uncovered" % attr, text="piece list %s emptied conditionally" % attr)
    loops = [st for st in fn.body if isinstance(st, ast.For)]
    apps = [c for c in ast.walk(fn) if isinstance(c, ast.Call) and isinstance(c.func, ast.Attribute) and c.func.attr == "append" and is_self_attr(c.func.value) and c.func.value.attr in names]
    if len(loops) != 1 or len(apps) < 2:
        raise AnalysisError("subdiv_step: the sub-step loop / the appends of its pieces were not found")
    for c in apps:
        st = c
        while not isinstance(st, ast.stmt):
            st = st._parent
        direct = st in loops[0].body
        run.judged(rid, "`%s` runs for every sub-step" % src(st)[:60], ok=direct)
        if not direct:
            run.report(rule_id, ITY, st, "a sub-step's piece is appended only under a condition: the pieces handed to the dense output are then not those of the step just taken",
                       text="piece append conditional")


def piece_store_single_writer(repo, run, rule_id="C06.16"):
    """The lookup bisects `t_eval`: every piece has to enter the store through the ONE place that decides front / back from the stored end times (the single-piece
    branch of add_interpolant: the mirrored insert(0) / append pair, or the first-piece initialisation).  A list of pieces (the sub-steps of a Richardson step) is added
    one by one through that branch; splicing a whole batch in directly puts the sub-steps of a backward step in stepping (descending) order, t_eval is locally
    unsorted and queries are answered by a neighbouring sub-interval."""
    rid = run.rule(rule_id, "who-may-write: in add_interpolant the piece lists are changed only by the mirrored insert(0)/append pair, the first-piece initialisation and an "
                            "order-preserving elementwise re-binding; a list argument is added element by element through that path", floor=1)
    add = repo.get(DS, "DenseOutput.add_interpolant")
    run.analysed_fn(DS, add)
    LISTS = ("t_eval", "y_interpolants")
    muts = []
    for x in ast.walk(add):
        if isinstance(x, ast.Call) and isinstance(x.func, ast.Attribute) and is_self_attr(x.func.value) and x.func.value.attr in LISTS and \
                x.func.attr in ("insert", "append", "extend", "pop", "remove", "sort", "reverse", "clear", "__setitem__"):
            muts.append((x, "%s.%s" % (x.func.value.attr, x.func.attr)))
        if isinstance(x, (ast.Assign, ast.AugAssign)):
            for t in (x.targets if isinstance(x, ast.Assign) else [x.target]):
                if isinstance(t, ast.Subscript) and is_self_attr(t.value) and t.value.attr in LISTS:
                    muts.append((x, "%s[%s] store" % (t.value.attr, src(t.slice))))
                if is_self_attr(t) and t.attr in LISTS:
                    v = x.value if isinstance(x, ast.Assign) else None
                    elementwise = isinstance(v, ast.ListComp) and len(v.generators) == 1 and is_self_attr(v.generators[0].iter) and v.generators[0].iter.attr == t.attr and not v.generators[0].ifs
                    single = isinstance(v, ast.List) and len(v.elts) == 1
                    if not (elementwise or single):
                        muts.append((x, "%s rebound to %s" % (t.attr, src(v)[:40] if v is not None else "?")))
    bad = []
    for x, what in muts:
        if what.endswith(".insert") or what.endswith(".append"):
            iff = next((a for a in ancestors(x) if isinstance(a, ast.If) and any(
                isinstance(n, ast.Subscript) and is_self_attr(n.value, "t_eval") for n in ast.walk(a.test))), None)
            if iff is not None:
                continue
        bad.append((x, what))
    run.judged(rid, "mutations of the piece lists in add_interpolant: %s" % [w for _, w in muts], ok=not bad)
    for x, what in bad:
        run.report(rule_id, DS, x, "add_interpolant changes the piece lists by `%s` outside the branch that decides the position from the stored end times: pieces spliced in as a "
                   "batch keep their stepping order (descending for a backward step), so `t_eval`, which every lookup bisects, is no longer sorted and queries inside the "
                   "step are answered by a neighbouring sub-interval" % what)
