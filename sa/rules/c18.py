"""C18 — the solve_ivp facade: keyword-to-source tables of the OdeSystem(...) and OdeResult(...) calls, binding of args,
time axis last, the step-clipping callback, direction discipline of t_eval handling."""
import ast

from .. import seeds
from ..front import AnalysisError, dotted, fname, is_self_attr, src, walk_no_nested, ancestors
from ..kind import KindEngine, Seeds

LEVEL = "other"
DS = "desolver/differential_system.py"

ODE_KW = {  # OdeSystem keyword -> source expression in solve_ivp (role)
    "equ_rhs": "fun", "y0": "y0", "t": "t_span", "dense_output": "dense_output", "dt": "<first_step>",
    "atol": "options.get('atol', None)", "rtol": "options.get('rtol', None)", "constants": "<constants>",
}
RESULT_KW = {
    "t": "<t_res>", "y": "<y_res>", "sol": "ode_system.sol", "t_events": "ode_system.events", "y_events": "ode_system.events",
    "nfev": "ode_system.nfev", "njev": "ode_system.njev", "status": "ode_system.integration_status",
    "message": "ode_system.integration_status", "success": "ode_system.success",
}


def run(repo, run, tier):
    run.assumptions += ["NOT decided: agreement with scipy.integrate.solve_ivp (numeric)"]
    fn = repo.get(DS, "solve_ivp")
    run.analysed_fn(DS, fn)
    construction(repo, run, fn)
    args_binding(repo, run, fn)
    result(repo, run, fn)
    axes(repo, run, fn)
    clipping(repo, run, fn)
    t_eval_rule(repo, run, fn)
    t_eval_multiset(repo, run, fn)
    first_step_bounded(repo, run, fn)
    clamped_step_bounded(repo, run)
    teval_values_are_integrated(repo, run, fn)
    # 'no recorded step is longer than max_step' also across rejected steps: the facade clips dt between steps, the integrator must never take more than it was given,
    # on any retry (each retry clamped to the requested step at the call)
    from .c05 import retry_step
    retry_step(repo, run, rule_id="C18.11", strict=True)
    own_callback_list(repo, run, fn)


def construction(repo, run, fn):
    rid = run.rule("C18.1", "OdeSystem(...) is built from solve_ivp's own arguments keyword by keyword (rtol<-rtol, atol<-atol, t<-t_span, ...), the method is "
                            "set from `method`, integrate() receives the events and callbacks", floor=8)
    calls = [c for c in ast.walk(fn) if isinstance(c, ast.Call) and dotted(c.func) == "OdeSystem"]
    if len(calls) != 1:
        raise AnalysisError("solve_ivp: expected one OdeSystem(...) construction")
    c = calls[0]
    from ..front import bind_call, semantic_text
    kw = bind_call(c, repo.get(DS, "OdeSystem.__init__"))
    sysname = src(c._parent.targets[0]) if isinstance(c._parent, ast.Assign) else "ode_system"
    # initial step: derived from options.get('first_step', ...) possibly clipped
    first = None
    for st in fn.body:
        if isinstance(st, ast.Assign) and isinstance(st.targets[0], ast.Name) and "first_step" in src(st.value):
            first = st.targets[0].id
    consts = None
    for st in fn.body:
        if isinstance(st, ast.Assign) and isinstance(st.targets[0], ast.Name) and isinstance(st.value, ast.Constant) and st.value.value is None:
            consts = st.targets[0].id
    for k, want in ODE_KW.items():
        got = semantic_text(repo, kw[k]) if k in kw else None
        want = semantic_text(repo, ast.parse(want, mode="eval").body) if not want.startswith("<") else want
        if want == "<first_step>":
            ok = got == first and first is not None
        elif want == "<constants>":
            ok = got == consts and consts is not None
        else:
            ok = got == want
        run.judged(rid, "OdeSystem(%s=%s)" % (k, got), ok=ok)
        if not ok:
            run.report("C18.1", DS, kw.get(k, c), "OdeSystem keyword `%s` is bound to `%s`, solve_ivp's contract binds it to %s" % (k, got, want), text="OdeSystem(%s=%s)" % (k, got))
    # ... and what those names hold is what the caller passed: a rebinding of the state parameter before the construction may convert it (asarray / astype / copy)
    # but not change its shape - `y` of the result is (*state shape, n_t) and the right-hand side is called with arrays of the state's shape, 0-d included
    SHAPE_PRESERVING = {"asarray", "asanyarray", "array", "ascontiguousarray", "astype", "copy", "to", "to_numpy", "clone", "detach", "float", "double"}
    SHAPE_CHANGING = {"atleast_1d", "atleast_2d", "atleast_3d", "reshape", "ravel", "flatten", "squeeze", "expand_dims", "unsqueeze", "view", "stack", "concatenate", "tile",
                      "broadcast_to", "transpose", "moveaxis", "swapaxes"}
    state_param = src(kw["y0"]) if "y0" in kw and isinstance(kw["y0"], ast.Name) else None
    if state_param is not None:
        rebinds = [st for st in walk_no_nested(fn) if isinstance(st, (ast.Assign, ast.AugAssign)) and
                   any(isinstance(t, ast.Name) and t.id == state_param for t in (st.targets if isinstance(st, ast.Assign) else [st.target]))]
        for st in rebinds:
            v = st.value
            chain, ok, why = [], not isinstance(st, ast.AugAssign), None
            while ok and not (isinstance(v, ast.Name) and v.id == state_param):
                if isinstance(v, ast.Call):
                    nm = (dotted(v.func) or src(v.func)).split(".")[-1]
                    chain.append(nm)
                    if nm in SHAPE_CHANGING:
                        ok, why = False, nm
                        break
                    if nm not in SHAPE_PRESERVING:
                        raise AnalysisError("solve_ivp: the state parameter is rebound through `%s`, a form the shape rule does not know" % nm)
                    v = v.func.value if isinstance(v.func, ast.Attribute) and nm in ("astype", "copy", "to", "clone", "detach", "float", "double") else (v.args[0] if v.args else None)
                    if v is None:
                        raise AnalysisError("solve_ivp: rebinding of the state parameter without an argument")
                elif isinstance(v, ast.Subscript):
                    ok, why = False, "indexing `%s`" % src(v)[:40]
                elif isinstance(v, ast.IfExp):
                    raise AnalysisError("solve_ivp: conditional rebinding of the state parameter")
                else:
                    raise AnalysisError("solve_ivp: the state parameter is rebound to `%s`, a form the shape rule does not know" % src(v)[:60])
            run.judged(rid, "state parameter rebinding `%s` keeps the shape (chain %s)" % (src(st)[:60], chain), ok=ok)
            if not ok:
                run.report("C18.1", DS, st, "the initial state is reshaped before the system is built (%s): a 0-d (scalar) state becomes shape (1,), so `y` of the result is "
                                            "(1, n_t) instead of (*state shape, n_t) = (n_t,), the right-hand side is called with arrays of another shape than the state it was "
                                            "given, and the result no longer matches OdeSystem driven with the same y0" % (why or "augmented assignment"),
                           text="state parameter reshaped: %s" % (why or "augmented assignment"))
    # method
    ms = [st for st in fn.body if isinstance(st, ast.Assign) and src(st.targets[0]) == sysname + ".method"]
    ok = len(ms) == 1 and src(ms[0].value) == "method"
    run.judged(rid, "%s.method = method" % sysname, ok=ok)
    if not ok:
        run.report("C18.1", DS, ms[0] if ms else fn, "the integration method requested by the caller is not set on the system", text="method assignment")
    # integrate options
    def _items(v):
        if isinstance(v, ast.Call) and dotted(v.func) == "dict" and not v.args:
            return {k.arg: src(k.value) for k in v.keywords}
        if isinstance(v, ast.Dict) and all(isinstance(k, ast.Constant) for k in v.keys):
            return {k.value: src(val) for k, val in zip(v.keys, v.values)}
        return None
    io = [st for st in fn.body if isinstance(st, ast.Assign) and _items(st.value) is not None and set(_items(st.value)) >= {"callback", "events"}]
    ok = len(io) == 1 and _items(io[0].value).get("events") == "events"
    run.judged(rid, "integrate options carry events=events and the callback list", ok=ok)
    if not ok:
        run.report("C18.1", DS, io[0] if io else fn, "events are not passed on to integrate()", text="integration options")
    if ok:
        optname = src(io[0].targets[0])
        ints = [c2 for c2 in ast.walk(fn) if isinstance(c2, ast.Call) and dotted(c2.func) == sysname + ".integrate"]
        ok2 = bool(ints) and all(any(k.arg is None and src(k.value) == optname for k in c2.keywords) for c2 in ints)
        run.judged(rid, "every integrate() call receives **%s" % optname, ok=ok2)
        if not ok2:
            run.report("C18.1", DS, ints[0] if ints else fn, "an integrate() call does not receive the integration options (events / callbacks)")


def _is_argnames(fn, node):
    """is ``node`` the list of positional parameter names of the (unwrapped) right-hand side: getfullargspec(f)[0] or .args, directly or through a local"""
    from ..sym import inline_locals
    env = inline_locals(fn)
    k = 0
    while isinstance(node, ast.Name) and node.id in env and k < 6:
        node, k = env[node.id], k + 1
    base = None
    if isinstance(node, ast.Subscript) and isinstance(node.slice, ast.Constant) and node.slice.value == 0:
        base = node.value
    elif isinstance(node, ast.Attribute) and node.attr == "args":
        base = node.value
    k = 0
    while isinstance(base, ast.Name) and base.id in env and k < 6:
        base, k = env[base.id], k + 1
    return isinstance(base, ast.Call) and (dotted(base.func) or "").endswith("getfullargspec")


def args_binding(repo, run, fn):
    rid = run.rule("C18.2", "args are bound, in order, to the right-hand side's parameters after (t, y): zip(argspec.args[2:], args)", floor=1)
    dc = [n for n in ast.walk(fn) if isinstance(n, ast.DictComp)]
    ok = False
    node = fn
    for d in dc:
        g = d.generators[0]
        if isinstance(g.iter, ast.Call) and fname(g.iter) == "zip" and len(g.iter.args) == 2:
            a0, a1 = g.iter.args
            node = d
            if src(a1) == "args" and isinstance(a0, ast.Subscript) and isinstance(a0.slice, ast.Slice) and a0.slice.lower is not None and src(a0.slice.lower) == "2" \
                    and a0.slice.upper is None and a0.slice.step is None and _is_argnames(fn, a0.value) and src(d.key) == src(g.target.elts[0]) and src(d.value) == src(g.target.elts[1]):
                ok = True
    # equivalent spelling: dict(zip(argspec[0][2:], args))
    for c in [c for c in ast.walk(fn) if isinstance(c, ast.Call) and dotted(c.func) == "dict" and len(c.args) == 1 and isinstance(c.args[0], ast.Call) and fname(c.args[0]) == "zip"]:
        z = c.args[0]
        if len(z.args) == 2:
            a0, a1 = z.args
            node = c
            if src(a1) == "args" and isinstance(a0, ast.Subscript) and isinstance(a0.slice, ast.Slice) and a0.slice.lower is not None and src(a0.slice.lower) == "2" \
                    and a0.slice.upper is None and a0.slice.step is None and _is_argnames(fn, a0.value):
                ok = True
    # ... of the args the caller passed: a rebinding of `args` before the zip may convert the sequence (tuple / list) but not wrap or re-group it -
    # `args = (args,)` for non-tuples binds a whole numpy array (which scipy unpacks) to the first parameter
    for st in walk_no_nested(fn):
        if isinstance(st, (ast.Assign, ast.AugAssign)) and any(isinstance(t, ast.Name) and t.id == "args" for t in (st.targets if isinstance(st, ast.Assign) else [st.target])):
            conv = isinstance(st, ast.Assign) and src(st.value) in ("tuple(args)", "list(args)", "args")
            run.judged(rid, "rebinding of args: `%s`" % src(st)[:60], ok=conv)
            if not conv:
                run.report("C18.2", DS, st, "`args` is re-grouped before it is bound to the parameter names (`%s`): an iterable that is not caught by the accompanying test (a numpy array, "
                                            "a generator) is bound as ONE parameter instead of element by element, the remaining parameters silently keep their defaults" % src(st)[:60],
                           text="args re-grouped before binding")
    run.judged(rid, "constants = {name: value for name, value in zip(argspec[0][2:], args)}", ok=ok)
    if not ok:
        run.report("C18.2", DS, node, "args are not bound to the right-hand side's parameters starting at the third (after t and y), in order")
    # unwrapping DiffRHS to the innermost function before inspecting the signature
    ok2 = any(isinstance(st, ast.While) and "isinstance(fn, DiffRHS)" in src(st.test) for st in ast.walk(fn))
    spec = [c for c in ast.walk(fn) if isinstance(c, ast.Call) and (dotted(c.func) or "").endswith("getfullargspec")]
    ok2 = ok2 and bool(spec)
    run.judged(rid, "signature taken from the unwrapped user function", ok=ok2)
    if not ok2:
        run.report("C18.2", DS, fn, "the parameter names are not read from the (unwrapped) user function's signature", text="argspec source")


def result(repo, run, fn):
    rid = run.rule("C18.3", "OdeResult(...) fields are taken from the underlying system field by field", floor=8)
    calls = [c for c in ast.walk(fn) if isinstance(c, ast.Call) and dotted(c.func) == "OdeResult"]
    if len(calls) != 1:
        raise AnalysisError("solve_ivp: expected one OdeResult(...) call")
    c = calls[0]
    kw = {k.arg: src(k.value) for k in c.keywords}
    for k, want in RESULT_KW.items():
        got = kw.get(k)
        ok = got == want if not want.startswith("<") else got is not None and got.endswith("_res")
        run.judged(rid, "OdeResult(%s=%s)" % (k, got), ok=ok)
        if not ok:
            run.report("C18.3", DS, c, "result field `%s` is `%s`, expected `%s` of the underlying system" % (k, got, want), text="OdeResult(%s=%s)" % (k, got))


def axes(repo, run, fn):
    rid = run.rule("C18.4", "the time axis is last in both branches: transpose(system.y, [1..n-1, 0]) / stack(y_res, axis=-1) with stack(t_res, axis=0); the "
                            "t_eval branch appends the last recorded sample after integrating to each requested time", floor=3)
    tr = [c for c in ast.walk(fn) if isinstance(c, ast.Call) and fname(c) == "transpose"]
    ok = False
    for c in tr:
        ax = next((k.value for k in c.keywords if k.arg == "axes"), c.args[1] if len(c.args) > 1 else None)
        if ax is not None and isinstance(ax, ast.List) and len(ax.elts) == 2 and isinstance(ax.elts[0], ast.Starred) and src(ax.elts[1]) == "0":
            r = ax.elts[0].value
            if isinstance(r, ast.Call) and dotted(r.func) == "range" and len(r.args) == 2 and src(r.args[0]) == "1" and "len(" in src(r.args[1]) and ".shape" in src(r.args[1]):
                ok = src(c.args[0]).endswith(".y")
    run.judged(rid, "no-t_eval branch: %s" % ([src(c)[:100] for c in tr]), ok=ok)
    if not ok:
        run.report("C18.4", DS, tr[0] if tr else fn, "the recorded states are not transposed to (*state_shape, n_t) (time axis last)", text="transpose axes")
    st_y = [c for c in ast.walk(fn) if isinstance(c, ast.Call) and fname(c) == "stack" and c.args and src(c.args[0]) == "y_res"]
    st_t = [c for c in ast.walk(fn) if isinstance(c, ast.Call) and fname(c) == "stack" and c.args and src(c.args[0]) == "t_res"]
    oky = len(st_y) == 1 and {k.arg: src(k.value) for k in st_y[0].keywords}.get("axis") == "-1"
    okt = len(st_t) == 1 and {k.arg: src(k.value) for k in st_t[0].keywords}.get("axis", "0") == "0"
    run.judged(rid, "t_eval branch: stack(y_res, axis=-1), stack(t_res, axis=0)", ok=oky and okt)
    if not (oky and okt):
        run.report("C18.4", DS, (st_y or st_t or [fn])[0], "the t_eval results are not stacked with the time axis last for y and first for t", text="stack axes")
    from ..sym import inline_locals, Canon
    cl = Canon(env=inline_locals(fn))
    loops = [st for st in ast.walk(fn) if isinstance(st, ast.For) and src(st.iter) == "t_eval"]
    okl = False
    for lp in loops:
        texts = []
        for s_ in lp.body:
            if isinstance(s_, ast.Expr) and isinstance(s_.value, ast.Call):
                texts.append(cl.text(s_.value).replace("ode_system.__getitem__", "ode_system"))
            else:
                texts.append(src(s_))
        tgt = src(lp.target)
        i_int = next((i for i, s in enumerate(texts) if ".integrate(" in s and "t=%s" % tgt in s.replace(" ", "")), None)
        i_t = next((i for i, s in enumerate(texts) if s.startswith("t_res.append(") and "[-1].t" in s), None)
        i_y = next((i for i, s in enumerate(texts) if s.startswith("y_res.append(") and "[-1].y" in s), None)
        okl = None not in (i_int, i_t, i_y) and i_int < i_t and i_int < i_y
    run.judged(rid, "t_eval loop: integrate(t) then append the last sample", ok=okl)
    if not okl:
        run.report("C18.4", DS, loops[0] if loops else fn, "the t_eval loop does not integrate to each requested time and record the last sample (t and y from the same row)",
                   text="t_eval loop")


def clipping(repo, run, fn, rule_id="C18.5"):
    rid = run.rule(rule_id, "the step-clipping callback is registered exactly when a bound was given and clips the MAGNITUDE of the signed step (sign(dt) * "
                            "clip(|dt|, min, max)), with max<-max_step and min<-min_step", floor=3)
    cb = None
    for st in ast.walk(fn):
        if isinstance(st, ast.FunctionDef) and st is not fn:
            cb = st
    if cb is None:
        run.judged(rid, "callback present", ok=False)
        run.report(rule_id, DS, fn, "no step-clipping callback is defined", text="missing clipping callback")
        return
    iff = cb._parent
    okreg = isinstance(iff, ast.If) and {"'max_step' in options", "'min_step' in options"} <= {src(v) for v in ast.walk(iff.test) if isinstance(v, ast.Compare)} and \
        isinstance(iff.test, ast.BoolOp) and isinstance(iff.test.op, ast.Or) and any(
            isinstance(s2, ast.Expr) and isinstance(s2.value, ast.Call) and src(s2.value.func).endswith(".append") and src(s2.value.args[0]) == cb.name for s2 in iff.body)
    run.judged(rid, "registered under `%s`" % (src(iff.test) if isinstance(iff, ast.If) else None), ok=okreg)
    if not okreg:
        run.report(rule_id, DS, cb, "the clipping callback is not registered exactly when max_step or min_step was given", text="clipping registration")
    p = cb.args.args[0].arg
    sd = Seeds(params={}, attrs={p + ".dt": "D"}, names={"min_step": "M", "max_step": "M"})
    ke = KindEngine(cb, sd, disciplines=("DIR",))
    vs = ke.check()
    stores = [st for st in cb.body if isinstance(st, ast.Assign) and src(st.targets[0]) == p + ".dt"]
    okk = not vs and len(stores) == 1 and ke.kind(stores[0].value) == "D"
    run.judged(rid, "clipping expression: %s  [kind %s]" % (src(stores[0].value) if stores else None, ke.kind(stores[0].value) if stores else None), ok=okk)
    if vs:
        run.report(rule_id, DS, vs[0].node, "DIR discipline: %s: for a decreasing t_span the signed step is clipped into [min_step, max_step] >= 0 and integration reverses or stalls" % vs[0].why)
    elif not okk:
        run.report(rule_id, DS, stores[0] if stores else cb, "the clipping callback does not store a signed step")
    # bounds bound correctly
    okb = False
    for c in [c for c in ast.walk(cb) if isinstance(c, ast.Call) and fname(c) == "clip"]:
        kw = {k.arg: src(k.value) for k in c.keywords}
        pos = [src(a) for a in c.args[1:]]
        lo = kw.get("min", kw.get("a_min", pos[0] if pos else None))
        hi = kw.get("max", kw.get("a_max", pos[1] if len(pos) > 1 else None))
        okb = lo == "min_step" and hi == "max_step"
    srcs = {src(st.targets[0]): src(st.value) for st in fn.body if isinstance(st, ast.Assign) and src(st.targets[0]) in ("max_step", "min_step")}
    okb = okb and srcs.get("max_step", "").startswith("options.get('max_step'") and srcs.get("min_step", "").startswith("options.get('min_step'")
    run.judged(rid, "clip(min=min_step, max=max_step) with the bounds read from options", ok=okb)
    if not okb:
        run.report(rule_id, DS, cb, "the clipping bounds are not (min_step, max_step) as given in the options: a recorded step can exceed max_step", text="clipping bounds")


def t_eval_rule(repo, run, fn):
    rid = run.rule("C18.6", "t_eval handling is direction-aware: sorting and the range test against t_span must not assume an increasing span", floor=1)
    sd = Seeds(params={"t_span": "Seq(T)", "t_eval": "Seq(T)"}, names={})
    ke = KindEngine(fn, sd, disciplines=("DIR",))
    vs = [v for v in ke.check() if any(isinstance(x, ast.Name) and x.id in ("t_eval", "t_span") for x in ast.walk(v.node))]
    run.judged(rid, "kinded operations on t_eval/t_span: %d, ill-kinded %d" % (len(ke.judged), len(vs)), ok=not vs)
    for v in vs:
        run.report("C18.6", DS, v.node, "DIR discipline: %s: with a decreasing t_span every t_eval is rejected (or visited in the wrong order)" % v.why)


MULTISET_PRESERVING = ("asarray", "array", "sort", "sorted", "copy", "astype", "atleast_1d", "ravel", "flip", "to_numpy", "list", "tuple")


def t_eval_multiset(repo, run, fn):
    """returns exactly those times: whatever solve_ivp does to the t_eval it was given before iterating over it must keep every requested time, with its
    multiplicity (a rearrangement, a conversion or a multiplication by the orientation sign) -- never a selection"""
    rid = run.rule("C18.7", "the t_eval that is iterated is the given one up to rearrangement: every rebinding of t_eval is built from conversions, sort, reversal "
                            "and multiplication by a scalar only (no unique/set/mask/slice: a repeated or boundary time would be dropped and the result would have "
                            "fewer columns than requested)", floor=1)
    defs = [st for st in walk_no_nested(fn) if isinstance(st, ast.Assign) and any(isinstance(t, ast.Name) and t.id == "t_eval" for t in st.targets)]

    def mentions(n):
        return any(isinstance(x, ast.Name) and x.id == "t_eval" for x in ast.walk(n))

    def ok_expr(n):
        if isinstance(n, ast.Name):
            return n.id == "t_eval", "name `%s`" % n.id
        if isinstance(n, ast.Call):
            f = fname(n)
            if f in MULTISET_PRESERVING and n.args and mentions(n.args[0]) and not any(mentions(a) for a in n.args[1:]):
                return ok_expr(n.args[0])
            if isinstance(n.func, ast.Attribute) and n.func.attr in ("copy", "astype", "ravel", "tolist") and mentions(n.func.value):
                return ok_expr(n.func.value)
            return False, "`%s(...)`" % (dotted(n.func) or src(n.func))
        if isinstance(n, ast.BinOp) and isinstance(n.op, (ast.Mult, ast.Div)):
            if mentions(n.left) and not mentions(n.right):
                return ok_expr(n.left)
            if mentions(n.right) and not mentions(n.left) and isinstance(n.op, ast.Mult):
                return ok_expr(n.right)
            return False, "`%s`" % src(n)[:60]
        if isinstance(n, ast.UnaryOp) and isinstance(n.op, (ast.USub, ast.UAdd)):
            return ok_expr(n.operand)
        if isinstance(n, ast.Subscript) and mentions(n.value) and isinstance(n.slice, ast.Slice) and n.slice.lower is None and n.slice.upper is None and \
                isinstance(n.slice.step, ast.UnaryOp) and isinstance(n.slice.step.op, ast.USub) and isinstance(n.slice.step.operand, ast.Constant) and n.slice.step.operand.value == 1:
            return ok_expr(n.value)
        return False, "`%s`" % src(n)[:60]
    for st in defs:
        if not mentions(st.value):
            ok, why = False, "a value that does not come from the given t_eval"
        else:
            ok, why = ok_expr(st.value)
        run.judged(rid, "t_eval rebound: %s" % src(st)[:110], ok=ok)
        if not ok:
            run.report("C18.7", DS, st, "t_eval is rebound through %s, which is not a rearrangement of the requested times: the result need not contain exactly the times "
                                        "that were asked for" % why)
    loops = [st for st in ast.walk(fn) if isinstance(st, ast.For) and mentions(st.iter)]
    okl = len(loops) == 1 and isinstance(loops[0].iter, ast.Name)
    run.judged(rid, "the requested times are visited by one loop over t_eval itself: %s" % [src(lp.iter)[:40] for lp in loops], ok=okl)
    if not okl:
        run.report("C18.7", DS, loops[0] if loops else fn, "the requested times are not visited by a single `for t in t_eval` loop (a selection or a transformed "
                                                          "sequence is iterated instead)", text="t_eval loop iterable")


# ------------------------------------------------------------------------------------------------
def first_step_bounded(repo, run, fn):
    """'no recorded step is longer than max_step': the clipping callback runs only AFTER a step has been recorded, so the FIRST step is bounded only if
    the initial step handed to OdeSystem is.  The value of the `dt` argument is followed back through the straight-line assignments before the
    construction (sequential substitution) and judged as a min/max/clip expression: it must be bounded above by max_step whatever the user's
    first_step is."""
    from ..front import bind_call, clone
    rid = run.rule("C18.8", "the initial step given to OdeSystem is bounded above by max_step on every path (minimum(., max_step) / clip applied to the user's "
                            "first_step, not only to its default): the clipping callback cannot act before the first step is recorded", floor=2)
    calls = [c for c in ast.walk(fn) if isinstance(c, ast.Call) and dotted(c.func) == "OdeSystem"]
    if len(calls) != 1:
        raise AnalysisError("solve_ivp: expected one OdeSystem(...) construction")
    kw = bind_call(calls[0], repo.get(DS, "OdeSystem.__init__"))
    if "dt" not in kw:
        raise AnalysisError("solve_ivp: OdeSystem(...) is not given dt")
    top = calls[0]
    while top._parent is not fn:
        top = top._parent
    env, opaque = {}, set()

    def subst(node):
        class T(ast.NodeTransformer):
            def visit_Name(self, n):
                if isinstance(n.ctx, ast.Load) and n.id in env and n.id not in opaque:
                    return clone(env[n.id])
                return n
        return T().visit(clone(node))
    for st in fn.body:
        if st is top:
            break
        if isinstance(st, ast.Assign) and len(st.targets) == 1 and isinstance(st.targets[0], ast.Name):
            env[st.targets[0].id] = subst(st.value)
            opaque.discard(st.targets[0].id)
        else:
            for n in ast.walk(st):      # anything assigned under control flow is not followed
                if isinstance(n, ast.Name) and isinstance(n.ctx, ast.Store):
                    opaque.add(n.id)

    def opt_key(e):
        if isinstance(e, ast.Call) and isinstance(e.func, ast.Attribute) and e.func.attr == "get" and e.args and isinstance(e.args[0], ast.Constant):
            return e.args[0].value
        return None
    value = subst(kw["dt"])

    def bounded(e):
        """True: e <= max_step always (given min_step <= max_step); False otherwise / unknown"""
        if opt_key(e) in ("max_step", "min_step"):
            return True
        if isinstance(e, ast.Call):
            f = fname(e)
            if f in ("minimum", "min", "fmin") and len(e.args) >= 2:
                return any(bounded(a) for a in e.args)
            if f in ("maximum", "max", "fmax") and len(e.args) >= 2:
                return all(bounded(a) for a in e.args)
            if f == "clip":
                hi = [k.value for k in e.keywords if k.arg in ("max", "a_max")] or (e.args[2:3])
                return bool(hi) and bounded(hi[0])
            if f in ("asarray", "array", "float", "abs", "absolute") and e.args:
                return bounded(e.args[0])
        if isinstance(e, ast.IfExp):
            return bounded(e.body) and bounded(e.orelse)
        return False
    mentions_first = any(opt_key(n) == "first_step" for n in ast.walk(value))
    run.judged(rid, "dt argument resolves to `%s`" % src(value)[:160], nontrivial=False)
    run.judged(rid, "the user's first_step reaches the initial step", ok=mentions_first)
    if not mentions_first:
        run.report("C18.8", DS, calls[0], "the initial step given to OdeSystem (`%s`) does not come from options['first_step']" % src(value)[:100], text="first_step not used")
        return
    ok = bounded(value)
    run.judged(rid, "initial step bounded above by max_step for every first_step", ok=ok)
    if not ok:
        run.report("C18.8", DS, calls[0], "the initial step `%s` is not bounded by max_step when the caller passes first_step (the bound is applied, if at all, only to the "
                                          "default): the first recorded step is then as long as first_step, and the clipping callback acts only from the second step on" % src(value)[:160],
                   text="initial step not bounded by max_step")


# ------------------------------------------------------------------------------------------------
def clamped_step_bounded(repo, run):
    """'no recorded step is longer than max_step': the facade bounds the first step (C18.8) and, through its callback, `dt` after every step (C18.5); the
    one step integrate() does not take from `dt` is the clamped last step `tf - t[counter]` of each integrate() call (one per t_eval point).  That step is
    within max_step only because the clamp is taken exactly when |dt| > |tf - t[counter]|: any slack (`1.01*|dt| > ...`) records a step up to that much
    longer than max_step, which the callback never sees."""
    from .c03 import _final_predicate
    from ..imodel import IntegrateModel
    rid = run.rule("C18.9", "the only step integrate() takes that is not the (clipped) dt -- the clamp `tf - t[counter]` of the last step of every integrate() call -- "
                            "is taken exactly when |self.dt| > |tf - t[counter]|, so its magnitude is below the clipped dt", floor=1)
    m = IntegrateModel(repo)
    fs = m.final_step()
    if fs is None or fs["clamp"] is None or "cond" not in fs:
        raise AnalysisError("integrate(): the clamp of the last step was not found")
    _final_predicate(run, rid, m, m.canon, fs, rule_id="C18.9")


def teval_values_are_integrated(repo, run, fn):
    """'with t_eval it returns exactly those times and the solution there to tolerance ... results agree with driving the object API': the states returned for t_eval are
    states the integrator was stopped at (integrate(t) per point, last recorded sample).  Values read off the dense output are cubic-Hermite interpolants, O(h^4) whatever
    the order of the method: with a high-order method taking long steps they miss the tolerance by orders of magnitude."""
    rid = run.rule("C18.10", "every value of the returned state array in the t_eval case comes from recorded samples (stack of the samples appended in the t_eval loop), on every "
                             "path: no path fills it from the dense output / an interpolant", floor=1)
    sysnames = {t.id for st in walk_no_nested(fn) if isinstance(st, ast.Assign) and isinstance(st.value, ast.Call) and dotted(st.value.func) == "OdeSystem"
                for t in st.targets if isinstance(t, ast.Name)}
    calls = [c for c in ast.walk(fn) if isinstance(c, ast.Call) and dotted(c.func) == "OdeResult"]
    ykw = next((k.value for k in calls[0].keywords if k.arg == "y"), None) if calls else None
    if not isinstance(ykw, ast.Name):
        raise AnalysisError("solve_ivp: OdeResult(y=<name>) not found")
    yname = ykw.id
    defs = [st for st in walk_no_nested(fn) if isinstance(st, ast.Assign) and any(isinstance(t, ast.Name) and t.id == yname for t in st.targets)]
    bad = []
    for st in defs:
        for x in ast.walk(st.value):
            if isinstance(x, ast.Call) and isinstance(x.func, ast.Attribute) and x.func.attr in ("sol", "grad") and isinstance(x.func.value, ast.Name) and x.func.value.id in sysnames:
                bad.append((st, x))
            if isinstance(x, ast.Call) and isinstance(x.func, ast.Name) and x.func.id in ("sol", "dense", "interp"):
                bad.append((st, x))
    run.judged(rid, "definitions of the returned state array `%s`: %d, read off the dense output: %d" % (yname, len(defs), len(bad)), ok=not bad)
    for st, x in bad:
        run.report("C18.10", DS, x, "the states returned for t_eval are read off the dense output (`%s`) instead of being the samples the integrator was stopped at: the dense output is a "
                   "cubic Hermite interpolant for every method, so with a high-order method (long steps) the returned columns miss the requested tolerance by orders of magnitude and "
                   "disagree with driving the object API point by point" % src(x)[:60])


def own_callback_list(repo, run, fn):
    """'results agree with driving the object API with the same settings': solve_ivp appends its step-clipping closure (which captures THIS call's max_step / min_step)
    to the list of callbacks it hands to integrate().  That list must be the facade's own: if it is the caller's list object, the closure stays in it, and a later
    solve_ivp call that is given the same list is still clipped by the earlier call's bounds (and the caller's list grows)."""
    rid = run.rule("C18.12", "the list solve_ivp appends its clipping callback to is a fresh list on every path that reaches the append (list(...), a list display, a copy), "
                             "never the object the caller passed in", floor=1)
    apps = [c for c in ast.walk(fn) if isinstance(c, ast.Call) and isinstance(c.func, ast.Attribute) and c.func.attr in ("append", "extend", "insert") and
            isinstance(c.func.value, ast.Name) and any(isinstance(a, ast.Name) for a in c.args)]
    cbname = None
    for c in apps:
        if any(isinstance(st, ast.FunctionDef) and st is not fn and any(isinstance(a, ast.Name) and a.id == st.name for a in c.args) for st in ast.walk(fn)):
            cbname = c.func.value.id
    if cbname is None:
        raise AnalysisError("solve_ivp: the registration of the clipping callback (an append to the callback list) was not found")
    defs = [st for st in walk_no_nested(fn) if isinstance(st, ast.Assign) and any(isinstance(t, ast.Name) and t.id == cbname for t in st.targets)]

    def fresh(v):
        if isinstance(v, (ast.List, ast.ListComp)):
            return True
        if isinstance(v, ast.Call) and (dotted(v.func) in ("list", "copy.copy", "copy.deepcopy") or (isinstance(v.func, ast.Attribute) and v.func.attr == "copy")):
            return True
        if isinstance(v, ast.BinOp) and isinstance(v.op, ast.Add) and (fresh(v.left) or fresh(v.right)):
            return True
        if isinstance(v, ast.IfExp):
            return fresh(v.body) and fresh(v.orelse)
        return False
    bad = [st for st in defs if not fresh(st.value)]
    # a binding that is not fresh is harmless only if every path from it to the append passes a fresh re-binding: with the straight-line / if-chain shapes used here,
    # a non-fresh binding followed by conditional re-bindings leaves the `else` (caller's list) path open unless the chain is exhaustive with fresh values
    exhaustive = False
    if bad and len(bad) == 1:
        st0 = bad[0]
        blk = st0._parent.body if hasattr(st0._parent, "body") else []
        nxt = blk[blk.index(st0) + 1] if st0 in blk and blk.index(st0) + 1 < len(blk) else None
        if isinstance(nxt, ast.If):
            chain, cur = [], nxt
            while isinstance(cur, ast.If):
                chain.append(cur.body)
                cur = cur.orelse[0] if len(cur.orelse) == 1 and isinstance(cur.orelse[0], ast.If) else (cur.orelse or None)
            exhaustive = cur is not None and all(any(isinstance(x, ast.Assign) and any(isinstance(t, ast.Name) and t.id == cbname for t in x.targets) and fresh(x.value)
                                                     for x in b) for b in chain + [cur])
    ok = not bad or exhaustive
    run.judged(rid, "callback list `%s`: bindings %s" % (cbname, [src(d.value)[:40] for d in defs]), ok=ok)
    if not ok:
        run.report("C18.12", DS, bad[0], "the callback list `%s` can be the object the caller passed in (`%s` without a copy on some path): solve_ivp appends its step-clipping closure to "
                   "it, so a later call given the same list still runs the clip of the EARLIER call (its max_step / min_step), and its time grid, states and counters no "
                   "longer agree with the object API driven with that call's settings" % (cbname, src(bad[0].value)[:50]))
