"""C01 — declared order of accuracy: exact order conditions on the folded coefficient tables, estimator
consistency, BCH words of the splitting compositions, error-expansion calculus of the Richardson
tableau."""
import ast
from fractions import Fraction

from .. import tab, extract
from ..absint import Interp, Domain, OPAQUE
from ..front import AnalysisError, dotted, fname, is_self_attr, src, norm, walk_no_nested

TOL = Fraction(1, 10 ** 10)
LEVEL = "other"
QUICK_MAX_TREE_ORDER = 14
THOROUGH_MAX_TREE_ORDER = 14


def run(repo, run, tier):
    classes, exp, imp = tab.load_tables(repo)
    run.trusted += ["Butcher's theorem (rooted-tree order conditions are necessary and sufficient for order p)",
                    "Butcher 1964: B(p), C(eta), D(zeta), p<=eta+zeta+1, p<=2eta+2 imply order p",
                    "BCH / free-algebra identity for the order of exp-compositions",
                    "asymptotic error expansion of one-step methods (Gragg/Hairer-Lubich) for the Neville calculus",
                    "python ast, fractions, int arithmetic; the analyser in /verif/sa"]
    run.assumptions += ["step() evaluates the Runge-Kutta map defined by the tables (that is property C02's clause)",
                        "float literals are folded with Python float arithmetic, which is what import-time evaluation computes"]
    r1 = run.rule("C01.1", "every shipped method resolves to a class with foldable __order__ and tables", floor=32)
    r2 = run.rule("C01.2", "row-sum condition and sum_i b_i Phi_i(t) = 1/gamma(t) for every rooted tree up to the declared "
                           "order (row of tableau_final that step() propagates), residual <= 1e-10", floor=29)
    r3 = run.rule("C01.3", "embedded estimator weights b_hat = b - w (w read from get_error_estimate) sum to one", floor=8)
    r4 = run.rule("C01.4", "all words of degree <= p of prod exp(a_i hA) exp(b_i hB) equal those of exp(h(A+B))", floor=3)
    r5 = run.rule("C01.5", "order of the entry returned by the Aitken-Neville tableau, by error-expansion calculus, "
                           "for every shipped base order and 2..5 levels: >= p, and > p from 3 levels", floor=100)
    maxtree = QUICK_MAX_TREE_ORDER if tier == "quick" else THOROUGH_MAX_TREE_ORDER

    prop_row, prop_stmt = extract.propagated_row(repo)
    run.analysed_fn(extract.ITYPES, extract.RK + ".step")
    dcol, kcol, upd, _ = extract.splitting_columns(repo)
    run.analysed_fn(extract.ITYPES, extract.SPLIT + ".step")
    run.extra["propagated_row"] = prop_row
    run.extra["splitting_columns"] = dict(drift=dcol, kick=kcol)
    total_conditions = 0
    info = {}
    for name in exp + imp:
        fc = classes[name]
        kind = tab.base_kind(fc)
        order = fc.attrs.get("__order__")
        ti = fc.table("tableau_intermediate")
        if not isinstance(order, (int, float)) or ti is None or int(order) != order or order < 1:
            raise AnalysisError("%s: __order__ or tableau_intermediate missing/not foldable (order=%r)" % (name, order))
        p = int(order)
        run.judged(r1, "%s: %s order %d, %d stages" % (name, kind, p, len(ti)))
        run.analysed_fn(fc.rel, name)
        if kind == "rk":
            tf = fc.table("tableau_final")
            if tf is None:
                raise AnalysisError("%s: tableau_final missing" % name)
            c, A, rows = tab.split_rk(ti, tf)
            s = len(A)
            if any(len(r) != s for r in A) or any(len(r) != s for r in rows):
                raise AnalysisError("%s: table shapes are not (s, s+1)/(r, s+1)" % name)
            if prop_row >= len(rows) or prop_row < -len(rows):
                raise AnalysisError("%s: propagated row %d outside tableau_final" % (name, prop_row))
            b = rows[prop_row]
            symmetric = tab.symmetric_residual(A, b) <= Fraction(1, 10 ** 13)
            info[name] = (p, symmetric)
            # row sums
            rs = max(abs(sum(A[i]) - c[i]) for i in range(s))
            okrs = rs <= TOL
            run.judged(r2, "%s row sums: max |sum_j a_ij - c_i| = %.3g" % (name, float(rs)), ok=okrs)
            if not okrs:
                run.report("C01.2", fc.rel, fc.attr_nodes["tableau_intermediate"],
                           "row-sum condition c_i = sum_j a_ij fails (residual %.3g): the stage times used by "
                           "compute_step are inconsistent with the stage coefficients" % float(rs),
                           qual=name, text="%s.tableau_intermediate row sums" % name)
            pe = min(p, maxtree)
            ncond, fails = tab.rk_order_residuals(A, b, c, pe, TOL)
            total_conditions += ncond
            ok = not fails
            suff = ""
            if p > pe:
                Bp, Ce, Dz = tab.simplifying_assumptions(A, b, c, TOL)
                suff_ok = Bp >= p and p <= Ce + Dz + 1 and p <= 2 * Ce + 2
                suff = "; beyond enumeration: B(%d) C(%d) D(%d)" % (Bp, Ce, Dz)
                if ok and not suff_ok:
                    raise AnalysisError("%s: order %d not decidable: trees up to %d hold but the simplifying "
                                        "assumptions B(%d),C(%d),D(%d) do not imply it" % (name, p, pe, Bp, Ce, Dz))
                total_conditions += Bp + Ce * s + Dz * s
            run.judged(r2, "%s: %d tree conditions up to order %d on row %d%s -> %s" % (
                name, ncond, pe, prop_row, suff, "hold" if ok else "FAIL %s" % (fails[:2],)), ok=ok)
            if not ok:
                n0, t0, res0 = fails[0]
                run.report("C01.2", fc.rel, fc.attr_nodes["tableau_final"],
                           "declared order %d but the order-%d condition of tree %s has residual %.3g (%d conditions fail); "
                           "attained order is %d" % (p, n0, t0, res0, len(fails), n0 - 1),
                           qual=name, text="%s order conditions: declared order %d, attained %d, first failing tree %s residual %.3g" % (
                               name, p, n0 - 1, t0, res0),
                           facts=dict(first_failures=fails[:5], attained_order=n0 - 1))
            # estimator
            if len(rows) == 2:
                form, ret, rel_e, fn_e = extract.error_estimate_form(repo, fc)
                run.analysed_fn(rel_e, fn_e)
                w = [sum(coef * rows[r][j] for r, coef in form.items()) for j in range(s)]
                bh = [b[j] - w[j] for j in range(s)]
                resid = abs(sum(bh) - 1)
                ok3 = resid <= TOL
                run.judged(r3, "%s: error weights %s, sum(b_hat)-1 = %.3g" % (
                    name, {k: str(v) for k, v in form.items()}, float(resid)), ok=ok3)
                if not ok3:
                    run.report("C01.3", fc.rel, fc.attr_nodes["tableau_final"],
                               "the embedded estimator b_hat = b - (%s) is not a consistent method: sum(b_hat) - 1 = %.3g" % (
                                   " + ".join("%s*row%s" % (v, k) for k, v in form.items()), float(resid)),
                               qual=name, text="%s estimator weights" % name)
            elif len(rows) != 1:
                raise AnalysisError("%s: tableau_final has %d rows" % (name, len(rows)))
        else:
            w = len(ti[0])
            if max(dcol, kcol) >= w:
                raise AnalysisError("%s: splitting table has %d columns, step reads column %d" % (name, w, max(dcol, kcol)))
            comp = [(r[dcol], r[kcol]) for r in ti]
            pal = all(comp[i] == comp[len(comp) - 1 - i] for i in range(len(comp)))
            info[name] = (p, pal)
            res = tab.composition_word_residual(comp, p)
            bad = [(n, float(v[0]), v[1]) for n, v in sorted(res.items()) if v[0] > TOL]
            total_conditions += sum(2 ** n for n in res)
            ok = not bad
            run.judged(r4, "%s: words up to degree %d -> %s" % (name, p, "hold" if ok else "FAIL %s" % (bad[:2],)), ok=ok)
            if not ok:
                n0, r0, w0 = bad[0]
                run.report("C01.4", fc.rel, fc.attr_nodes["tableau_intermediate"],
                           "declared order %d but the degree-%d word %s of the composition differs from exp(h(A+B)) by %.3g; "
                           "attained order for a generic separable problem is %d" % (p, n0, w0, r0, n0 - 1),
                           qual=name, text="%s composition order: declared %d, attained %d, first failing word %s residual %.3g" % (
                               name, p, n0 - 1, w0, r0),
                           facts=dict(first_failures=bad[:4], attained_order=n0 - 1))
    run.extra["order_conditions_evaluated"] = total_conditions
    richardson(repo, run, r5, info)
    adaptivity_switch(repo, run)
    # the order conditions above are conditions on the TABLE; they describe the computed step only if the stage loop evaluates every
    # stage of it with the arguments of the Runge-Kutta recursion (the compute_step part of C02.2, re-judged here)
    from .c02 import compute_step_part
    r7 = run.rule("C01.7", "the generic stage loop evaluates every stage i of the table at (t0 + c_i h, y0 + h sum_j a_ij k_j) and stores it at slot i "
                           "(no stage is skipped or carried over from another call): the computed step is the method the order conditions were checked for", floor=4)
    compute_step_part(repo, run, r7, rule_id="C01.7")
    # ... and, for the implicit methods, only if the stage SYSTEM handed to the nonlinear solver is the table's: every stage i evaluated at
    # (t0 + c_i h, y0 + h sum_j a_ij k_j); a stage pinned to a cached slope (e.g. the initial slope whenever c_i = 0) solves another method's equations
    from .c02 import stage_args
    stage_args(repo, run, rule_id="C01.8")
    # the BCH conditions of C01.4 are conditions on the composition exp(a_1 hA) exp(b_1 hB) ...: the splitting step has that order only if it IS that composition
    # (every sub-step evaluates the right-hand side once, at its own argument; no slope carried over from another call, whose constants may have changed)
    from .c02 import splitting_clock
    splitting_clock(repo, run, rule_id="C01.9")
    # ... and its stage clock is the integrator's own object: an in-place `+=` on `asarray(initial_time)` advances the CALLER's time when that is a 0-d array
    from .common import args_unmodified
    args_unmodified(repo, run, "C01.12", "desolver/integrators/integrator_types.py", ["ExplicitSymplecticIntegrator.step", "ExplicitSymplecticIntegrator.__call__",
                                                                                     "RungeKuttaIntegrator.step", "RungeKuttaIntegrator.__call__"],
                    "the step routines of the integrators")
    # 'Richardson wrappers with 2..5 levels': the class handed out for (basis, levels) is the one built for exactly those arguments
    from .common import instance_tables_are_class_tables
    instance_tables_are_class_tables(repo, run, "C01.11")
    from .common import memo_discipline
    memo_discipline(repo, run, "C01.10", ["desolver/integrators/integrator_types.py", "desolver/integrators/__init__.py", "desolver/integrators/integrator_template.py"],
                    "the integrator factories")


# ------------------------------------------------------------------------------------------------
class Exp:
    """error expansion: value = one * (exact increment) + sum_e coefs[e] * c_e h^(e+1)"""
    __slots__ = ("one", "coefs")

    def __init__(self, one, coefs):
        self.one, self.coefs = Fraction(one), dict(coefs)

    def lin(self, other, k1, k2):
        keys = set(self.coefs) | set(other.coefs)
        return Exp(k1 * self.one + k2 * other.one,
                   {e: k1 * self.coefs.get(e, 0) + k2 * other.coefs.get(e, 0) for e in keys})

    def scale(self, k):
        return Exp(self.one * k, {e: v * k for e, v in self.coefs.items()})

    def order(self):
        nz = [e for e, v in self.coefs.items() if v != 0]
        return min(nz) if nz else None


class _Self:
    pass


class _Stages(dict):
    pass


def _frac(x):
    if isinstance(x, bool):
        return None
    if isinstance(x, int):
        return Fraction(x)
    if isinstance(x, float):
        return Fraction(x)
    if isinstance(x, Fraction):
        return x
    return None


class RichDomain(Domain):
    def __init__(self, p, R, exps):
        self.p, self.R, self.exps = p, R, exps
        self.stages = _Stages()
        self.solver_dict = {}

    def attribute(self, obj, attr, node, interp):
        if isinstance(obj, _Self):
            if attr == "stage_values":
                return self.stages
            if attr == "basis_order":
                return float(self.p)
            if attr == "richardson_iter":
                return self.R
            if attr == "solver_dict":
                return self.solver_dict
        return NotImplemented

    def load_subscript(self, obj, idx, node, interp):
        if isinstance(obj, _Stages):
            if not (isinstance(idx, tuple) and len(idx) == 2 and all(isinstance(i, int) for i in idx)):
                raise AnalysisError("stage_values subscript not concrete in %s" % src(node))
            i, j = idx
            if i < 0:
                i += self.R
            if j < 0:
                j += self.R
            return obj.get((i, j), Exp(0, {}))      # never-written entry = the zero it was allocated with
        return NotImplemented

    def store_subscript(self, obj, idx, val, node, interp):
        if isinstance(obj, _Stages):
            if not (isinstance(idx, tuple) and len(idx) == 2 and all(isinstance(i, int) for i in idx)):
                raise AnalysisError("stage_values store not concrete in %s" % src(node))
            obj[idx] = val
            return True
        if isinstance(obj, dict):
            return True
        return NotImplemented

    def store_attribute(self, obj, attr, val, node, interp):
        return True

    def call(self, name, node, args, kwargs, interp):
        if name == "self.subdiv_step":
            n = args[-1] if len(args) >= 7 else kwargs.get("num_intervals")
            if not isinstance(n, int) or n < 1:
                raise AnalysisError("subdiv_step called with a non-concrete number of intervals: %s" % src(node))
            return (OPAQUE, (OPAQUE, Exp(1, {e: Fraction(1, n ** e) for e in self.exps})))
        if name == "self.check_converged":
            return (OPAQUE, OPAQUE)
        return NotImplemented

    def binop(self, op, a, b, node):
        ea, eb = isinstance(a, Exp), isinstance(b, Exp)
        if not (ea or eb):
            return NotImplemented
        if ea and eb:
            if isinstance(op, ast.Add):
                return a.lin(b, 1, 1)
            if isinstance(op, ast.Sub):
                return a.lin(b, 1, -1)
            return OPAQUE
        x, k = (a, _frac(b)) if ea else (b, _frac(a))
        if k is None:
            return OPAQUE
        if isinstance(op, ast.Mult):
            return x.scale(k)
        if isinstance(op, ast.Div) and ea:
            if k == 0:
                return OPAQUE
            return x.scale(1 / k)
        if isinstance(op, ast.Add) and k == 0:
            return x
        if isinstance(op, ast.Sub) and k == 0 and ea:
            return x
        return OPAQUE


def _returned_slot(repo):
    """Verify that __call__ takes its state increment from slot [1][1] of adaptive_richardson's result."""
    call = repo.get(extract.ITYPES, extract.RICH + ".__call__")
    name = None
    for st in walk_no_nested(call):
        if isinstance(st, ast.Assign) and isinstance(st.value, ast.Call) and dotted(st.value.func) == "self.adaptive_richardson":
            t = st.targets[0]
            if isinstance(t, ast.Tuple) and len(t.elts) >= 2 and isinstance(t.elts[1], ast.Tuple) and len(t.elts[1].elts) == 2 \
                    and isinstance(t.elts[1].elts[1], ast.Name):
                name = t.elts[1].elts[1].id
    if name is None:
        raise AnalysisError("anchor missing: `_, (_, dy), _ = self.adaptive_richardson(...)` in Richardson __call__")
    ok = False
    for st in walk_no_nested(call):
        if isinstance(st, ast.Assign) and any(is_self_attr(t, "dState") for t in st.targets):
            names = {n.id for n in ast.walk(st.value) if isinstance(n, ast.Name)}
            if names == {name}:
                ok = True
    if not ok:
        raise AnalysisError("Richardson __call__: self.dState is not assigned from the extrapolated increment `%s`" % name)
    return (1, 1)


def check_subdiv(repo):
    """subdiv_step(k, rhs, t0, y0, timestep, constants, N): N sub-steps of timestep/N chained from the
    accumulated time and state, returning (., (sum dt, sum dy)).  Returns list of problems."""
    fn = repo.get(extract.ITYPES, extract.RICH + ".subdiv_step")
    params = [a.arg for a in fn.args.args]
    if len(params) != 8:
        raise AnalysisError("subdiv_step signature changed: %s" % params)
    _, k, rhs, t0, y0, h, consts, N = params
    problems = []
    sub = None
    for st in fn.body:
        if isinstance(st, ast.Assign) and isinstance(st.value, ast.BinOp) and isinstance(st.value.op, ast.Div) and \
                isinstance(st.value.left, ast.Name) and st.value.left.id == h and isinstance(st.value.right, ast.Name) and \
                st.value.right.id == N and isinstance(st.targets[0], ast.Name):
            sub = st.targets[0].id
    if sub is None:
        problems.append((fn, "no `<sub> = %s / %s`: the sub-step is not the step divided by the number of intervals" % (h, N)))
        return problems, fn
    loop = [st for st in fn.body if isinstance(st, ast.For)]
    if len(loop) != 1 or not (isinstance(loop[0].iter, ast.Call) and dotted(loop[0].iter.func) == "range" and
                              len(loop[0].iter.args) == 1 and isinstance(loop[0].iter.args[0], ast.Name) and loop[0].iter.args[0].id == N):
        problems.append((fn, "the sub-step loop does not run `range(%s)` times" % N))
        return problems, fn
    loop = loop[0]
    acc_t = acc_y = None
    callst = None
    from ..sym import inline_locals
    env = {k: v for k, v in inline_locals(fn).items() if isinstance(v, ast.Subscript)}      # e.g. basis = self.basis_integrators[k]
    for st in loop.body:
        if isinstance(st, ast.Assign) and isinstance(st.value, ast.Call):
            f = st.value.func
            if isinstance(f, ast.Name) and f.id in env:
                f = env[f.id]
            if isinstance(f, ast.Subscript) and is_self_attr(f.value, "basis_integrators"):
                callst = st
    if callst is None:
        problems.append((loop, "no call of self.basis_integrators[k](...) in the sub-step loop"))
        return problems, fn
    cargs = callst.value.args
    if len(cargs) != 5:
        problems.append((callst, "basis integrator called with %d positional arguments" % len(cargs)))
        return problems, fn

    def plus(n, base):
        if isinstance(n, ast.BinOp) and isinstance(n.op, ast.Add) and isinstance(n.left, ast.Name) and n.left.id == base \
                and isinstance(n.right, ast.Name):
            return n.right.id
        if isinstance(n, ast.BinOp) and isinstance(n.op, ast.Add) and isinstance(n.right, ast.Name) and n.right.id == base \
                and isinstance(n.left, ast.Name):
            return n.left.id
        return None
    acc_t, acc_y = plus(cargs[1], t0), plus(cargs[2], y0)
    if acc_t is None or acc_y is None:
        problems.append((callst, "sub-steps do not start from (initial_time + accumulated time, initial_state + accumulated increment)"))
        return problems, fn
    if not (isinstance(cargs[4], ast.Name) and cargs[4].id == sub):
        problems.append((callst, "sub-steps are not taken with the divided step `%s`" % sub))
    tgt = callst.targets[0]
    try:
        dtz, dyz = tgt.elts[1].elts[0].id, tgt.elts[1].elts[1].id
    except Exception:
        problems.append((callst, "result of the basis integrator is not unpacked as (_, (dt, dy))"))
        return problems, fn
    seen = set()
    for st in loop.body:
        if isinstance(st, ast.Assign) and isinstance(st.targets[0], ast.Name):
            nm = st.targets[0].id
            if nm == acc_t and plus(st.value, acc_t) == dtz:
                seen.add("t")
            if nm == acc_y and plus(st.value, acc_y) == dyz:
                seen.add("y")
        if isinstance(st, ast.AugAssign) and isinstance(st.op, ast.Add) and isinstance(st.target, ast.Name) and isinstance(st.value, ast.Name):
            if st.target.id == acc_t and st.value.id == dtz:
                seen.add("t")
            if st.target.id == acc_y and st.value.id == dyz:
                seen.add("y")
    if seen != {"t", "y"}:
        problems.append((loop, "accumulation of the sub-steps' (dt, dy) into (%s, %s) not found" % (acc_t, acc_y)))
    rets = [st for st in walk_no_nested(fn) if isinstance(st, ast.Return)]
    okret = False
    for r in rets:
        v = r.value
        if isinstance(v, ast.Tuple) and len(v.elts) == 2 and isinstance(v.elts[1], ast.Tuple) and len(v.elts[1].elts) == 2 and \
                isinstance(v.elts[1].elts[1], ast.Name) and v.elts[1].elts[1].id == acc_y and \
                isinstance(v.elts[1].elts[0], ast.Name) and v.elts[1].elts[0].id == acc_t:
            okret = True
    if not okret or len(rets) != 1:
        problems.append((fn, "subdiv_step does not return (., (accumulated dt, accumulated dy))"))
    return problems, fn


def richardson(repo, run, r5, info):
    fn = repo.get(extract.ITYPES, extract.RICH + ".adaptive_richardson")
    run.analysed_fn(extract.ITYPES, fn)
    slot = _returned_slot(repo)
    run.analysed_fn(extract.ITYPES, extract.RICH + ".__call__")
    problems, sfn = check_subdiv(repo)
    run.analysed_fn(extract.ITYPES, sfn)
    run.judged(r5, "subdiv_step chains N sub-steps of timestep/N and returns their sums", ok=not problems)
    for node, why in problems:
        run.report("C01.5", extract.ITYPES, node, why)
    params = [a.arg for a in fn.args.args]
    if len(params) != 6:
        raise AnalysisError("adaptive_richardson signature changed: %s" % params)
    # statements that define the tableau: used as the reported construct
    from ..sym import inline_locals
    env_loc = inline_locals(fn)
    rec = [st for st in ast.walk(fn) if isinstance(st, ast.Assign) and isinstance(st.targets[0], ast.Subscript)
           and is_self_attr(st.targets[0].value, "stage_values") and any(
               isinstance(n, ast.Subscript) and is_self_attr(n.value, "stage_values") for n in ast.walk(extract._subst(st.value, env_loc)))]
    rets = [st for st in walk_no_nested(fn) if isinstance(st, ast.Return)]
    if not rec or len(rets) != 1:
        raise AnalysisError("anchor missing: Neville recurrence / single return in adaptive_richardson")
    construct = norm(src(rec[-1])) + " ; " + norm(src(rets[0]))
    failing = []
    judged = 0
    for name, (p, sym) in sorted(info.items()):
        for R in (2, 3, 4, 5):
            if sym:
                first = p if p % 2 == 0 else p + 1
                exps = [first + 2 * k for k in range(R + 2)]
            else:
                exps = [p + k for k in range(2 * R + 2)]
            dom = RichDomain(p, R, exps)
            it = Interp(dom)
            args = {params[0]: _Self()}
            for a in params[1:]:
                args[a] = OPAQUE
            orders = set()
            bad_one = False
            npaths = 0
            # each path needs a fresh store
            gen = it.all_paths(fn, args)
            while True:
                dom.stages.clear()
                try:
                    outcome, val, _ = next(gen)
                except StopIteration:
                    break
                npaths += 1
                if outcome != "return":
                    continue
                try:
                    v = val[slot[0]][slot[1]]
                except Exception:
                    raise AnalysisError("adaptive_richardson does not return a tuple with slot [1][1]")
                if not isinstance(v, Exp):
                    raise AnalysisError("the value returned by adaptive_richardson is not a linear combination of "
                                        "sub-step results the calculus can follow: %s" % src(rets[0]))
                if v.one != 1:
                    bad_one = True
                o = v.order()
                orders.add(10 ** 6 if o is None else o)
            judged += 1
            lo = min(orders) if orders else None
            ok = (not bad_one) and lo is not None and lo >= p and (R < 3 or lo > p)
            run.judged(r5, "%s (p=%d, %s) levels=%d: paths=%d orders=%s" % (
                name, p, "symmetric" if sym else "general", R, npaths, sorted(orders)), ok=ok)
            if not ok:
                failing.append((name, p, R, lo, bad_one))
    if failing:
        ex = failing[:6]
        run.report("C01.5", extract.ITYPES, rec[-1],
                   "the extrapolated value handed back does not have the order the property requires for %d of %d "
                   "(method, levels) combinations, e.g. %s (format: method, declared order p, levels, order of returned entry%s)" % (
                       len(failing), judged, [(a, b, c, d) for a, b, c, d, _ in ex],
                       "; weights do not sum to one" if any(f[4] for f in failing) else ""),
                   text=construct, facts=dict(failing=[list(f) for f in failing[:40]]))


# ------------------------------------------------------------------------------------------------
def adaptivity_switch(repo, run):
    """The Richardson wrapper asks its base integrators to stop adapting (`integrator.is_adaptive = False`): extrapolation combines results
    of 1, 2, 4, ... EQUAL sub-steps of the same span, which a base method that shortens or retries its own steps does not deliver."""
    from ..sym import BoolTracker, eval_bool, tree_atoms
    import itertools
    rid = run.rule("C01.6", "the wrapper's request `base.is_adaptive = False` makes the base's is_adaptive property false whatever the table: the getter is "
                            "evaluated as a boolean function of (_adaptive, the value stored by the setter)", floor=2)
    init = repo.get(extract.ITYPES, extract.RICH + ".__init__")
    run.analysed_fn(extract.ITYPES, init)
    req = [st for st in ast.walk(init) if isinstance(st, ast.Assign) and isinstance(st.targets[0], ast.Attribute) and st.targets[0].attr == "is_adaptive"
           and isinstance(st.value, ast.Constant) and st.value.value is False]
    run.judged(rid, "wrapper switches base adaptivity off: %s" % [src(s) for s in req], ok=bool(req))
    if not req:
        run.report("C01.6", extract.ITYPES, init, "the Richardson wrapper does not switch off the step adaptation of its base integrators", text="missing is_adaptive = False")
        return
    getter = repo.get(extract.ITYPES, "TableauIntegrator.is_adaptive")
    setter = repo.get(extract.ITYPES, "TableauIntegrator.is_adaptive@setter")
    run.analysed_fn(extract.ITYPES, getter)
    sp = [a.arg for a in setter.args.args][1]
    stored = None
    for st in setter.body:
        if isinstance(st, ast.Assign) and is_self_attr(st.targets[0]):
            v = st.value
            neg = False
            if isinstance(v, ast.UnaryOp) and isinstance(v.op, ast.Not):
                v, neg = v.operand, True
            if isinstance(v, ast.Name) and v.id == sp:
                stored = (st.targets[0].attr, neg)
    if stored is None:
        raise AnalysisError("is_adaptive setter does not store its argument")
    rets = [st for st in getter.body if isinstance(st, ast.Return)]
    tree = BoolTracker().tree(rets[0].value)
    atoms = tree_atoms(tree)
    key = "self." + stored[0]
    bad = None
    for vals in itertools.product((False, True), repeat=len(atoms)):
        asg = dict(zip(atoms, vals))
        if key in asg:
            asg[key] = (not False) if stored[1] else False      # value stored by `x.is_adaptive = False`
        if eval_bool(tree, asg):
            bad = dict(asg)
            break
    ok = key in atoms and bad is None
    run.judged(rid, "getter `%s` after setter stored %s%s=False" % (src(rets[0].value), "not " if stored[1] else "", sp), ok=ok)
    if not ok:
        run.report("C01.6", extract.ITYPES, rets[0], "after `integrator.is_adaptive = False` the property still evaluates to True (e.g. with %s): the base methods of a Richardson "
                                                     "wrapper keep adapting, shortening and retrying their own sub-steps, so the tableau combines results over different spans" % (
                                                         {k: v for k, v in (bad or {}).items()},), text="is_adaptive getter/setter: %s" % src(rets[0].value))
