"""C02 — one step is the Runge-Kutta update: table layout agreement between writers and readers,
stage-argument formulas by polynomial normal form, propagated increment, Newton-acceptance typestate."""
import ast
from fractions import Fraction

from .. import extract, tab
from ..flow import Engine, Client, tri_eval
from ..front import (ancestors, AnalysisError, dotted, fname, is_self_attr, src, walk_no_nested, const_value, qualname_of,
                     enclosing_function)
from ..sym import Canon, Poly, inline_locals, bool_atoms, truth_table

LEVEL = "other"
ITY = extract.ITYPES
RKM = "desolver/integrators/components/runge_kutta_methods.py"
IMP = tab.IMPLICIT


def tmpl(s):
    t = ast.parse(s, mode="eval").body
    return t


def T(s, **kw):
    return Canon(**kw).poly(tmpl(s))


def run(repo, run, tier):
    run.assumptions += ["real arithmetic: 'to rounding' / 'to the solver tolerance' equality of the returned numbers is not decided",
                        "the tables have the (s, s+1) = [c | A], (r, s+1) = [. | b] layout (verified on the folded tables)"]
    every_return_steps(repo, run)
    layout(repo, run)
    stage_args(repo, run)
    stage_time_uncast(repo, run)
    increment(repo, run)
    newton(repo, run)
    splitting_clock(repo, run)
    stage_tolerance(repo, run)
    # 'never handed back as accepted': the integrator accepts a stage solve iff the LAST slot of nonlinear_roots' result is below its tolerance, so
    # every return site of nonlinear_roots must put the residual norm there (a step norm can be tiny while the stage equations are far from solved)
    from .c15 import slots
    slots(repo, run, rule_id="C02.7")
    current_integrator_is_called(repo, run)
    own_stage_storage(repo, run)


def stage_time_uncast(repo, run):
    """'the stage slopes are the right-hand side at t + c_i h': the time handed to the right-hand side keeps the precision of the clock.  A cast of the stage time to the
    dtype of the table / the state (float32 state with a float64 clock at t = 3000, h = 1e-2) rounds t + c_i h to the resolution of the narrower type (1.2e-4 there):
    every stage of a time-dependent right-hand side is then evaluated at the wrong time."""
    rid = run.rule("C02.11", "the time argument of every right-hand-side evaluation of the Runge-Kutta stage code (compute_step, algebraic_system, the splitting step) is free of "
                             "dtype conversions to anything but the clock's own dtype", floor=3)
    sites = [(RKM, "compute_step"), (ITY, "RungeKuttaIntegrator.algebraic_system"), (ITY, "ExplicitSymplecticIntegrator.step")]
    for rel, q in sites:
        fn = repo.maybe(rel, q)
        if fn is None:
            raise AnalysisError("%s not found" % q)
        env = inline_locals(fn)
        params = [a.arg for a in fn.args.args]
        rname = "rhs" if "rhs" in params else None
        calls = [c for c in ast.walk(fn) if isinstance(c, ast.Call) and isinstance(c.func, ast.Name) and c.func.id == (rname or "rhs") and c.args]
        if not calls:
            raise AnalysisError("%s: no right-hand-side evaluation found" % q)
        for c in calls:
            a, k = c.args[0], 0
            seen = []
            def casts(e, depth=0):
                out = []
                for x in ast.walk(e):
                    if isinstance(x, ast.Name) and x.id in env and depth < 6 and x.id not in seen:
                        seen.append(x.id)
                        out += casts(env[x.id], depth + 1)
                    if isinstance(x, ast.Call):
                        nm = (dotted(x.func) or src(x.func)).split(".")[-1]
                        dt = [kw.value for kw in x.keywords if kw.arg == "dtype"]
                        if nm in ("astype", "to", "type") and x.args:
                            dt = dt or [x.args[-1]]
                        for d in dt:
                            if not any(t_ in src(d) for t_ in ("initial_time", "timestep", "current_time", "time.dtype")):
                                out.append((x, src(d)))
                return out
            bad = casts(a)
            run.judged(rid, "%s: time argument `%s` of the right-hand side carries no foreign dtype conversion" % (q, src(a)[:50]), ok=not bad)
            for x, d in bad[:1]:
                run.report("C02.11", rel, c, "the time handed to the right-hand side is converted to dtype `%s` (`%s`): with a clock wider than that type (float64 time, float32 state) "
                                             "the stage time t + c_i*h is rounded to the resolution of the narrower type - at t = 3000 that is 1.2e-4, of the order of the step - and "
                                             "the stage slopes of a time-dependent right-hand side are evaluated at the wrong times" % (d, src(x)[:70]), text="stage time cast to %s" % d)


def every_return_steps(repo, run):
    """the increment a Runge-Kutta integrator hands back is the one its step() computed from the table: no return of __call__ (or of the splitting step) comes before
    the stage sweep - a 'nothing to do' short-cut keyed on t + h == t also swallows every non-zero step below the resolution of the clock (t = 1.7e9, h = 1e-7),
    where h*f is far from zero"""
    from .common import returns_pass_through
    returns_pass_through(repo, run, "C02.10", ITY, "RungeKuttaIntegrator.__call__",
                         [("a call of self.step(...)", lambda st: any(isinstance(c, ast.Call) and dotted(c.func) == "self.step" for c in ast.walk(st)) and
                           not isinstance(st, (ast.If, ast.For, ast.While, ast.Try, ast.With)))],
                         "the Runge-Kutta driver", "the increment handed back is not h * sum_i b_i k_i of the stage recursion (and the stage array is not the table's)")
    returns_pass_through(repo, run, "C02.10", ITY, "ExplicitSymplecticIntegrator.step",
                         [("the stage loop (the loop that evaluates the right-hand side)", lambda st: isinstance(st, ast.For) and any(isinstance(c, ast.Call) and dotted(c.func) == "rhs" for c in ast.walk(st)))],
                         "the splitting step", "the increment handed back is whatever the instance held from the previous call")


# ------------------------------------------------------------------------------------------------
def _table_shapes(repo, run, rid):
    classes, exp, imp = tab.load_tables(repo)
    for name in exp + imp:
        fc = classes[name]
        ti = fc.table("tableau_intermediate")
        if tab.base_kind(fc) == "rk":
            tf = fc.table("tableau_final")
            ok = all(len(r) == len(ti) + 1 for r in ti) and all(len(r) == len(ti) + 1 for r in tf) and 1 <= len(tf) <= 2
            run.judged(rid, "%s: tableau_intermediate %dx%d, tableau_final %dx%d" % (name, len(ti), len(ti[0]), len(tf), len(tf[0])), ok=ok)
            if not ok:
                run.report("C02.1", fc.rel, fc.node, "table shapes are not (s, s+1) and (1|2, s+1): the readers' slices [i,0] / [i,1:] would "
                                                      "mis-assign coefficients", qual=name, text="%s table shapes" % name)
        else:
            ok = all(len(r) == 3 for r in ti)
            run.judged(rid, "%s: splitting table %dx%d" % (name, len(ti), len(ti[0])), ok=ok)
            if not ok:
                run.report("C02.1", fc.rel, fc.node, "splitting table is not (N, 3)", qual=name, text="%s table shape" % name)


def layout(repo, run):
    rid = run.rule("C02.1", "every subscript of a coefficient table uses the layout the tables are written in: column 0 = c, "
                            "columns 1: = A row / b, column 1+j = a_ij, row 0 of tableau_final = b, row 1 = b_hat; splitting: "
                            "columns 1, 2 = drift, kick", floor=40)
    _table_shapes(repo, run, rid)
    sites = []
    for rel in (ITY, RKM, IMP):
        mod = repo.module(rel)
        for fn in [n for n in mod.index.values() if isinstance(n, ast.FunctionDef)]:
            aliases = _table_aliases(fn)
            for n in walk_no_nested(fn):
                if isinstance(n, ast.Subscript):
                    base = n.value
                    kind = _table_base(base, aliases)
                    if kind is None:
                        continue
                    # skip the inner half of  T[i][1:]
                    par = n._parent
                    if isinstance(par, ast.Subscript) and par.value is n and kind[0] != "row":
                        continue
                    sites.append((rel, fn, n, kind))
    for rel, fn, n, kind in sites:
        split_ctx = qualname_of(fn).startswith(extract.SPLIT + ".")
        ok, why = _classify(n, kind, split_ctx)
        run.judged(rid, "%s::%s  %s" % (rel.split("/")[-1], qualname_of(fn), src(n)), ok=ok)
        run.analysed_fn(rel, fn)
        if not ok:
            run.report("C02.1", rel, n, why)


def _table_aliases(fn):
    """names bound to a whole table or to one row of tableau_intermediate inside fn"""
    al = {}
    qn = qualname_of(fn)
    if qn == "compute_step":
        params = [a.arg for a in fn.args.args]
        if len(params) >= 7:
            al[params[6]] = ("table", "tableau_intermediate")
    for n in ast.walk(fn):
        if isinstance(n, (ast.For, ast.comprehension)) and isinstance(n.target, ast.Name) and is_self_attr(n.iter, "tableau_intermediate"):
            al[n.target.id] = ("row", "tableau_intermediate")
        if isinstance(n, ast.Assign) and len(n.targets) == 1 and isinstance(n.targets[0], ast.Name):
            v = n.value
            if isinstance(v, ast.Subscript) and is_self_attr(v.value, "tableau_intermediate") and not isinstance(v.slice, (ast.Tuple, ast.Slice)):
                al[n.targets[0].id] = ("row", "tableau_intermediate")
    return al


def _table_base(base, aliases):
    if is_self_attr(base) and base.attr in ("tableau_intermediate", "tableau_final"):
        return ("table", base.attr)
    if isinstance(base, ast.Name) and base.id in aliases:
        return aliases[base.id]
    # T[i][...]  -> row of T
    if isinstance(base, ast.Subscript) and not isinstance(base.slice, (ast.Tuple, ast.Slice)):
        inner = _table_base(base.value, aliases)
        if inner and inner[0] == "table":
            return ("row", inner[1], base.slice)
    # self.__class__.tableau_x  (constructor copies)
    d = dotted(base)
    if d in ("self.__class__.tableau_intermediate", "self.__class__.tableau_final"):
        return None
    return None


def _col_ok(col, row, split_ctx, table):
    """col: ast node of the column index/slice"""
    if isinstance(col, ast.Slice):
        if col.step is not None or col.upper is not None or col.lower is None:
            return False, "slice %s does not select 'all coefficient columns' (1:)" % src(col)
        try:
            if const_value(col.lower) == 1:
                return True, ""
        except ValueError:
            pass
        # explicitness test  [i, i+1:]
        if row is not None and table == "tableau_intermediate":
            c = Canon()
            if c.poly(col.lower) == c.poly(row) + Poly.const(1) + Poly.const(0):
                return True, ""
            if c.poly(col.lower) == c.poly(row) + Poly.const(2) - Poly.const(1):
                return True, ""
        return False, "coefficient slice starts at %s, not at column 1 (column 0 holds c_i): a coefficient is dropped or the node c_i is used as a weight" % src(col.lower)
    try:
        v = const_value(col)
        if v == 0:
            return True, ""
        if split_ctx and v in (1, 2):
            return True, ""
        return False, "constant column %s is not a column this layout defines (0 = c%s)" % (v, ", 1/2 = drift/kick" if split_ctx else "")
    except ValueError:
        pass
    # 1 + j
    p = Canon().poly(col)
    if p.get((), 0) == 1 and len(p) >= 2:
        return True, ""
    return False, "column index %s is not of the form 1 + j (column 0 holds c_i)" % src(col)


def _classify(n, kind, split_ctx):
    sl = n.slice
    if kind[0] == "table":
        table = kind[1]
        if isinstance(sl, ast.Tuple) and len(sl.elts) == 2:
            row, col = sl.elts
            ok, why = _col_ok(col, row, split_ctx, table)
            if not ok:
                return ok, why
            if table == "tableau_final":
                try:
                    r = const_value(row)
                except ValueError:
                    return False, "row of tableau_final is not a constant: %s" % src(row)
                if r not in (0, 1):
                    return False, "row %s of tableau_final: only row 0 (b) and row 1 (b_hat / error weights) exist in this layout" % r
            return True, ""
        if isinstance(sl, (ast.Tuple, ast.Slice)):
            return False, "unsupported table subscript %s" % src(n)
        return True, ""       # a single row: judged where the row is used
    # row alias / T[i][...]
    table = kind[1]
    if isinstance(sl, ast.Tuple):
        return False, "row of %s subscripted with a tuple" % table
    ok, why = _col_ok(sl, None, split_ctx, table)
    if ok and table == "tableau_final" and len(kind) > 2:
        try:
            r = const_value(kind[2])
            if r not in (0, 1):
                return False, "row %s of tableau_final does not exist in this layout" % r
        except ValueError:
            return False, "row of tableau_final is not a constant"
    return ok, why


# ------------------------------------------------------------------------------------------------
def _mask_hook(maskvars, used):
    def hook(node, canon):
        if isinstance(node, ast.Subscript):
            sl = node.slice
            last = sl.elts[-1] if isinstance(sl, ast.Tuple) else sl
            if isinstance(last, ast.Name) and last.id in maskvars:
                others = sl.elts[:-1] if isinstance(sl, ast.Tuple) else []
                if all(isinstance(o, ast.Constant) and o.value is Ellipsis for o in others):
                    used.append(last.id)
                    return canon.poly(node.value)
        return None
    return hook


def compute_step_part(repo, run, rid, rule_id="C02.2"):
    fn = repo.get(RKM, "compute_step")
    run.analysed_fn(RKM, fn)
    # semantic verdict (E-EIN: the stage loop interpreted with concrete stages and abstract state axes); the normal-form comparisons below decide only what lies
    # outside its domain, and are overruled by a definite 'ok' (another way of writing the same stage formula is not a violation)
    from .. import ein
    verdict, detail = ein.with_stage_counts(ein.compute_step_verdict, (3,) if getattr(run, 'tier', 'quick') == 'quick' else (2, 3, 4, 5, 6), fn)

    class _R:
        def judged(self, rid_, what, ok=True, **kw):
            run.judged(rid_, what + (" [interpreted: ok]" if verdict == "ok" and not ok else ""), ok=ok or verdict == "ok", **kw)

        def report(self, *a, **kw):
            if verdict != "ok":
                run.report(*a, **kw)
    _run, run_ = run, _R()
    if verdict == "bad":
        run.judged(rid, "compute_step interpreted over %d concrete stages: %s" % (ein.NS, detail[:100]), ok=False)
        run.report(rule_id, RKM, fn, "the generic stage loop, interpreted with %d concrete stages and the state's axes kept abstract, does not evaluate stage i at (t0 + c_i h, "
                   "y0 + h sum_j a_ij k_j) and store it at [..., i]: %s" % (ein.NS, detail), text="compute_step interpreted: %s" % detail[:110])
    else:
        run.judged(rid, "compute_step interpreted over %d concrete stages: %s" % (ein.NS, verdict if verdict != "ok" else detail[:90]), nontrivial=verdict == "ok")
    P = [a.arg for a in fn.args.args]
    ndef = len(fn.args.defaults)
    if len(P) < 8 or len(P) - ndef > 7:
        raise AnalysisError("compute_step signature changed: %s" % P)
    # parameters added after the eight known ones must have defaults (callers that do not pass them get the full stage loop)
    roles = dict(zip(P, ["rhs", "t0", "y0", "h", "Sin", "Sout", "TAB", "kw"]))
    loops = [st for st in fn.body if isinstance(st, ast.For)]
    if len(loops) != 1 or not isinstance(loops[0].target, ast.Name):
        raise AnalysisError("compute_step: expected one stage loop")
    loop = loops[0]
    roles[loop.target.id] = "stage"
    # loop range: all stages
    c0 = Canon(rename=roles, env=inline_locals(fn))
    it = loop.iter
    okr = isinstance(it, ast.Call) and dotted(it.func) == "range" and len(it.args) in (1, 2) and \
        c0.text(it.args[-1]) in ("Sin.shape[-1]", "Sout.shape[-1]", "TAB.shape[0]", "len(TAB)") and \
        (len(it.args) == 1 or (isinstance(it.args[0], ast.Constant) and it.args[0].value == 0))
    run_.judged(rid, "compute_step loop: %s" % src(loop.iter), ok=okr)
    if not okr:
        run_.report(rule_id, RKM, loop.iter, "the stage loop does not run over all stages (range(number of stages)): a stage slope that is not recomputed is "
                                            "whatever the stage array held before (a value of a previous step, of another state or another right-hand side)")
    # masks
    maskvars = {}
    for st in ast.walk(loop):
        if isinstance(st, ast.Assign) and isinstance(st.targets[0], ast.Name):
            v = st.value
            if any(isinstance(x, ast.Compare) for x in ast.walk(v)) or (isinstance(v, ast.Call) and fname(v) == "where"):
                maskvars.setdefault(st.targets[0].id, []).append(st)
    # a mask must not drop coefficients by sign
    for name, sts in maskvars.items():
        for st in sts:
            for cmp_ in [x for x in ast.walk(st.value) if isinstance(x, ast.Compare)]:
                bad = any(isinstance(o, (ast.Lt, ast.Gt, ast.LtE, ast.GtE)) for o in cmp_.ops) and not any(
                    isinstance(x, ast.Call) and fname(x) in ("abs", "absolute") for x in ast.walk(cmp_))
                run_.judged(rid, "coefficient mask: %s" % src(st), ok=not bad)
                if bad:
                    run_.report(rule_id, RKM, cmp_, "the coefficient mask orders coefficients against a constant: coefficients of one sign are "
                                                   "dropped from the stage sum (only exactly-zero coefficients may be masked)")
    env = inline_locals(fn, keep=set(maskvars))
    used = []
    canon = Canon(rename=roles, env=env, atom_hook=_mask_hook(set(maskvars), used))
    calls = [c for c in ast.walk(loop) if isinstance(c, ast.Call) and isinstance(c.func, ast.Name) and c.func.id == P[0]]
    if len(calls) != 1 or len(calls[0].args) < 2:
        raise AnalysisError("compute_step: expected exactly one call of the rhs parameter inside the stage loop")
    call = calls[0]
    want_t = T("t0 + h * TAB[stage, 0]")
    got_t = canon.poly(call.args[0])
    ok = got_t == want_t
    run_.judged(rid, "compute_step time argument: %s" % got_t.canon(), ok=ok)
    if not ok:
        run_.report(rule_id, RKM, call.args[0], "stage time is %s, the Runge-Kutta stage time is t0 + h*c_i = %s" % (got_t.canon(), want_t.canon()))
    got_y = canon.poly(call.args[1])
    cands = [T("y0 + h * sum(Sin * TAB[stage, 1:], axis=-1)"), T("y0 + sum(h * Sin * TAB[stage, 1:], axis=-1)")]
    ok = got_y in cands and len(set(used)) <= 1
    run_.judged(rid, "compute_step state argument: %s" % got_y.canon(), ok=ok)
    if not ok:
        run_.report(rule_id, RKM, call.args[1], "stage state is %s, the Runge-Kutta stage state is %s%s" % (
            got_y.canon(), cands[0].canon(), "; the two factors are masked differently" if len(set(used)) > 1 else ""))
    # result stored at [..., stage] of Sout
    okst = False
    for st in loop.body:
        if isinstance(st, ast.Assign) and isinstance(st.targets[0], ast.Subscript):
            tg = st.targets[0]
            if canon.text(tg) == "Sout[..., stage]":
                v = st.value
                if v is call or (isinstance(v, ast.Name) and env.get(v.id) is call):
                    okst = True
    run_.judged(rid, "compute_step stores rhs value at Sout[..., stage]", ok=okst)
    if not okst:
        run_.report(rule_id, RKM, loop, "the slope of stage i is not stored at [..., i] of the output stage array", text="stage store in compute_step")

    return fn, P, roles, loop, canon, env, call


def stage_args(repo, run, rule_id="C02.2"):
    rid = run.rule(rule_id, "stage arguments: rhs is evaluated at (t0 + h*c_i, y0 + h*sum_j a_ij k_j) with the sum over the stage axis of "
                            "the stage array, the result stored at stage i, for all stages (compute_step, algebraic_system, "
                            "high-precision Jacobian branch)", floor=9)
    fn, P, roles, loop, canon, env, call = compute_step_part(repo, run, rid, rule_id=rule_id)

    # algebraic_system / jacobian
    for meth in ("algebraic_system", "algebraic_system_jacobian"):
        f2 = repo.get(ITY, extract.RK + "." + meth)
        run.analysed_fn(ITY, f2)
        Q = [a.arg for a in f2.args.args]
        if len(Q) != 7:
            raise AnalysisError("%s signature changed: %s" % (meth, Q))
        r2 = dict(zip(Q, ["self", "K0", "rhs", "t0", "y0", "h", "consts"]))
        env2 = inline_locals(f2)
        rowvars = _table_aliases(f2)
        for v in rowvars:
            r2[v] = "row"
            env2.pop(v, None)
        c2 = Canon(rename=r2, env=env2)
        if meth == "algebraic_system":
            cs = [c for c in ast.walk(f2) if isinstance(c, ast.Call) and isinstance(c.func, ast.Name) and c.func.id == Q[2]]
        else:
            cs = [c for c in ast.walk(f2) if isinstance(c, ast.Call) and dotted(c.func) == Q[2] + ".jac"]
        if not cs and meth == "algebraic_system":
            # no evaluation of the call's own right-hand side: is the residual evaluated through a callable kept on the instance (a partial / closure bound to the
            # constants of an earlier call)?  Such a binding captures the VALUES of the constants; a cache test by identity of the dict does not see an in-place change
            kept = []
            for c_ in ast.walk(f2):
                if isinstance(c_, ast.Call):
                    f_ = c_.func
                    k_ = 0
                    while isinstance(f_, ast.Name) and f_.id in env2 and k_ < 4:
                        f_, k_ = env2[f_.id], k_ + 1
                    if is_self_attr(f_) and len(c_.args) >= 2:
                        kept.append((c_, f_.attr))
            if kept:
                c_, attr = kept[0]
                run.judged(rid, "algebraic_system evaluates the right-hand side it was called with", ok=False)
                run.report(rule_id, ITY, c_, "the stage residual is evaluated through `self.%s`, a callable kept on the integrator, not through the `%s` and `%s` of this call: what "
                                             "is kept was bound to the values the constants had when it was built, so after an in-place change of the constants (same dict object) "
                                             "between two calls the stage equations are those of the OLD right-hand side while the rest of the step uses the new one" % (attr, Q[2], Q[6]),
                           text="stage residual through kept callable self.%s" % attr)
                return
        if len(cs) != 1:
            raise AnalysisError("%s: expected one rhs evaluation, found %d" % (meth, len(cs)))
        c = cs[0]
        # semantic verdict first (E-EIN: stage axes concrete, state axes abstract); the normal-form comparison below is the fallback for what lies outside its domain
        if meth == "algebraic_system":
            from .. import ein
            verdict, detail = ein.with_stage_counts(ein.stage_system_verdict, (3,) if getattr(run, 'tier', 'quick') == 'quick' else (2, 3, 4, 5, 6), f2)
            if verdict == "ok":
                for what in ("time argument", "state argument"):
                    run.judged(rid, "%s %s (interpreted over %d concrete stages, abstract state axes): %s" % (meth, what, ein.NS, detail[:80]), ok=True)
                run.judged(rid, "algebraic_system residual is K - stack([f(stage i) for rows], axis=-1) (interpreted)", ok=True)
                continue
            if verdict == "bad":
                run.judged(rid, "%s interpreted over %d concrete stages: %s" % (meth, ein.NS, detail[:100]), ok=False)
                run.report(rule_id, ITY, c.args[1], "the stage system, interpreted with %d concrete stages and the state's axes kept abstract, is not F(k)_i = k_i - f(t0 + c_i h, y0 + h sum_j "
                           "a_ij k_j): %s" % (ein.NS, detail), text="algebraic_system interpreted: %s" % detail[:110])
                continue
        gt, gy = c2.poly(c.args[0]), c2.poly(c.args[1])
        wt = T("t0 + h * row[0]")
        K = "reshape(K0, self.stage_values.shape)"
        wy = [T("y0 + h * sum(row[1:] * %s, axis=-1)" % K), T("y0 + sum(h * row[1:] * %s, axis=-1)" % K)]
        ok = gt == wt
        run.judged(rid, "%s time argument: %s" % (meth, gt.canon()), ok=ok)
        if not ok:
            run.report(rule_id, ITY, c.args[0], "stage time is %s, expected t0 + h*c_i = %s" % (gt.canon(), wt.canon()))
        ok = gy in wy
        run.judged(rid, "%s state argument: %s" % (meth, gy.canon()), ok=ok)
        if not ok:
            run.report(rule_id, ITY, c.args[1], "stage state is %s, expected %s" % (gy.canon(), wy[0].canon()))
        if meth == "algebraic_system":
            # residual F(k) = k - f(...): return reshape(K - stack([...], axis=-1), (-1,))
            rets = [st for st in f2.body if isinstance(st, ast.Return)]
            okres = False
            if len(rets) == 1:
                v = rets[0].value
                while isinstance(v, ast.Name) and v.id in env2:
                    v = env2[v.id]
                if isinstance(v, ast.Call) and fname(v) == "reshape" and v.args:
                    inner = v.args[0]
                    if isinstance(inner, ast.BinOp) and isinstance(inner.op, ast.Sub):
                        a = c2.text(inner.left)
                        b = inner.right
                        while isinstance(b, ast.Name) and b.id in env2:
                            b = env2[b.id]
                        comp = b.args[0] if isinstance(b, ast.Call) and b.args else None
                        if isinstance(comp, ast.Name):
                            from ..front import append_loop_as_listcomp
                            comp = append_loop_as_listcomp(f2, comp.id)
                        if a in (K, "(%s)" % K) and isinstance(b, ast.Call) and fname(b) == "stack" and b.args and \
                                isinstance(comp, ast.ListComp) and any(k.arg == "axis" and _ci(k.value) == -1 for k in b.keywords):
                            if comp.elt is c and len(comp.generators) == 1 and is_self_attr(comp.generators[0].iter, "tableau_intermediate"):
                                okres = True
            run.judged(rid, "algebraic_system residual is K - stack([f(stage i) for rows], axis=-1)", ok=okres)
            if not okres:
                run.report(rule_id, ITY, f2, "the stage system is not F(k) = k - f(t0 + c_i h, y0 + h sum_j a_ij k_j) over all rows of the table",
                           text="algebraic_system residual")


def _ci(node):
    try:
        return const_value(node)
    except ValueError:
        return None


# ------------------------------------------------------------------------------------------------
def increment(repo, run, rule_id="C02.3"):
    rid = run.rule(rule_id, "propagated increment: dState = h * sum(stage_values * tableau_final[0, 1:]) over the stage axis, the FSAL "
                            "shortcut only under is_fsal and is_explicit, solved stages are the ones summed, dTime = h", floor=6)
    step = repo.get(ITY, extract.RK + ".step")
    run.analysed_fn(ITY, step)
    P = [a.arg for a in step.args.args]
    roles = dict(zip(P, ["self", "rhs", "t0", "y0", "consts", "h"]))
    canon = Canon(rename=roles)
    row, st_assign = extract.propagated_row(repo)
    ok = row == 0
    run.judged(rid, "propagated row = %d" % row, ok=ok)
    if not ok:
        run.report(rule_id, ITY, st_assign, "the step advances with row %d of tableau_final; row 0 holds the method's weights b (row 1 the "
                                            "embedded/error weights)" % row)
    got = canon.poly(st_assign.value)
    want = [T("h * sum(self.stage_values * self.tableau_final[%d, 1:], axis=-1)" % row),
            T("sum(h * self.stage_values * self.tableau_final[%d, 1:], axis=-1)" % row)]
    ok = got in want
    why = "increment is %s, the Runge-Kutta update is %s" % (got.canon(), want[0].canon())
    if not ok:
        # another way of writing the same weighted sum (matrix product, einsum-like forms) is decided by interpretation over tensors (E-EIN)
        from .. import ein
        verdict, detail = ein.weighted_sum_verdict(st_assign.value, P[5], row=row)
        if verdict == "ok":
            ok = True
        elif verdict == "bad":
            why = "the propagated increment, interpreted with %d concrete stages and abstract state axes, is not h * sum_j b_j k_j: %s" % (ein.NS, detail)
    run.judged(rid, "increment formula: %s" % got.canon(), ok=ok)
    if not ok:
        run.report(rule_id, ITY, st_assign, why)
    # all stores to self.dState in step
    stores = [st for st in walk_no_nested(step) if isinstance(st, ast.Assign) and any(is_self_attr(t, "dState") for t in st.targets)]
    # compute_step result binding
    cs_assign = None
    for st in step.body:
        if isinstance(st, ast.Assign) and isinstance(st.value, ast.Call) and (dotted(st.value.func) or "").endswith("compute_step"):
            cs_assign = st
    if cs_assign is None:
        raise AnalysisError("anchor missing: call of compute_step in step()")
    tgt = cs_assign.targets[0]
    names = [e.id if isinstance(e, ast.Name) else None for e in tgt.elts] if isinstance(tgt, ast.Tuple) else []
    dstate_name = names[1] if len(names) == 3 else None
    # compute_step arguments: same stage array in and out, own table
    from ..front import positional
    a = positional(cs_assign.value, repo.get(RKM, "compute_step"), 8)
    okargs = all(x is not None for x in a[:8]) and [canon.text(x) for x in a[:7]] == ["rhs", "t0", "y0", "h", "self.stage_values", "self.stage_values",
                                                                                       "self.tableau_intermediate"]
    run.judged(rid, "compute_step called with (rhs, t0, y0, h, stages, stages, tableau_intermediate, constants)", ok=okargs)
    if not okargs:
        run.report(rule_id, ITY, cs_assign.value, "compute_step is not called with (rhs, t0, y0, h, self.stage_values, self.stage_values, "
                                                  "self.tableau_intermediate, constants) in that order")
    for st in stores:
        if st is st_assign:
            continue
        v = st.value
        if isinstance(v, ast.Name) and v.id == dstate_name:
            # FSAL shortcut: must execute exactly when is_fsal and is_explicit (any arrangement of the branches)
            iff = st._parent
            okf = extract.executes_iff_fsal_explicit(st, step)
            run.judged(rid, "FSAL shortcut guard: %s" % (src(iff.test) if isinstance(iff, ast.If) else "<none>"), ok=okf)
            if not okf:
                run.report(rule_id, ITY, st, "the last explicit-stage increment is used as the step's increment outside `is_fsal and is_explicit`: "
                                             "for an implicit table that is the explicit predictor, not the solved stages")
        else:
            run.judged(rid, "other dState store: %s" % src(st), ok=False)
            run.report(rule_id, ITY, st, "self.dState is assigned from something that is neither the weighted stage sum nor the FSAL stage increment")
    # the FSAL increment handed back by compute_step is the last stage's h*sum(...)
    cfn = repo.get(RKM, "compute_step")
    rets = [s for s in cfn.body if isinstance(s, ast.Return)]
    okret = len(rets) == 1 and isinstance(rets[0].value, ast.Tuple) and len(rets[0].value.elts) == 3
    run.judged(rid, "compute_step returns (stages, last stage increment, last stage slope)", ok=okret)
    if not okret:
        run.report(rule_id, RKM, cfn, "compute_step no longer returns the 3-tuple (stages, increment, slope) that step() unpacks", text="compute_step return shape")
    # solved stages replace the guess
    oksolved = False
    for st in walk_no_nested(step):
        if isinstance(st, ast.Assign) and any(is_self_attr(t, "stage_values") for t in st.targets):
            v = st.value
            if isinstance(v, ast.Call) and fname(v) == "reshape" and v.args and isinstance(v.args[0], ast.Name):
                root = v.args[0].id
                # root must be slot 0 of the nonlinear_roots result
                for s2 in walk_no_nested(step):
                    if isinstance(s2, ast.Assign) and isinstance(s2.value, ast.Call) and (dotted(s2.value.func) or "").endswith("nonlinear_roots"):
                        t2 = s2.targets[0]
                        if isinstance(t2, ast.Tuple) and isinstance(t2.elts[0], ast.Name) and t2.elts[0].id == root:
                            oksolved = True
    run.judged(rid, "solved stage values are stored back into self.stage_values", ok=oksolved)
    if not oksolved:
        run.report(rule_id, ITY, step, "the root returned by the nonlinear solver is not stored into self.stage_values before the weighted sum",
                   text="solved stages store")
    # dTime
    okdt = False
    for st in walk_no_nested(step):
        if isinstance(st, ast.Assign) and any(is_self_attr(t, "dTime") for t in st.targets):
            v = st.value
            if isinstance(v, ast.Call) and fname(v) in ("copy", "clone", "asarray") and v.args:
                v = v.args[0]
            okdt = canon.poly(v) == Poly.atom("h")
            dtst = st
    run.judged(rid, "dTime = h", ok=okdt)
    if not okdt:
        run.report(rule_id, ITY, step, "the recorded step length self.dTime is not the step the stages were computed with", text="dTime store in step")


# ------------------------------------------------------------------------------------------------
NEWTON_KEY = "newton_iteration_success"


def _is_newton_get(node):
    """self.solver_dict.get("newton_iteration_success") or self.solver_dict["newton_iteration_success"]"""
    if isinstance(node, ast.Call) and isinstance(node.func, ast.Attribute) and node.func.attr == "get" and \
            is_self_attr(node.func.value, "solver_dict") and node.args and isinstance(node.args[0], ast.Constant) and node.args[0].value == NEWTON_KEY:
        return True
    if isinstance(node, ast.Subscript) and is_self_attr(node.value, "solver_dict") and isinstance(node.slice, ast.Constant) and node.slice.value == NEWTON_KEY:
        return True
    return False


class CallClient(Client):
    """state = (implicit, adaptive, newton, redo) ; newton in {'ok','bad','na'} ; redo in {True, False, None}"""

    def __init__(self, redo_name="redo_step"):
        self.redo = redo_name

    def _has_step(self, node):
        return any(isinstance(c, ast.Call) and dotted(c.func) == "self.step" for c in ast.walk(node))

    def _has_update(self, node):
        return any(isinstance(c, ast.Call) and dotted(c.func) == "self.update_timestep" for c in ast.walk(node))

    def raises(self, node, state):
        out = []
        if isinstance(node, ast.AST):
            for c in ast.walk(node):
                if isinstance(c, ast.Call):
                    d = dotted(c.func) or ""
                    if d in ("self.step", "self.update_timestep", "self.get_error_estimate") or d == "rhs" or d.startswith("rhs."):
                        out.append(("Any", state))
                        break
        return out

    def transfer(self, st, state):
        impl, adp, newton, redo = state
        outs = [state]
        if isinstance(st, ast.Assign):
            if self._has_step(st.value):
                outs = [(impl, adp, n, redo) for n in (("ok", "bad") if impl else ("na",))]
            elif self._has_update(st.value):
                tg = st.targets[0]
                names = [e.id for e in tg.elts if isinstance(e, ast.Name)] if isinstance(tg, ast.Tuple) else []
                if self.redo in names:
                    outs = [(impl, adp, newton, True), (impl, adp, newton, False)]
            else:
                for t in st.targets:
                    if isinstance(t, ast.Name) and t.id == self.redo:
                        if isinstance(st.value, ast.Constant) and isinstance(st.value.value, bool):
                            outs = [(impl, adp, newton, st.value.value)]
                        else:
                            outs = [(impl, adp, newton, True), (impl, adp, newton, False)]
        return outs

    def branch(self, test, state):
        impl, adp, newton, redo = state

        def val(n):
            d = dotted(n)
            if d == "self.is_implicit":
                return impl
            if d == "self.is_explicit":
                return not impl
            if d == "self.is_adaptive":
                return adp
            if isinstance(n, ast.Name) and n.id == self.redo:
                return redo
            if _is_newton_get(n):
                return {"ok": True, "bad": False, "na": None}[newton]
            return None
        r = tri_eval(test, val)
        return ([state] if True in r else []), ([state] if False in r else [])


def newton(repo, run, rule_id="C02.4"):
    rid = run.rule(rule_id, "Newton acceptance: (a) the stored success flag implies the solver's own flag AND residual < tolerance; "
                            "(b) typestate over __call__: no return is reachable with an implicit method whose last stage solve failed, "
                            "the retry loop is bounded and exhaustion raises", floor=5)
    step = repo.get(ITY, extract.RK + ".step")
    # (a) conjunction
    nr = None
    for st in walk_no_nested(step):
        if isinstance(st, ast.Assign) and isinstance(st.value, ast.Call) and (dotted(st.value.func) or "").endswith("nonlinear_roots"):
            nr = st
    if nr is None:
        raise AnalysisError("anchor missing: nonlinear_roots call in step()")
    tg = nr.targets[0]
    try:
        flag_t, prec_t = tg.elts[1].elts[0], tg.elts[1].elts[4]
        assert len(tg.elts[1].elts) == 5
    except Exception:
        raise AnalysisError("step(): result of nonlinear_roots is not unpacked as root, (success, ., ., ., prec)")
    flag_txt, prec_txt = src(flag_t), src(prec_t)
    stores = [st for st in walk_no_nested(step) if isinstance(st, ast.Assign) and any(_is_newton_get(t) for t in st.targets)]
    final = stores[-1] if stores else None
    ok = False
    why = "no later store combines the solver flag with the residual test"
    if final is not None and src(flag_t) == 'self.solver_dict["newton_iteration_success"]' or final is not None:
        tree, leaves = bool_atoms(final.value)
        atoms = sorted(leaves)
        flag_atoms = [a for a in atoms if a == flag_txt or _is_newton_get(leaves[a])]
        res_atoms = []
        for a in atoms:
            n = leaves[a]
            if isinstance(n, ast.Compare) and len(n.ops) == 1 and isinstance(n.ops[0], (ast.Lt, ast.LtE)) and src(n.left) == prec_txt:
                res_atoms.append(a)
            if isinstance(n, ast.Compare) and len(n.ops) == 1 and isinstance(n.ops[0], (ast.Gt, ast.GtE)) and src(n.comparators[0]) == prec_txt:
                res_atoms.append(a)
        if flag_atoms and res_atoms and len(atoms) <= 8:
            tt = truth_table(tree, atoms)
            ok = True
            for vals, out in tt.items():
                a = dict(zip(atoms, vals))
                if out and not (all(a[x] for x in flag_atoms) and all(a[x] for x in res_atoms)):
                    ok = False
                    why = "the stored flag can be true while %s" % ("the solver reported failure" if not all(a[x] for x in flag_atoms) else "the residual exceeds the tolerance")
        elif not res_atoms:
            why = "the stored flag does not test the residual `%s` against the tolerance" % prec_txt
        elif not flag_atoms:
            why = "the stored flag ignores the solver's own success flag"
    run.judged(rid, "acceptance flag: %s" % (src(final) if final is not None else "<missing>"), ok=ok)
    if not ok:
        run.report(rule_id, ITY, final if final is not None else nr, "an implicit step can be marked as solved without being solved: " + why)
    # consumer reads the same key
    call = repo.get(ITY, extract.RK + ".__call__")
    run.analysed_fn(ITY, call)
    from .. import rkcall
    m_, out, eng = rkcall.analyse(call)
    bad = [(s, n) for (s, n) in out.ret if s[0] and s[2] != "ok"]
    run.judged(rid, "typestate of __call__: %d return states, %d exceptional exits, %d abstract steps" % (len(out.ret), len(out.exc), eng.visits),
               ok=not bad)
    for s, n in bad[:1]:
        run.report(rule_id, ITY, n, "a `return` is reachable for an implicit method (adaptive=%s) whose last stage solve %s (redo flag %s at that point): an unsolved "
                                    "implicit step is handed back as accepted" % (s[1], "failed" if s[2] == "bad" else "was never attempted", s[3]),
                   text="return reachable with unsolved implicit stages (adaptive=%s, redo=%s)" % (s[1], s[3]))
    # implicit methods must reach the acceptance logic at all: some path returns ok for implicit
    reach = [s for (s, n) in out.ret if s[0] and s[2] == "ok"]
    run.judged(rid, "implicit methods can return after a successful solve", ok=bool(reach))
    if not reach:
        run.report(rule_id, ITY, call, "no path of __call__ returns a solved implicit step", text="no accepting path for implicit methods")
    # retry loop bounded: every For in __call__ containing self.step iterates over range(...)
    loops = [st for st in walk_no_nested(call) if isinstance(st, (ast.For, ast.While)) and any(
        isinstance(c, ast.Call) and dotted(c.func) == "self.step" for c in ast.walk(st))]
    okb = bool(loops) and all(isinstance(l, ast.For) and isinstance(l.iter, ast.Call) and dotted(l.iter.func) == "range" for l in loops)
    run.judged(rid, "retry loop is a bounded `for _ in range(...)`", ok=okb)
    if not okb:
        run.report(rule_id, ITY, loops[0] if loops else call, "the retry loop around self.step is not bounded by a range(...)", text="retry loop bound")
    fail = [(s, t, n) for (s, t, n) in out.exc if t == "FailedToMeetTolerances"]
    run.judged(rid, "exhausted retries raise FailedToMeetTolerances (%d raising states)" % len(fail), ok=bool(fail))
    if not fail:
        run.report(rule_id, ITY, call, "no path raises FailedToMeetTolerances: exhausting the retries falls through to the return",
                   text="missing raise after retry loop")


# ------------------------------------------------------------------------------------------------
def splitting_clock(repo, run, rule_id="C02.5"):
    """'For splitting methods the step is the stated composition of drift and kick sub-steps': sub-step s evaluates the right-hand side at the time reached by the
    drift sub-steps BEFORE it, t0 + h*sum_{r<s} d_r, and at the state y0 + (increments of the sub-steps before it).  The loop body of
    ExplicitSymplecticIntegrator.step is executed symbolically for the first three stages (polynomials in t0, h, the table entries and one fresh symbol per
    right-hand-side value) and the arguments of each evaluation are compared with that specification."""
    from ..sym import Poly
    rid = run.rule(rule_id, "splitting step, by symbolic execution of the stage loop for stages 0..2: stage s evaluates rhs at time t0 + h*sum_{r<s} T[r,drift] and at state "
                            "y0 + sum_{r<s} h*F_r*(T[r,drift]*drift_mask + T[r,kick]*kick_mask)", floor=6)
    fn = repo.get(ITY, extract.SPLIT + ".step")
    run.analysed_fn(ITY, fn)
    dcol, kcol, upd, _ = extract.splitting_columns(repo)
    P = [a.arg for a in fn.args.args]
    if len(P) != 6:
        raise AnalysisError("ExplicitSymplecticIntegrator.step signature changed: %s" % P)
    roles = dict(zip(P[1:], ["rhs", "t0", "y0", "consts", "h"]))
    loops = [st for st in fn.body if isinstance(st, ast.For)]
    if len(loops) != 1 or not isinstance(loops[0].target, ast.Name):
        raise AnalysisError("ExplicitSymplecticIntegrator.step: stage loop not found")
    loop = loops[0]
    svar = loop.target.id
    env = {}
    calls = []
    decisions = []      # preset outcomes of the data-dependent branches met, in order (every combination is explored: see below)
    taken = []

    class Unsupported(Exception):
        pass

    class NeedMore(Exception):
        pass

    def ev(n, s):
        if isinstance(n, ast.Constant) and isinstance(n.value, (int, float)) and not isinstance(n.value, bool):
            return Poly.const(Fraction(repr(n.value)) if isinstance(n.value, float) else n.value)
        if isinstance(n, ast.Name):
            if n.id == svar:
                return Poly.const(s)
            if n.id in env:
                return env[n.id]
            return Poly.atom(roles.get(n.id, n.id))
        if isinstance(n, ast.Attribute) and is_self_attr(n):
            key = "self." + n.attr
            return env.get(key, Poly.atom(key))
        if isinstance(n, ast.Subscript) and is_self_attr(n.value, "tableau_intermediate") and isinstance(n.slice, ast.Tuple) and len(n.slice.elts) == 2:
            i, j = ev(n.slice.elts[0], s), ev(n.slice.elts[1], s)
            if not (i.is_const() and j.is_const()):
                raise Unsupported(src(n))
            return Poly.atom("T[%d,%d]" % (int(i.const_value()), int(j.const_value())))
        if isinstance(n, ast.BinOp) and isinstance(n.op, (ast.Add, ast.Sub, ast.Mult)):
            a, b = ev(n.left, s), ev(n.right, s)
            return a + b if isinstance(n.op, ast.Add) else (a - b if isinstance(n.op, ast.Sub) else a * b)
        if isinstance(n, ast.UnaryOp) and isinstance(n.op, ast.USub):
            return -ev(n.operand, s)
        if isinstance(n, ast.Call):
            f = fname(n)
            if isinstance(n.func, ast.Name) and roles.get(n.func.id) == "rhs":
                if len(n.args) < 2:
                    raise Unsupported(src(n))
                k = len(calls)
                calls.append((s, n, ev(n.args[0], s), ev(n.args[1], s)))
                return Poly.atom("F%d" % s) if not any(c_[0] == s for c_ in calls[:-1]) else Poly.atom("F%d_%d" % (s, k))
            if f in ("copy", "asarray", "array") and n.args:
                return ev(n.args[0], s)
            if f in ("zeros_like", "zeros"):
                return Poly.const(0)
        # anything else is an opaque value: harmless unless it reaches an argument of the right-hand side (then the rule cannot decide)
        return Poly.atom("?" + src(n)[:60])

    def run_block(stmts, s):
        for st in stmts:
            if isinstance(st, ast.If):
                t = st.test
                if isinstance(t, ast.Compare) and len(t.ops) == 1:
                    l, r = ev(t.left, s), ev(t.comparators[0], s)
                    if l.is_const() and r.is_const():
                        import operator
                        opf = {ast.Eq: operator.eq, ast.NotEq: operator.ne, ast.Lt: operator.lt, ast.LtE: operator.le, ast.Gt: operator.gt, ast.GtE: operator.ge}.get(type(t.ops[0]))
                        if opf is not None:
                            run_block(st.body if opf(l.const_value(), r.const_value()) else st.orelse, s)
                            continue
                # a data-dependent branch (e.g. `if <cached slope is valid>:`): both outcomes are explored, one complete execution per combination
                if len(taken) >= len(decisions):
                    raise NeedMore()
                d = decisions[len(taken)]
                taken.append((src(t)[:70], d))
                run_block(st.body if d else st.orelse, s)
                continue
            elif isinstance(st, ast.Assign) and len(st.targets) == 1:
                v = ev(st.value, s)
                t = st.targets[0]
                if isinstance(t, ast.Name):
                    env[t.id] = v
                elif is_self_attr(t):
                    env["self." + t.attr] = v
                else:
                    raise Unsupported(src(t))
            elif isinstance(st, ast.AugAssign) and isinstance(st.op, (ast.Add, ast.Sub, ast.Mult)):
                t = st.target
                key = t.id if isinstance(t, ast.Name) else ("self." + t.attr if is_self_attr(t) else None)
                if key is None:
                    raise Unsupported(src(t))
                cur = env.get(key, Poly.atom(roles.get(key, key)))
                v = ev(st.value, s)
                env[key] = cur + v if isinstance(st.op, ast.Add) else (cur - v if isinstance(st.op, ast.Sub) else cur * v)
            elif isinstance(st, (ast.Expr, ast.Pass)):
                if isinstance(st, ast.Expr):
                    ev(st.value, s)
            else:
                raise Unsupported(type(st).__name__)
    import itertools
    K = 0
    paths = []
    while True:
        need = False
        paths = []
        for combo in itertools.product((True, False), repeat=K):
            env.clear()
            del calls[:]
            del taken[:]
            decisions[:] = list(combo)
            try:
                pre = fn.body[:fn.body.index(loop)]
                run_block([st for st in pre if not (isinstance(st, ast.Expr) and isinstance(st.value, ast.Constant))], 0)
                for s in (0, 1, 2):
                    run_block(loop.body, s)
            except NeedMore:
                need = True
                break
            except Unsupported as e:
                raise AnalysisError("ExplicitSymplecticIntegrator.step: construct outside the symbolic executor: %s" % e)
            paths.append((list(taken), list(calls)))
        if not need:
            break
        K += 1
        if K > 5:
            raise AnalysisError("ExplicitSymplecticIntegrator.step: too many data-dependent branches for the symbolic executor")
    for taken_, calls_ in paths:
        if _judge_splitting_path(run, rid, rule_id, loop, taken_, calls_, dcol, kcol):
            return


def _judge_splitting_path(run, rid, rule_id, loop, taken, calls, dcol, kcol):
    from ..sym import Poly
    where = (" on the path [%s]" % "; ".join("%s is %s" % td for td in taken)) if taken else ""
    t0, y0, h = Poly.atom("t0"), Poly.atom("y0"), Poly.atom("h")
    want_t, want_y = t0, y0
    per_stage = {}
    for (s, node, gt, gy) in calls:
        per_stage.setdefault(s, []).append((node, gt, gy))
    for s in (0, 1, 2):
        if len(per_stage.get(s, [])) != 1:
            run.judged(rid, "stage %d: exactly one right-hand-side evaluation (%d found)" % (s, len(per_stage.get(s, []))), ok=False)
            run.report(rule_id, ITY, loop, "sub-step %d of the splitting step evaluates the right-hand side %d times%s (exactly once, at its own argument, is the stated composition: a slope carried over from another call belongs to another state, right-hand side or set of constants)" % (s, len(per_stage.get(s, [])), where),
                       text="rhs evaluations per splitting stage")
            return True
        node, gt, gy = per_stage[s][0]
        if any(a_.startswith("?") for p_ in (gt, gy) for a_ in p_.atoms()):
            raise AnalysisError("ExplicitSymplecticIntegrator.step: a value the symbolic executor cannot follow reaches the right-hand side's arguments: %s / %s" % (
                gt.canon()[:80], gy.canon()[:80]))
        okt = gt == want_t
        run.judged(rid, "stage %d time argument: %s" % (s, gt.canon()), ok=okt)
        if not okt:
            run.report(rule_id, ITY, node.args[0], "sub-step %d evaluates the right-hand side at time %s; the composition evaluates it at %s (the time reached by the drift "
                                                   "sub-steps before it): for a right-hand side whose drift part depends on t the step is not the stated composition" % (
                                                       s, gt.canon(), want_t.canon()))
        oky = gy == want_y
        run.judged(rid, "stage %d state argument: %s" % (s, gy.canon()), ok=oky)
        if not oky:
            run.report(rule_id, ITY, node.args[1], "sub-step %d evaluates the right-hand side at state %s; the composition evaluates it at %s" % (s, gy.canon(), want_y.canon()))
        F = Poly.atom("F%d" % s)
        want_t = want_t + h * Poly.atom("T[%d,%d]" % (s, dcol))
        want_y = want_y + h * F * (Poly.atom("T[%d,%d]" % (s, dcol)) * Poly.atom("self.drift_mask") + Poly.atom("T[%d,%d]" % (s, kcol)) * Poly.atom("self.kick_mask"))
    return False


def stage_tolerance(repo, run, rule_id="C02.6"):
    """'to the nonlinear-solver tolerance for implicit ones': the tolerance the stage equations are solved and ACCEPTED to is atol + rtol*|y| (times a constant
    <= 1): absolute part from atol, relative part rtol times the size of the state.  With the roles exchanged a loose rtol becomes the absolute tolerance."""
    rid = run.rule(rule_id, "the tolerance handed to the stage solver and used in the acceptance test is k*(atol + rtol*scale(y0)), 0 < k <= 1, as a polynomial normal form "
                            "(max/abs wrappers transparent)", floor=1)
    step = repo.get(ITY, extract.RK + ".step")
    P = [a.arg for a in step.args.args]
    env = inline_locals(step)
    roles = {P[3]: "y0"}

    class Strip(ast.NodeTransformer):
        def visit_Call(self, n):
            self.generic_visit(n)
            if fname(n) in ("max", "amax", "abs", "absolute", "linalg.norm", "norm") and n.args:
                return n.args[0]
            return n
    # the tolerance: the `tol=` argument of the nonlinear_roots call and the bound in `prec < <tol>`
    nr = [c for c in ast.walk(step) if isinstance(c, ast.Call) and (dotted(c.func) or "").endswith("nonlinear_roots")]
    if len(nr) != 1:
        raise AnalysisError("step(): nonlinear_roots call not found")
    tol_arg = next((k.value for k in nr[0].keywords if k.arg == "tol"), None)
    sites = []
    if tol_arg is not None:
        sites.append(("solver tolerance", tol_arg))
    for cmp_ in [x for x in ast.walk(step) if isinstance(x, ast.Compare) and len(x.ops) == 1 and isinstance(x.ops[0], (ast.Lt, ast.LtE)) and isinstance(x.left, ast.Name) and x.left.id == "prec"]:
        sites.append(("acceptance bound", cmp_.comparators[0]))
    if not sites:
        raise AnalysisError("step(): tolerance sites (tol= of the solver call, `prec < tol` acceptance) not found")
    c = Canon(rename=roles, env=env)
    atol, rtol, y0 = Poly.atom("self.atol"), Poly.atom("self.rtol"), Poly.atom("y0")
    for what, node in sites:
        n2 = extract._subst(node, env)
        stripped = Strip().visit(n2)
        ast.fix_missing_locations(stripped)
        p = Canon(rename=roles, env={}).poly(stripped)
        ok = False
        for num, den in ((1, 2), (1, 1), (1, 4), (3, 4), (9, 10), (1, 10)):
            kk = Poly.const(Fraction(num, den))
            if p == kk * (atol + rtol * y0):
                ok = True
        run.judged(rid, "%s: %s" % (what, p.canon()), ok=ok)
        if not ok:
            run.report(rule_id, ITY, node, "the %s of the implicit stage equations is %s, not k*(atol + rtol*|y|): the stages are solved (and accepted) to a tolerance in which "
                                           "atol and rtol do not play their roles (e.g. exchanged: a loose rtol becomes the absolute tolerance)" % (what, p.canon()))


# ------------------------------------------------------------------------------------------------
def current_integrator_is_called(repo, run):
    """'one step equals the update defined by THAT method's coefficients' (and, for splitting methods, by the kick mask in force): every recorded step is taken by the
    integrator the system holds when the step starts.  Setting the method, the tolerances or the kick variables -- all legal from a step callback -- REPLACES
    self.integrator; a reference bound before the step loop keeps stepping with the replaced object while `system.method` / `system.integrator` report the new one."""
    from ..imodel import IntegrateModel, DS
    rid = run.rule("C02.8", "integrate() calls the integrator through `self.integrator` read at the call (or through a local bound inside the same iteration): no reference to the "
                            "integrator is bound outside the step loop and called inside it", floor=1)
    m = IntegrateModel(repo, allow_alias=True)
    run.analysed_fn(DS, m.fn)
    if m.integrator_alias is None:
        run.judged(rid, "the step loop calls `%s`" % src(m.step_assign.value.func)[:40])
        return
    name, bind = m.integrator_alias
    inside = any(a is m.loop for a in ancestors(bind))
    run.judged(rid, "the step loop calls `%s`, bound by `%s` %s the loop" % (name, src(bind)[:60], "inside" if inside else "OUTSIDE"), ok=inside)
    if not inside:
        run.report("C02.8", DS, bind, "the step loop calls `%s`, a reference to the integrator bound once before the loop (`%s`): when a step callback sets the method, the tolerances "
                   "or the kick variables, self.integrator is REPLACED, and every later step of this run is still taken by the old object -- the recorded steps are the update of "
                   "another method's coefficients (or of another kick mask) than the one the system reports" % (name, src(bind)[:60]))


# ------------------------------------------------------------------------------------------------
def own_stage_storage(repo, run):
    """The stage slopes k_j of a step live in `self.stage_values` from the moment a stage is evaluated until the weighted sums have read it.  That array has to belong to
    ONE integrator: if it is handed out by a pool / cache shared between instances, an integrator that steps (or is constructed) while another is mid-step -- a
    right-hand side that itself integrates a sub-system with the same method and shape -- overwrites the outer step's slopes."""
    rid = run.rule("C02.9", "every store to `self.stage_values` in the integrators is a fresh allocation (zeros / empty / ...) or a reshape / copy of the solver's own result: "
                            "no instance takes its stage array from a container or factory shared between instances", floor=2)
    FRESH = {"zeros", "empty", "ones", "zeros_like", "empty_like", "ones_like", "full", "copy", "clone", "array", "stack"}
    n = 0
    for q, fn in repo.functions(ITY):
        for st in walk_no_nested(fn):
            if isinstance(st, ast.Assign) and any(is_self_attr(t, "stage_values") for t in st.targets):
                n += 1
                v = st.value
                f = (fname(v) or "").split(".")[-1] if isinstance(v, ast.Call) else None
                ok = f in FRESH or (f == "reshape" and v.args and not isinstance(v.args[0], ast.Call)) or isinstance(v, ast.BinOp)
                # a dtype / device conversion of the instance's own array
                if isinstance(v, ast.Call) and isinstance(v.func, ast.Attribute) and v.func.attr in ("to", "astype", "reshape", "copy") and is_self_attr(v.func.value, "stage_values"):
                    ok = True
                run.judged(rid, "%s: `%s`" % (q, src(st)[:100]), ok=ok)
                if not ok:
                    run.report("C02.9", ITY, st, "%s takes its stage array from `%s`, which is not a fresh allocation: an array obtained from a shared pool / cache is the stage storage "
                               "of every integrator with the same layout, so a step taken (or an integrator built) inside another integrator's step -- a right-hand side that "
                               "integrates a sub-system -- overwrites slopes the outer step has not used yet" % (q, src(v)[:60]))
    if n == 0:
        raise AnalysisError("no store to self.stage_values found in the integrators")
