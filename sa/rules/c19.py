"""C19 — trajectory lookup: the integer guard by boundary evaluation, trimmed views only, direction discipline of every
order-dependent search over the history-ordered time grid, the dense branch, the nearest-sample idiom."""
import ast
from fractions import Fraction

from .. import seeds
from ..front import AnalysisError, dotted, fname, is_self_attr, src, walk_no_nested, ancestors
from ..kind import KindEngine, Seeds
from ..sym import Canon, Poly

LEVEL = "other"
DS = "desolver/differential_system.py"


def run(repo, run, tier):
    from .common import readonly
    readonly(repo, run, "C19.7", DS, ["OdeSystem.__getitem__", "OdeSystem.__len__"], "the lookup methods of the system")
    run.assumptions += ["the recorded grid is monotone in the direction of the run (property C03)"]
    fn = repo.get(DS, "OdeSystem.__getitem__")
    run.analysed_fn(DS, fn)
    P = [a.arg for a in fn.args.args]
    idx = P[1]
    int_guard(repo, run, fn, idx)
    raw_reads(repo, run, fn)
    searches(repo, run, fn, idx)
    dense_branch(repo, run, fn, idx)
    int_semantics(repo, run, fn, idx)
    # the dense solution a time lookup answers from must cover exactly the recorded steps: on a terminal event the pieces of the rolled-back step are removed
    # from the end they were added to (direction-aware)
    from .c09 import removal_index
    removal_index(repo, run, "C19.8")
    # a time lookup on a dense trajectory is answered by DenseOutput.find_interval(_vec): the piece index must not wrap around
    from .common import index_decrement
    index_decrement(repo, run, "C19.9", DS, ["DenseOutput.find_interval", "DenseOutput.find_interval_vec"])
    length(repo, run)
    # 'looking the trajectory up at a time returns the dense solution there': the store the lookup bisects stays sorted for every method (Richardson sub-steps included)
    from .c06 import piece_store_single_writer
    piece_store_single_writer(repo, run, rule_id="C19.10")
    whole_run_slice(repo, run, fn, idx)
    # 'returns the dense solution there': the pieces a time lookup bisects are exactly those of the recorded steps - every piece of a rolled-back step is removed again,
    # however many pieces one step adds (a Richardson step adds one per sub-step)
    from .c09 import balance_rule
    balance_rule(repo, run, "C19.12", want="all")
    # ... and a reset() leaves no knot of the previous run behind: the dense output is re-created, not emptied piecemeal
    from ..report import Rejudged
    from ..access import ClassModel
    from .c13 import completeness, values
    rj = Rejudged(run, {"C13.1": "C19.13", "C13.2": "C19.13"}, note="re-judged for C19: time lookups after reset() bisect the knots of the new run only")
    cm = ClassModel(repo, DS, "OdeSystem")
    completeness(repo, rj, cm)
    values(repo, rj, cm)
    rj.finish_rejudge()



def _branch(fn, pred):
    for st in ast.walk(fn):
        if isinstance(st, ast.If) and pred(st.test):
            return st
    return None


def int_guard(repo, run, fn, idx):
    rid = run.rule("C19.1", "integer branch: IndexError is raised exactly for index >= number of recorded steps (boundary evaluation of the linear guard at "
                            "counter-1, counter, counter+1); the sample is read from the trimmed views", floor=2)
    br = _branch(fn, lambda t: src(t) == "isinstance(%s, int)" % idx)
    if br is None:
        raise AnalysisError("anchor missing: `isinstance(index, int)` branch of __getitem__")
    guard = next((st for st in br.body if isinstance(st, ast.If) and any(isinstance(x, ast.Raise) for b_ in (st.body, st.orelse) for x in b_) and
                  ("self.counter" in src(st.test) or "len(self)" in src(st.test))), None)
    if guard is None:
        # no single linear guard of the form `index <op> counter`: the sequence semantics of the branch are decided by C19.1b (interpretation)
        run.judged(rid, "no single linear upper guard: semantics decided by C19.1b", nontrivial=False)
        run.judged(rid, "(see C19.1b)", nontrivial=False)
        return
    c = Canon()
    t = guard.test
    vals = None
    if isinstance(t, ast.Compare) and len(t.ops) == 1:
        p = c.poly(t.left) - c.poly(t.comparators[0])
        p = p.subs({"len(self)": Poly.atom("self.counter") + Poly.const(1)})
        ci, cc, c0 = p.get((idx,), 0), p.get(("self.counter",), 0), p.get((), 0)
        if set(p) <= {(idx,), ("self.counter",), ()} and ci != 0 and ci == -cc:
            op = t.ops[0]
            vals = []
            for k in (-1, 0, 1):
                v = ci * k + c0          # value of L - R at index = counter + k
                r = {ast.Gt: v > 0, ast.GtE: v >= 0, ast.Lt: v < 0, ast.LtE: v <= 0}.get(type(op))
                vals.append(r)
    raises_in_body = any(isinstance(x, ast.Raise) and "IndexError" in src(x) for st in guard.body for x in ast.walk(st))
    raises_in_else = any(isinstance(x, ast.Raise) and "IndexError" in src(x) for st in guard.orelse for x in ast.walk(st))
    want = [False, False, True] if raises_in_body else ([True, True, False] if raises_in_else else None)
    ok = vals is not None and vals == want
    run.judged(rid, "guard `%s` at index = counter-1, counter, counter+1 -> %s (raise in %s)" % (src(t), vals, "body" if raises_in_body else "else"), ok=ok)
    if not ok:
        run.report("C19.1", DS, guard, "the out-of-range guard `%s` does not raise IndexError exactly for index >= counter + 1: %s" % (
            src(t), "the last recorded step cannot be addressed / iteration stops early" if vals and vals[1] == (True if raises_in_body else False) else
            "an index one past the end is answered from the untrimmed buffer instead of raising"))
    # reads go through the trimmed views
    rets = [x for x in ast.walk(br) if isinstance(x, ast.Return) and isinstance(x.value, ast.Call) and dotted(x.value.func) == "StateTuple"
            and not any(isinstance(a, ast.If) and a is not br and a is not guard for a in ancestors(x) if a in ast.walk(br))]
    okr = False
    for r in rets:
        kw = {k.arg: src(k.value) for k in r.value.keywords}
        if kw.get("t") == "self.t[%s]" % idx and kw.get("y") == "self.y[%s]" % idx:
            okr = True
    run.judged(rid, "integer read: StateTuple(t=self.t[index], y=self.y[index])", ok=okr)
    if not okr:
        run.report("C19.1", DS, br, "the integer branch does not return (self.t[index], self.y[index]) from the trimmed views", text="integer read")


def int_semantics(repo, run, fn, idx):
    """the integer branch, interpreted for every index in [-2n-4, n+3] and n+1 recorded rows (n = 0, 1, 4), behaves like indexing a list of the recorded rows:
    rows -(n+1)..n answer with row (k mod n+1) for time AND state, everything else raises IndexError (numpy's own negative-index wrap is part of the model,
    so an index that the code shifts and numpy then wraps a second time is seen)"""
    from ..absint import Interp, Domain, OPAQUE, Raised
    rid = run.rule("C19.1b", "sequence semantics of the integer branch by abstract interpretation over concrete (rows, index) pairs: a valid index reads the same row of "
                             "t and y as a list would, any other index raises IndexError", floor=20)
    br = _branch(fn, lambda t: src(t) == "isinstance(%s, int)" % idx)
    if br is None:
        raise AnalysisError("anchor missing: `isinstance(index, int)` branch of __getitem__")
    synth = ast.FunctionDef(name="int_branch", args=ast.arguments(posonlyargs=[], args=[], kwonlyargs=[], kw_defaults=[], defaults=[]), body=list(br.body),
                            decorator_list=[], type_params=[])

    class _Self:
        pass

    class _Arr:
        def __init__(self, name, n):
            self.name, self.n = name, n

    class Dom(Domain):
        def __init__(self, n):
            self.n = n

        def attribute(self, obj, attr, node, interp):
            if isinstance(obj, _Self):
                if attr == "counter":
                    return self.n
                if attr in ("t", "y", "__t", "__y"):
                    return _Arr(attr, self.n + 1)
            return NotImplemented

        def load_subscript(self, obj, i, node, interp):
            if isinstance(obj, _Arr):
                if not isinstance(i, int) or isinstance(i, bool):
                    return OPAQUE
                if -obj.n <= i < obj.n:
                    return (obj.name, i % obj.n)
                raise Raised("IndexError (numpy)")
            return NotImplemented

        def call(self, name, node, args, kwargs, interp):
            if name == "StateTuple":
                return ("state", kwargs.get("t"), kwargs.get("y"))
            if name == "len" and args and isinstance(args[0], _Self):
                return self.n + 1
            return NotImplemented
    bad = []
    total = 0
    for n in (0, 1, 4):
        for k in range(-2 * n - 4, n + 4):
            it = Interp(Dom(n), max_paths=64)
            outs = list(it.all_paths(synth, {"self": _Self(), idx: k}))
            total += 1
            valid = -(n + 1) <= k <= n
            for outcome, val, _ in outs:
                if valid:
                    want = k % (n + 1)
                    ok = outcome == "return" and isinstance(val, tuple) and val[0] == "state" and isinstance(val[1], tuple) and isinstance(val[2], tuple) and \
                        val[1][1] == want and val[2][1] == want and val[1][0].endswith("t") and val[2][0].endswith("y")
                else:
                    ok = outcome == "raise"
                if not ok:
                    bad.append((n + 1, k, outcome, val if outcome == "return" else "raised"))
            run.judged(rid, "rows=%d index=%d: %s" % (n + 1, k, "ok" if not [b for b in bad if b[0] == n + 1 and b[1] == k] else bad[-1][2:]), ok=not [b for b in bad if b[0] == n + 1 and b[1] == k])
    if bad:
        ex = bad[0]
        desc = ("returns row %s of t / %s of y instead of raising IndexError" % (ex[3][1], ex[3][2])) if ex[2] == "return" and isinstance(ex[3], tuple) else (
            "raises although the index is valid" if ex[2] == "raise" else "does not return the addressed row")
        run.report("C19.1b", DS, br, "with %d recorded rows, index %d %s (%d of %d (rows, index) pairs disagree with sequence semantics): e.g. an index below -len that the code "
                                     "shifts by len is wrapped a second time by numpy and silently answers with a row from the end" % (ex[0], ex[1], desc, len(bad), total),
                   text="integer-branch sequence semantics: first failing (rows=%d, index=%d)" % (ex[0], ex[1]))


def raw_reads(repo, run, fn):
    rid = run.rule("C19.3", "the sequence protocol of the system (__getitem__, and __iter__ / __reversed__ / __contains__ where defined) reads only the trimmed views "
                            "self.t / self.y, never the raw buffers (which hold pre-allocated, unwritten rows beyond counter while a run is in progress or before the first one)", floor=1)
    bad = [n for n in ast.walk(fn) if (is_self_attr(n, "__t") or is_self_attr(n, "__y")) and isinstance(n.ctx, ast.Load)]
    run.judged(rid, "raw buffer reads in __getitem__: %d" % len(bad), ok=not bad)
    # iteration falls back to __getitem__ + IndexError when no __iter__ is defined; a dedicated __iter__ (or __reversed__, __contains__) is held to the same rule
    for extra in ("__iter__", "__reversed__", "__contains__"):
        f2 = repo.maybe(DS, "OdeSystem." + extra)
        if f2 is None:
            continue
        run.analysed_fn(DS, f2)
        b2 = [n for n in ast.walk(f2) if (is_self_attr(n, "__t") or is_self_attr(n, "__y")) and isinstance(n.ctx, ast.Load)]
        run.judged(rid, "raw buffer reads in %s: %d" % (extra, len(b2)), ok=not b2)
        for n in b2[:2]:
            run.report("C19.3", DS, n._parent if isinstance(n._parent, (ast.Call, ast.Subscript)) else n,
                       "%s walks the raw buffer `%s`: before the first run, and inside a step callback, the buffers hold pre-allocated rows beyond the recorded ones, so "
                       "iteration yields extra (t=0, y=0) items after the recorded steps instead of 'each recorded (t, y) once, in order'" % (extra, src(n)))
    for n in bad[:2]:
        st = n
        while not isinstance(st, ast.stmt):
            st = st._parent
        run.report("C19.3", DS, n._parent if isinstance(n._parent, (ast.Call, ast.Subscript)) else n,
                   "__getitem__ reads the raw buffer `%s`: between integrate() calls the buffers are trimmed, but the lookup then depends on that trimming instead of the "
                   "recorded length" % src(n))


def searches(repo, run, fn, idx):
    rid = run.rule("C19.2", "every order-dependent search over the recorded times (bisection needs an ASCENDING array; the grid is in history order, ascending "
                            "only for forward runs) is direction-normalised or direction-guarded; the nearest-sample lookup is direction-free", floor=1)
    sd = seeds.ode_seeds(extra_params={idx: "T"})
    sd.attrs = dict(sd.attrs)
    ke = KindEngine(fn, sd, disciplines=("DIR",))
    calls = [c for c in ast.walk(fn) if isinstance(c, ast.Call) and (dotted(c.func) or "").split(".")[-1] in ("search_bisection", "search_bisection_vec", "searchsorted")]
    n = 0
    for c in calls:
        n += 1
        k = ke.kind(c.args[0]) if c.args else "U"
        ok = k == "K" or ke.direction_guarded(c)
        run.judged(rid, "%s  [array kind %s]" % (src(c)[:90], k), ok=ok)
        if not ok:
            run.report("C19.2", DS, c, "bisection over the recorded times in history order (kind %s): for a trajectory integrated backward the array is descending and the "
                                       "search answers with an end of the array" % (k,))
    # the orientation that normalises the search must be the orientation of the RECORDED grid (the order the samples were taken in), not the configured
    # span or the current step: integrate(t) can run against the declared span
    from ..sym import inline_locals
    env = inline_locals(fn)
    for c in calls:
        a0 = c.args[0] if c.args else None
        if not (isinstance(a0, ast.BinOp) and isinstance(a0.op, ast.Mult)):
            continue
        for grid, factor in ((a0.left, a0.right), (a0.right, a0.left)):
            if src(grid) != "self.t":
                continue
            f = factor
            while isinstance(f, ast.Name) and f.id in env:
                f = env[f.id]
            attrs = {src(x) for x in ast.walk(f) if isinstance(x, ast.Attribute) and isinstance(x.value, ast.Name) and x.value.id == "self"}
            ok = isinstance(f, ast.Call) and fname(f) == "sign" and attrs == {"self.t"}
            run.judged(rid, "orientation factor of %s: %s" % (src(c)[:50], src(f)[:60]), ok=ok)
            if not ok:
                run.report("C19.2", DS, f if hasattr(f, "lineno") else c, "the orientation used to normalise the search is not taken from the recorded samples (it reads %s): "
                                                                         "a run made against the declared span (integrate(t) backward on a forward span) is searched "
                                                                         "with the wrong sign" % sorted(attrs - {"self.t"}))
    # nearest-sample idiom
    near = [c for c in ast.walk(fn) if isinstance(c, ast.Call) and fname(c) in ("argmin", "nanargmin")]
    for c in near:
        n += 1
        a = c.args[0] if c.args else None
        ok = isinstance(a, ast.Call) and fname(a) in ("abs", "absolute") and a.args and ke.kind(a.args[0]) in ("D", "Seq(D)") and \
            any(src(x) == "self.t" for x in ast.walk(a.args[0])) and any(isinstance(x, ast.Name) and x.id == idx for x in ast.walk(a.args[0]))
        run.judged(rid, "nearest sample: %s" % src(c)[:90], ok=ok)
        if not ok:
            run.report("C19.2", DS, c, "the nearest-sample lookup is not argmin(|recorded times - query|) over the trimmed grid")
    # every other ordering of times / signed durations in the function (e.g. "which of the two bracketing samples is nearer")
    reported = {id(c) for c in calls} | {id(c) for c in near}
    for v in ke.check():
        if id(v.node) in reported:
            continue
        n += 1
        run.judged(rid, "%s" % src(v.node)[:90], ok=False)
        run.report("C19.2", DS, v.node, "DIR discipline: %s: the lookup is right for forward runs only" % v.why)
    for node, ktxt in ke.judged:
        if isinstance(node, ast.Compare):
            run.judged(rid, "%s  [%s]" % (src(node)[:80], ktxt))
    if n == 0:
        run.judged(rid, "no time search in __getitem__", ok=False)
        run.report("C19.2", DS, fn, "__getitem__ has no time lookup at all", text="missing time lookup")


def dense_branch(repo, run, fn, idx):
    from ..sym import path_condition, equivalent
    rid = run.rule("C19.4", "a time lookup returns the dense solution at that time exactly when dense output is kept", floor=1)
    rets = []
    for r in [x for x in ast.walk(fn) if isinstance(x, ast.Return) and isinstance(x.value, ast.Call) and dotted(x.value.func) == "StateTuple"]:
        kw = {k.arg: src(k.value) for k in r.value.keywords}
        if kw.get("y") in ("self.sol(%s)" % idx, "self.__sol(%s)" % idx):
            rets.append((r, kw))
    ok = len(rets) == 1 and rets[0][1].get("t") == idx
    cex = None
    if ok:
        tree, bt = path_condition(rets[0][0], fn, guards=True)      # guard clauses (`if not dense: return nearest`) contribute their negated tests
        # among the atoms of the path, those about dense output: the branch must be taken iff dense output is kept (and sol exists)
        atoms = [a for a in __import__("sa.sym", fromlist=["tree_atoms"]).tree_atoms(tree)]
        dense = [a for a in atoms if "__dense_output" in a]
        solnone = [a for a in atoms if a.startswith("None Is self.sol") or a.startswith("self.sol Is None")]
        other = [a for a in atoms if a not in dense + solnone]

        def expected(asg):
            return all(asg[a] for a in dense) and not any(asg[a] for a in solnone)

        def constraint(asg):
            # atoms that select the 'time lookup' branch (not int, not slice) are fixed to the values that reach this return
            return True
        ok = bool(dense)
        if ok:
            # project: for every assignment of the dense/sol atoms there must be SOME assignment of the other atoms (the branch selectors)
            # under which the path is taken iff expected
            import itertools
            for vals in itertools.product((False, True), repeat=len(dense + solnone)):
                base = dict(zip(dense + solnone, vals))
                reach = False
                for ov in itertools.product((False, True), repeat=len(other)):
                    asg = dict(base)
                    asg.update(dict(zip(other, ov)))
                    from ..sym import eval_bool
                    strip = lambda t: ("atom", t[1]) if t[0] == "atom" else (t if t[0] == "const" else (t[0], [strip(x) for x in t[1]]))
                    if eval_bool(tree, asg):
                        reach = True
                if reach != expected(base):
                    ok = False
                    cex = base
    run.judged(rid, "dense lookup return reached iff dense output kept", ok=ok)
    if not ok:
        run.report("C19.4", DS, rets[0][0] if rets else fn, "with dense output kept a time lookup does not return (t, sol(t)) (or it does so when dense output is off)%s" % (
            "; e.g. with %s" % cex if cex else ""), text="dense lookup branch")


def length(repo, run, rule_id="C19.6"):
    rid = run.rule(rule_id, "len(system) is the number of recorded rows (counter + 1), which is what sequence iteration and negative indices rely on", floor=1)
    fn = repo.get(DS, "OdeSystem.__len__")
    run.analysed_fn(DS, fn)
    rets = [st for st in fn.body if isinstance(st, ast.Return)]
    ok = len(rets) == 1 and Canon().poly(rets[0].value) == Poly.atom("self.counter") + Poly.const(1)
    run.judged(rid, "__len__ returns %s" % (src(rets[0].value) if rets else None), ok=ok)
    if not ok:
        run.report(rule_id, DS, fn, "__len__ is not counter + 1")
    for q, want in (("OdeSystem.t", "self.__t[:self.counter + 1]"), ("OdeSystem.y", "self.__y[:self.counter + 1]")):
        g = repo.get(DS, q)
        r = [st for st in g.body if isinstance(st, ast.Return)]
        ok = len(r) == 1 and src(r[0].value) == want
        run.judged(rid, "%s returns %s" % (q, src(r[0].value) if r else None), ok=ok)
        if not ok:
            run.report(rule_id, DS, g, "the trimmed view %s is not %s" % (q, want))


def whole_run_slice(repo, run, fn, idx):
    """'a time slice spanning the whole run returns the whole run': evaluated in the abstract world of a slice whose stop bound lies strictly beyond the last
    recorded time and whose start bound lies before the first.  There the clamped bisection returns the last index N = counter for the stop and 0 for the
    start, a comparison `t[N] == stop` is false, and the rows returned must be [0 : N + 1] on every path (a stop of None slices to the end as well)."""
    import itertools
    rid = run.rule("C19.11", "slice branch, whole-run bounds (start before the first sample, stop beyond the last): on every path the rows returned are [0 : counter + 1]", floor=1)
    br = _branch(fn, lambda t: isinstance(t, ast.Call) and fname(t) == "isinstance" and len(t.args) == 2 and src(t.args[0]) == idx and src(t.args[1]) == "slice")
    if br is None:
        raise AnalysisError("__getitem__: slice branch not found")
    N = Poly.atom("N")

    class Unknown(Exception):
        pass

    def is_search(v):
        return isinstance(v, ast.Call) and (dotted(v.func) or "").split(".")[-1].startswith("search_bisection")

    def ev(v, env):
        if isinstance(v, ast.Constant) and isinstance(v.value, int) and not isinstance(v.value, bool):
            return Poly.const(v.value)
        if isinstance(v, ast.Constant) and v.value is None:
            return None
        if isinstance(v, ast.Name) and v.id in env:
            return env[v.id]
        if is_search(v) and len(v.args) == 2:
            which = [a for a in ("start", "stop") if "%s.%s" % (idx, a) in src(v.args[1])]
            if which == ["stop"]:
                return N
            if which == ["start"]:
                return Poly.const(0)
            raise Unknown(src(v))
        if isinstance(v, ast.Call) and isinstance(v.func, ast.Name) and ("%fn:" + v.func.id) in env and len(v.args) == 1 and not v.keywords:
            # a local helper `def pos(bound): return search_bisection(<times>, <bound>)` called with one of the slice bounds
            h = env["%fn:" + v.func.id]
            hp = [a.arg for a in h.args.args]
            hr = [st for st in h.body if isinstance(st, ast.Return)]
            body_ok = len(hp) == 1 and len(hr) == 1 and all(isinstance(st, (ast.Return, ast.Expr)) for st in h.body) and is_search(hr[0].value) and len(hr[0].value.args) == 2 and \
                any(isinstance(x, ast.Name) and x.id == hp[0] for x in ast.walk(hr[0].value.args[1]))
            if body_ok:
                which = [a for a in ("start", "stop") if "%s.%s" % (idx, a) in src(v.args[0])]
                if which == ["stop"]:
                    return N
                if which == ["start"]:
                    return Poly.const(0)
            raise Unknown(src(v))
        if src(v) in ("self.counter", "len(self) - 1", "len(self.t) - 1"):
            return N
        if src(v) in ("len(self)", "len(self.t)", "self.counter + 1"):
            return N + Poly.const(1)
        if isinstance(v, ast.BinOp) and isinstance(v.op, (ast.Add, ast.Sub)):
            a, b = ev(v.left, env), ev(v.right, env)
            if a is None or b is None:
                raise Unknown(src(v))
            return a + b if isinstance(v.op, ast.Add) else a - b
        if isinstance(v, ast.Call) and fname(v) in ("min", "max") and len(v.args) == 2:
            a, b = ev(v.args[0], env), ev(v.args[1], env)
            if a is not None and b is not None and a == b:
                return a
            d = (a - b) if a is not None and b is not None else None
            if d is not None and d.is_const():
                lo, hi = (a, b) if d.const_value() < 0 else (b, a)
                return lo if fname(v) == "min" else hi
            raise Unknown(src(v))
        if isinstance(v, ast.Call) and fname(v) == "int" and len(v.args) == 1:
            return ev(v.args[0], env)
        if isinstance(v, ast.Attribute) and src(v) == "%s.step" % idx:
            return Poly.atom("STEP")
        if isinstance(v, ast.IfExp):
            t = test(v.test, env)
            if t is None:
                raise Unknown(src(v))
            return ev(v.body if t else v.orelse, env)
        raise Unknown(src(v))

    def test(t, env):
        """truth of a test in the whole-run world given the None-ness chosen for the slice fields (env['?stop'] etc.); None = undecided (both branches explored)"""
        if isinstance(t, ast.Compare) and len(t.ops) == 1 and isinstance(t.ops[0], (ast.Is, ast.IsNot)) and isinstance(t.comparators[0], ast.Constant) and t.comparators[0].value is None:
            fld = src(t.left)
            for a in ("start", "stop", "step"):
                if fld == "%s.%s" % (idx, a):
                    isnone = env["?" + a]
                    return isnone if isinstance(t.ops[0], ast.Is) else not isnone
        if isinstance(t, ast.UnaryOp) and isinstance(t.op, ast.Not):
            r = test(t.operand, env)
            return None if r is None else not r
        if isinstance(t, ast.Compare) and len(t.ops) == 1 and isinstance(t.ops[0], (ast.Eq, ast.NotEq)):
            txt = src(t)
            if "%s.stop" % idx in txt or "%s.start" % idx in txt:
                # a recorded time never EQUALS a bound that lies strictly outside the run
                return isinstance(t.ops[0], ast.NotEq)
        return None

    def paths(stmts, env):
        """yield the environments at the Return statements reachable through `stmts`"""
        if not stmts:
            yield ("fall", env)
            return
        st, rest = stmts[0], stmts[1:]
        if isinstance(st, ast.Return):
            yield ("ret", env, st)
            return
        if isinstance(st, ast.Assign) and len(st.targets) == 1 and isinstance(st.targets[0], ast.Name):
            e2 = dict(env)
            try:
                e2[st.targets[0].id] = ev(st.value, env)
            except Unknown:
                e2[st.targets[0].id] = "?"
            yield from paths(rest, e2)
            return
        if isinstance(st, ast.AugAssign) and isinstance(st.target, ast.Name) and isinstance(st.op, (ast.Add, ast.Sub)):
            e2 = dict(env)
            try:
                cur, d = env.get(st.target.id), ev(st.value, env)
                e2[st.target.id] = (cur + d if isinstance(st.op, ast.Add) else cur - d) if isinstance(cur, Poly) and isinstance(d, Poly) else "?"
            except Unknown:
                e2[st.target.id] = "?"
            yield from paths(rest, e2)
            return
        if isinstance(st, ast.If):
            t = test(st.test, env)
            for val, body in ((True, st.body), (False, st.orelse)):
                if t is None or t == val:
                    for r in paths(body, dict(env, **{"!" + src(st.test)[:60]: val} if t is None else {})):
                        if r[0] == "fall":
                            yield from paths(rest, r[1])
                        else:
                            yield r
            return
        if isinstance(st, (ast.Expr, ast.Pass)):
            yield from paths(rest, env)
            return
        if isinstance(st, ast.FunctionDef):
            yield from paths(rest, dict(env, **{"%fn:" + st.name: st}))
            return
        raise AnalysisError("__getitem__ slice branch: statement outside the path interpreter: %s" % src(st)[:80])

    n = 0
    for sn, pn, en in itertools.product((False, True), repeat=3):
        env0 = {"?start": sn, "?stop": pn, "?step": en}
        for r in paths(br.body, env0):
            if r[0] != "ret":
                continue
            env, ret = r[1], r[2]
            subs = [x for x in ast.walk(ret.value) if isinstance(x, ast.Subscript) and isinstance(x.slice, ast.Slice) and src(x.value) in ("self.t", "self.y")]
            if not subs:
                raise AnalysisError("__getitem__ slice branch: the returned rows are not slices of self.t / self.y")
            for sub in subs:
                n += 1
                sl = sub.slice
                try:
                    lo = ev(sl.lower, env) if sl.lower is not None else None
                    hi = ev(sl.upper, env) if sl.upper is not None else None
                except Unknown as e:
                    raise AnalysisError("__getitem__ slice branch: bound outside the interpreter: %s" % e)
                if lo == "?" or hi == "?":
                    raise AnalysisError("__getitem__ slice branch: a bound was computed by a form outside the interpreter")
                ok = (lo is None or lo == Poly.const(0)) and (hi is None or hi == N + Poly.const(1))
                und = [k[1:] for k, v in env.items() if k.startswith("!")]
                run.judged(rid, "%s rows [%s : %s] with start %s, stop %s%s" % (src(sub.value), lo, hi, "None" if sn else "before the run", "None" if pn else "beyond the run",
                                                                                 " (undecided tests: %s)" % und if und else ""), ok=ok)
                if not ok:
                    run.report("C19.11", DS, sub, "for a time slice that spans the whole run (start %s, stop %s%s) the rows returned are [%s : %s], not [0 : counter + 1]: the clamped bisection "
                                                  "returns the last index for a stop beyond the run, and that sample belongs to the slice" % (
                                                      "None" if sn else "before the first sample", "None" if pn else "beyond the last sample",
                                                      "; on the path %s" % {k[1:]: v for k, v in env.items() if k.startswith("!")} if und else "", lo, hi),
                               text="whole-run slice of %s" % src(sub.value))
    if n == 0:
        raise AnalysisError("__getitem__ slice branch: no return found")
