"""C10 — symplectic, time-reversible maps: algebraic conditions on the folded tables of every shipped
method flagged symplectic, plus the shape of the drift/kick update that makes each stage a shear."""
import ast
from fractions import Fraction

from .. import tab, extract
from ..front import AnalysisError, is_self_attr, src, fname, walk_no_nested, dotted

LEVEL = "proof"
TOL = Fraction(1, 10 ** 13)
# schemes that are symmetric by their references (Gauss collocation; palindromic compositions of
# arXiv:1501.04345 and Stoermer-Verlet): the reversibility clause of C10 is claimed for exactly these
SYMMETRIC_BY_REFERENCE = {"GaussLegendre4", "GaussLegendre6", "ImplicitMidpoint",
                          "SymplecticEulerSolver", "BABs9o7HSolver", "ABAs5o6HSolver"}


def run(repo, run, tier):
    classes, exp, imp = tab.load_tables(repo)
    run.trusted += ["Lasagni/Sanz-Serna/Suris: b_i a_ij + b_j a_ji = b_i b_j implies a symplectic RK map",
                    "a composition of shears q += a h dT/dp, p -= b h dV/dq is symplectic for separable H",
                    "a palindromic composition of exact sub-flows is time-reversible",
                    "python ast, fractions; the analyser in /verif/sa"]
    run.assumptions += ["step() evaluates the map defined by the tables (property C02's clause, partly re-checked here as C10.4)"]
    # the one-step map is a function of (t, y, h) alone: every return of the splitting step comes after the reset of the increment and after the sweep over the table
    # (a short-cut return for steps that 'cannot advance the clock' hands back the PREVIOUS call's increment: h followed by -h no longer returns to the start)
    from .common import returns_pass_through
    returns_pass_through(repo, run, "C10.11", extract.ITYPES, "ExplicitSymplecticIntegrator.step",
                         [("the reset of the increment (self.dState)", lambda st: (isinstance(st, ast.AugAssign) and isinstance(st.op, ast.Mult) and is_self_attr(st.target, "dState")) or
                           (isinstance(st, ast.Assign) and any(is_self_attr(t, "dState") for t in st.targets) and "zeros" in src(st.value))),
                          ("the stage loop (the loop that evaluates the right-hand side)", lambda st: isinstance(st, ast.For) and any(isinstance(c, ast.Call) and dotted(c.func) == "rhs" for c in ast.walk(st)))],
                         "the splitting step", "the map returned depends on the history of the instance, and the composition of a step h and a step -h is not the identity")
    r1 = run.rule("C10.1", "every shipped RK class flagged symplectic satisfies max|b_i a_ij + b_j a_ji - b_i b_j| <= 1e-13", floor=3)
    r2 = run.rule("C10.2", "the flagged RK classes are symmetric: a_{s+1-i,s+1-j} + a_ij = b_j, b_{s+1-i} = b_i", floor=3)
    r3 = run.rule("C10.3", "every shipped splitting table: each row has at most one of (drift, kick) non-zero, "
                           "sum drift = sum kick = 1, the (drift, kick) sequence is palindromic", floor=3)
    r4 = run.rule("C10.4", "the splitting step is a sequence of shears: update aux*(T[s,d]*drift_mask + T[s,k]*kick_mask), "
                           "drift_mask = 1 - kick_mask, slope evaluated at the running partial state; every class "
                           "flagged symplectic is one of the two kinds checked here", floor=4)
    prow, _ = extract.propagated_row(repo)
    try:
        dcol, kcol, upd, stepfn = extract.splitting_columns(repo)
    except AnalysisError:
        # the shape of the drift/kick update is not one the table rules can read: the rules about HOW THE MASK GETS THERE do not need it and are judged first,
        # so that a violation they establish is reported (report.run_rules keeps it when the remainder cannot be decided)
        _mask_rules(repo, run)
        raise
    run.analysed_fn(extract.ITYPES, stepfn)
    nflag = 0
    for name in exp + imp:
        fc = classes[name]
        kind = tab.base_kind(fc)
        flagged = fc.attrs.get("symplectic")
        if kind == "split":
            # ExplicitSymplecticIntegrator sets symplectic = True for all subclasses unless overridden
            if flagged is None:
                base = repo.get(extract.ITYPES, extract.SPLIT)
                flagged = any(isinstance(b, ast.Assign) and isinstance(b.targets[0], ast.Name) and b.targets[0].id == "symplectic"
                              and isinstance(b.value, ast.Constant) and b.value.value is True for b in base.body)
            if not flagged:
                continue
            nflag += 1
            ti = fc.table("tableau_intermediate")
            comp = [(r[dcol], r[kcol]) for r in ti]
            one_each = all(d == 0 or k == 0 for d, k in comp)
            sd, sk = sum(d for d, _ in comp), sum(k for _, k in comp)
            sums = abs(sd - 1) <= TOL and abs(sk - 1) <= TOL
            pal = name not in SYMMETRIC_BY_REFERENCE or all(
                abs(comp[i][0] - comp[-1 - i][0]) <= TOL and abs(comp[i][1] - comp[-1 - i][1]) <= TOL for i in range(len(comp)))
            ok = one_each and sums and pal
            run.judged(r3, "%s: %d stages, exclusive=%s sum_drift-1=%.2g sum_kick-1=%.2g palindromic=%s" % (
                name, len(comp), one_each, float(sd - 1), float(sk - 1), pal), ok=ok)
            run.analysed_fn(fc.rel, name)
            if not ok:
                why = []
                if not one_each:
                    why.append("a row moves positions and momenta in the same stage (not a shear)")
                if not sums:
                    why.append("coefficients do not sum to one (drift %.12g, kick %.12g)" % (float(sd), float(sk)))
                if not pal:
                    why.append("the coefficient sequence is not palindromic, so h followed by -h does not return the start")
                run.report("C10.3", fc.rel, fc.attr_nodes["tableau_intermediate"], "; ".join(why), qual=name,
                           text="%s drift/kick sequence" % name)
        else:
            if not flagged:
                continue
            nflag += 1
            c, A, rows = tab.split_rk(fc.table("tableau_intermediate"), fc.table("tableau_final"))
            b = rows[prow]
            res = tab.symplectic_residual(A, b)
            ok = res <= TOL
            run.judged(r1, "%s: max|M| = %.3g" % (name, float(res)), ok=ok)
            run.analysed_fn(fc.rel, name)
            if not ok:
                run.report("C10.1", fc.rel, fc.attr_nodes.get("symplectic", fc.node),
                           "flagged symplectic but max|b_i a_ij + b_j a_ji - b_i b_j| = %.3g" % float(res), qual=name,
                           text="%s symplecticity condition" % name)
            if name not in SYMMETRIC_BY_REFERENCE:
                continue
            sres = tab.symmetric_residual(A, b)
            ok2 = sres <= TOL
            run.judged(r2, "%s: symmetry residual %.3g" % (name, float(sres)), ok=ok2)
            if not ok2:
                run.report("C10.2", fc.rel, fc.attr_nodes["tableau_intermediate"],
                           "flagged symplectic (Gauss/midpoint family, symmetric by construction) but the symmetry residual "
                           "is %.3g: a step of h followed by -h does not return the start" % float(sres), qual=name,
                           text="%s symmetry condition" % name)
    run.extra["flagged_symplectic"] = nflag
    shear_shape(repo, run, r4, upd, stepfn, dcol, kcol)
    # the implicit symplectic methods (Gauss, implicit midpoint) are symplectic and reversible as the EXACT solution map of their stage equations:
    # a step handed back with unconverged stages is neither; the acceptance typestate of C02.4 is therefore a necessary condition here too
    from .c02 import newton
    newton(repo, run, rule_id="C10.5")
    _mask_rules(repo, run)



def _mask_rules(repo, run):
    kick_mask_plumbing(repo, run)
    kick_mask_dataflow(repo, run)
    default_mask(repo, run)
    mask_reaches_live_integrator(repo, run)
    from .common import instance_tables_are_class_tables
    instance_tables_are_class_tables(repo, run, "C10.10")


def shear_shape(repo, run, r4, upd, stepfn, dcol, kcol):
    rel = extract.ITYPES
    # (a) update is aux * ( T[stage,d]*drift_mask + T[stage,k]*kick_mask )   (locals abbreviating the coefficients are inlined)
    from ..sym import inline_locals
    env_ = {k: v_ for k, v_ in inline_locals(stepfn).items() if k != "aux" and not isinstance(v_, ast.Call)}
    v = extract._subst(upd.value, env_)
    for n_ in ast.walk(v):
        for ch in ast.iter_child_nodes(n_):
            ch._parent = n_
    ok = False
    stage_names = set()
    if isinstance(v, ast.BinOp) and isinstance(v.op, ast.Mult):
        for aux, lin in ((v.left, v.right), (v.right, v.left)):
            if isinstance(aux, ast.Name) and isinstance(lin, ast.BinOp) and isinstance(lin.op, ast.Add):
                terms = [lin.left, lin.right]
                masks = []
                for t in terms:
                    if isinstance(t, ast.BinOp) and isinstance(t.op, ast.Mult):
                        for a, b in ((t.left, t.right), (t.right, t.left)):
                            if is_self_attr(b) and b.attr in ("drift_mask", "kick_mask") and isinstance(a, ast.Subscript) and \
                                    is_self_attr(a.value, "tableau_intermediate"):
                                masks.append(b.attr)
                                stage_names.add(src(a.slice.elts[0]))
                ok = sorted(masks) == ["drift_mask", "kick_mask"] and len(stage_names) == 1
                auxname = aux.id
                if ok:
                    break
    run.judged(r4, "update statement: %s" % src(upd), ok=ok)
    if not ok:
        run.report("C10.4", rel, upd, "the stage update is not aux*(T[stage,d]*drift_mask + T[stage,k]*kick_mask) with one stage index")
        return
    if dcol == kcol:
        run.report("C10.4", rel, upd, "drift and kick read the same table column %d" % dcol)
    # (b) aux = timestep * rhs(current_time, initial_state + self.dState, ...) on every assignment
    params = [a.arg for a in stepfn.args.args]
    rhs_p, t0_p, y0_p, h_p = params[1], params[2], params[3], params[5]
    auxdefs = [st for st in ast.walk(stepfn) if isinstance(st, ast.Assign) and isinstance(st.targets[0], ast.Name) and st.targets[0].id == auxname]
    slope_names = {}
    for st in ast.walk(stepfn):
        if isinstance(st, ast.Assign) and isinstance(st.value, ast.Call) and isinstance(st.value.func, ast.Name) and st.value.func.id == rhs_p:
            for t in st.targets:
                slope_names[src(t)] = st.value
    okb = bool(auxdefs)
    for st in auxdefs:
        val = st.value
        good = False
        if isinstance(val, ast.BinOp) and isinstance(val.op, ast.Mult):
            for a, b in ((val.left, val.right), (val.right, val.left)):
                if isinstance(a, ast.Name) and a.id == h_p:
                    call = b if isinstance(b, ast.Call) else slope_names.get(src(b))
                    if isinstance(call, ast.Call) and isinstance(call.func, ast.Name) and call.func.id == rhs_p and len(call.args) >= 2:
                        sarg = call.args[1]
                        if isinstance(sarg, ast.BinOp) and isinstance(sarg.op, ast.Add):
                            parts = {src(sarg.left), src(sarg.right)}
                            good = parts == {y0_p, "self.dState"}
        # the slope must be evaluated in this stage, unconditionally: a cached attribute guarded by `if <cache> is None` may be stale
        if good and isinstance(val, ast.BinOp):
            operand = val.right if (isinstance(val.left, ast.Name) and val.left.id == h_p) else val.left
            if not isinstance(operand, ast.Call):
                defs = [s2 for s2 in ast.walk(stepfn) if isinstance(s2, ast.Assign) and any(src(t) == src(operand) for t in s2.targets)]
                same_block = [s2 for s2 in defs if s2._parent is st._parent and s2.lineno < st.lineno]
                if not same_block:
                    good = False
        run.judged(r4, "slope: %s" % src(st), ok=good)
        if not good:
            okb = False
            run.report("C10.4", rel, st, "a stage slope is not timestep * rhs(time, initial_state + self.dState) evaluated unconditionally in that stage (a cached slope may "
                                        "belong to another state): the sub-steps are not shears evaluated at the running partial state, so the map is neither "
                                        "symplectic nor a function of (t, y, h) alone")
    # (c) drift_mask = 1 - kick_mask in __init__
    init = repo.get(rel, extract.SPLIT + ".__init__")
    run.analysed_fn(rel, init)
    okc = False
    for st in walk_no_nested(init):
        if isinstance(st, ast.Assign) and any(is_self_attr(t, "drift_mask") for t in st.targets):
            val = st.value
            if isinstance(val, ast.BinOp) and isinstance(val.op, ast.Sub) and is_self_attr(val.right, "kick_mask"):
                try:
                    from ..front import const_value
                    okc = const_value(val.left) == 1
                except ValueError:
                    okc = False
            node_c = st
    run.judged(r4, "drift_mask = 1 - kick_mask", ok=okc)
    if not okc:
        run.report("C10.4", rel, init, "drift_mask is not the complement 1 - kick_mask: a variable would be moved by both "
                                       "the drift and the kick (or by neither)", text="drift_mask definition")
    # (d) self.dState reset at the start of the step
    okd = False
    for st in stepfn.body:
        if isinstance(st, ast.AugAssign) and is_self_attr(st.target, "dState") and isinstance(st.op, ast.Mult):
            try:
                from ..front import const_value
                okd = const_value(st.value) == 0
            except ValueError:
                pass
        if isinstance(st, ast.Assign) and any(is_self_attr(t, "dState") for t in st.targets) and isinstance(st.value, ast.Call) \
                and fname(st.value) in ("zeros_like", "zeros"):
            okd = True
        if isinstance(st, ast.For):
            break
    run.judged(r4, "dState zeroed before the stage loop", ok=okd)
    if not okd:
        run.report("C10.4", rel, stepfn, "self.dState is not reset before the stage loop: the step would start from the previous "
                                         "step's increment", text="dState reset")


# ------------------------------------------------------------------------------------------------
BACKEND = "desolver/backend/"


def backend_namespace(repo):
    """names that `import desolver.backend as D` provides, resolved statically: load_backend star-imports common, autoray_backend, numpy_backend and
    (optionally) torch_backend; a module with __all__ exports that list, otherwise its public top-level names"""
    import ast as _ast

    def top_names(mod):
        names, allv = set(), None
        for st in _ast.walk(mod.tree):
            if isinstance(st, (_ast.FunctionDef, _ast.ClassDef)) and st._parent is mod.tree:
                names.add(st.name)
        for st in mod.tree.body:
            todo = [st]
            if isinstance(st, (_ast.Try, _ast.If, _ast.With)):
                todo = [x for x in _ast.walk(st) if isinstance(x, _ast.stmt)]
            for x in todo:
                if isinstance(x, _ast.Assign):
                    for t in x.targets:
                        names |= {n.id for n in _ast.walk(t) if isinstance(n, _ast.Name)}
                        if isinstance(t, _ast.Name) and t.id == "__all__" and isinstance(x.value, (_ast.List, _ast.Tuple)):
                            allv = {e.value for e in x.value.elts if isinstance(e, _ast.Constant)}
                elif isinstance(x, _ast.Import):
                    names |= {(a.asname or a.name).split(".")[0] for a in x.names}
                elif isinstance(x, _ast.ImportFrom):
                    names |= {a.asname or a.name for a in x.names if a.name != "*"}
                elif isinstance(x, (_ast.FunctionDef, _ast.ClassDef)):
                    names.add(x.name)
        return names, allv
    lb = repo.module(BACKEND + "load_backend.py")
    ns, _ = top_names(lb)
    stars = [st for st in _ast.walk(lb.tree) if isinstance(st, _ast.ImportFrom) and any(a.name == "*" for a in st.names)]
    if not stars:
        raise AnalysisError("desolver.backend: star imports of load_backend not found")
    for st in stars:
        rel = BACKEND + (st.module or "").split(".")[-1] + ".py"
        if rel not in repo.modules:
            raise AnalysisError("desolver.backend: star-imported module %s not found" % rel)
        names, allv = top_names(repo.module(rel))
        ns |= allv if allv is not None else {n for n in names if not n.startswith("_")}
    init = repo.module(BACKEND + "__init__.py")
    if not any(isinstance(st, _ast.ImportFrom) and (st.module or "").endswith("load_backend") and any(a.name == "*" for a in st.names) for st in init.tree.body):
        raise AnalysisError("desolver.backend.__init__ no longer star-imports load_backend")
    return ns


def kick_mask_plumbing(repo, run):
    """'for all kick masks': a mask given by the user must reach the splitting integrator and the code that installs it must be executable"""
    import ast as _ast
    from ..front import walk_no_nested, is_self_attr, src, dotted
    rid = run.rule("C10.6", "kick-mask plumbing: (a) the guard under which OdeSystem hands the user's mask to the integrator reads no @property through the CLASS "
                            "object self.__method (a property object is always truthy, `not <property>` always false); (b) every name the mask-installing code "
                            "takes from desolver.backend exists there (resolved statically through the package's star imports)", floor=3)
    DSF = "desolver/differential_system.py"
    ITY = extract.ITYPES
    # properties of the integrator classes
    props = set()
    for rel in (ITY, "desolver/integrators/integrator_template.py"):
        for q, n in repo.functions(rel):
            if any(dotted(d) == "property" for d in n.decorator_list):
                props.add(n.name)
    if "is_implicit" not in props:
        raise AnalysisError("integrator classes: the is_implicit property was not found")
    cls = repo.get(DSF, "OdeSystem")
    n_reads = 0
    for fn in [n for n in cls.body if isinstance(n, _ast.FunctionDef)]:
        # self.__method holds a class: it is called to construct self.integrator
        for x in _ast.walk(fn):
            if isinstance(x, _ast.Attribute) and is_self_attr(x.value, "__method") and isinstance(x.ctx, _ast.Load):
                n_reads += 1
                ok = x.attr not in props
                run.judged(rid, "%s: class-level read %s" % (fn.name, src(x)), ok=ok)
                if not ok:
                    run.report("C10.6", DSF, x, "`%s` reads the property `%s` through the class object held in self.__method: the value is the property object itself "
                                                "(always truthy), not the method's flag; the condition it appears in is constant and the user's kick mask is never "
                                                "handed to the splitting integrator (the default half/half mask is used silently)" % (src(x), x.attr))
    if n_reads == 0:
        raise AnalysisError("OdeSystem: no class-level reads through self.__method found")
    # (c) a mask stored with set_kick_vars survives a change of method made without a mask: on the path `argument is None` the helper that
    #     chooses the mask for set_method must fall back to a stored mask (the integrator's or the system's), never hand the None back
    import itertools
    from ..sym import path_condition, tree_atoms, eval_bool, BoolTracker
    gm = repo.maybe(DSF, "OdeSystem.__get_integrator_mask")
    sm = repo.get(DSF, "OdeSystem.set_method")
    uses = [x for x in _ast.walk(sm) if isinstance(x, _ast.Call) and dotted(x.func) == "self.__get_integrator_mask"]
    if gm is not None and uses:
        par = [a.arg for a in gm.args.args if a.arg != "self"][0]
        for ret in [r for r in walk_no_nested(gm) if isinstance(r, _ast.Return)]:
            bt = BoolTracker()
            pc, _ = path_condition(ret, gm, tracker=bt, guards=True)
            atoms = tree_atoms(pc)
            nones = [a for a in atoms if a.split("@")[0] in ("%s Is None" % par, "None Is %s" % par)]
            free = [a for a in atoms if a not in nones]
            reach_none = False
            for vals in itertools.product((False, True), repeat=min(len(free), 10)):
                asg = dict(zip(free, vals))
                asg.update({a: True for a in nones})
                if eval_bool(pc, asg):
                    reach_none = True
            v_ = ret.value
            maybe_none = (isinstance(v_, _ast.Name) and v_.id == par) or (isinstance(v_, _ast.Constant) and v_.value is None) or v_ is None or (
                isinstance(v_, _ast.Call) and dotted(v_.func) == "getattr" and len(v_.args) == 3 and isinstance(v_.args[2], _ast.Constant) and v_.args[2].value is None) or (
                isinstance(v_, _ast.Call) and isinstance(v_.func, _ast.Attribute) and v_.func.attr == "get" and (len(v_.args) == 1 or (
                    len(v_.args) == 2 and isinstance(v_.args[1], _ast.Constant) and v_.args[1].value is None)))
            gives_back_none = reach_none and maybe_none
            run.judged(rid, "__get_integrator_mask: `%s` %s" % (src(ret), "reachable with no mask given" if reach_none else "only with a mask given"), ok=not gives_back_none)
            if gives_back_none:
                run.report("C10.6", DSF, ret, "set_method called without a mask (e.g. `system.method = ...`) stores what this helper returns; on the path where the current integrator "
                                              "has no mask of its own it returns the argument, i.e. None, which overwrites the mask the user stored with set_kick_vars: the new "
                                              "splitting integrator silently uses the default half/half mask")
    ns = backend_namespace(repo)
    run.judged(rid, "desolver.backend namespace resolved: %d names" % len(ns), ok=len(ns) >= 10)
    mod = repo.module(ITY)
    als = [k for k, v in mod.aliases.items() if v.endswith("backend")]
    if not als:
        raise AnalysisError("integrator_types: backend alias not found")
    n_fn = 0
    for q, fn in repo.functions(ITY):
        if not any(isinstance(x, _ast.Name) and x.id == "staggered_mask" or isinstance(x, _ast.Constant) and x.value == "staggered_mask" for x in _ast.walk(fn)):
            continue
        n_fn += 1
        bad = [x for x in walk_no_nested(fn) if isinstance(x, _ast.Attribute) and isinstance(x.value, _ast.Name) and x.value.id in als and x.attr not in ns]
        run.judged(rid, "%s: backend names used by the mask code all exist" % q, ok=not bad)
        for x in bad:
            run.report("C10.6", ITY, x, "`%s` does not exist in desolver.backend (resolved through its star imports): installing a kick mask raises AttributeError, so no "
                                        "mask other than the default can be used" % src(x))
    if n_fn == 0:
        raise AnalysisError("integrator_types: no function handles staggered_mask")


ELEMENTWISE = ("asarray", "array", "astype", "copy", "to_type", "atleast_1d", "bool_", "clone", "to")


def kick_mask_dataflow(repo, run):
    """'all kick masks': a mask given by the user has the shape of the state and says, element by element, which variables are kicked; on the path where a
    mask was given the integrator's mask must be an ELEMENTWISE conversion of it (no reduction to indices, no re-indexing of a fresh array)"""
    import ast as _ast
    from ..front import walk_no_nested, is_self_attr, src, dotted, fname
    from ..sym import path_condition, tree_atoms, eval_bool, BoolTracker
    import itertools
    rid = run.rule("C10.7", "on the path where the user gave a kick mask, self.staggered_mask is bound once, to an elementwise conversion of that argument "
                            "(asarray/astype/...), the argument is not rebound and nothing is stored into the mask afterwards; kick_mask is a conversion of it", floor=3)
    ITY = extract.ITYPES
    init = repo.get(ITY, extract.SPLIT + ".__init__")
    run.analysed_fn(ITY, init)
    P = "staggered_mask"
    if P not in [a.arg for a in init.args.args]:
        raise AnalysisError("ExplicitSymplecticIntegrator.__init__ has no staggered_mask parameter")

    def on_user_path(st):
        """can st execute when the argument is not None?"""
        bt = BoolTracker()
        pc, _ = path_condition(st, init, tracker=bt, guards=True)
        atoms = tree_atoms(pc)
        none_atoms = [a for a in atoms if a.split("@")[0] in ("%s Is None" % P, "None Is %s" % P)]
        free = [a for a in atoms if a not in none_atoms]
        if len(free) > 12:
            return True
        for vals in itertools.product((False, True), repeat=len(free)):
            asg = dict(zip(free, vals))
            for a in none_atoms:
                asg[a] = False
            if eval_bool(pc, asg):
                return True
        return False

    def elementwise(e):
        if isinstance(e, _ast.Name):
            return e.id == P
        if isinstance(e, _ast.Call):
            f = fname(e)
            if f in ELEMENTWISE and e.args:
                return elementwise(e.args[0])
            if isinstance(e.func, _ast.Attribute) and e.func.attr in ELEMENTWISE:
                return elementwise(e.func.value)
        return False
    rebinds, binds, index_stores = [], [], []
    for st in walk_no_nested(init):
        if isinstance(st, (_ast.Assign, _ast.AugAssign)):
            tg = st.targets if isinstance(st, _ast.Assign) else [st.target]
            for t in tg:
                if isinstance(t, _ast.Name) and t.id == P and on_user_path(st):
                    rebinds.append(st)
                if is_self_attr(t, P) and on_user_path(st):
                    binds.append(st)
                if isinstance(t, _ast.Subscript) and is_self_attr(t.value, P) and on_user_path(st):
                    index_stores.append(st)
    ok1 = len(binds) == 1 and isinstance(binds[0], _ast.Assign) and elementwise(binds[0].value)

    def copies(e):
        """does the conversion chain contain a call that always returns a new array (astype / copy / array / a logical or arithmetic result)?  asarray alone returns
        the caller's own object when it already is an array of the requested dtype"""
        if isinstance(e, _ast.Call):
            f = (fname(e) or "").split(".")[-1]
            if f in ("astype", "copy", "clone", "array", "logical_not", "not_equal", "greater", "nonzero") or (isinstance(e.func, _ast.Attribute) and e.func.attr in ("astype", "copy", "clone")):
                return not any(k.arg == "copy" and isinstance(k.value, _ast.Constant) and k.value.value is False for k in e.keywords)
            if e.args and copies(e.args[0]):
                return True
            if isinstance(e.func, _ast.Attribute) and copies(e.func.value):
                return True
        return isinstance(e, (_ast.BinOp, _ast.Compare, _ast.UnaryOp))
    if ok1:
        okc = copies(binds[0].value)
        run.judged(rid, "user path: the stored mask is a copy of the argument (%s)" % src(binds[0].value)[:70], ok=okc)
        if not okc:
            run.report("C10.7", ITY, binds[0], "the integrator keeps `%s` as its kick mask: `asarray` returns the caller's own array when it already has the requested dtype, so a mask "
                       "buffer the caller refills afterwards (to configure another system) silently changes which variables THIS integrator kicks -- the step map stops being "
                       "the composition of shears it was configured as" % src(binds[0].value)[:60], text="user-mask binding aliases the argument")
    run.judged(rid, "user path: self.staggered_mask bound by %s" % [src(b)[:90] for b in binds], ok=ok1)
    if not ok1:
        run.report("C10.7", ITY, binds[0] if binds else init, "when a kick mask is given, self.staggered_mask is not (only) an elementwise conversion of that argument: the split "
                                                             "applied to the state is not the one the user specified", text="user-mask binding: %s" % [src(b)[:60] for b in binds])
    ok2 = not rebinds and not index_stores
    run.judged(rid, "user path: argument not rebound (%d), no indexed store into the mask (%d)" % (len(rebinds), len(index_stores)), ok=ok2)
    for st in rebinds + index_stores:
        run.report("C10.7", ITY, st, "on the path where the user gave a kick mask %s: a mask of the state's shape is reduced to indices of its leading axis (or overwritten), so "
                                     "variables the user did not select are kicked and the step is no longer a composition of shears" % (
                                         "the argument is rebound" if st in rebinds else "the mask is written through an index"))
    km = [st for st in walk_no_nested(init) if isinstance(st, _ast.Assign) and any(is_self_attr(t, "kick_mask") for t in st.targets)]
    ok3 = len(km) == 1 and isinstance(km[0].value, _ast.Call) and fname(km[0].value) in ELEMENTWISE and km[0].value.args and is_self_attr(km[0].value.args[0], P)
    run.judged(rid, "kick_mask = conversion of self.staggered_mask: %s" % [src(k)[:80] for k in km], ok=ok3)
    if not ok3:
        run.report("C10.7", ITY, km[0] if km else init, "kick_mask is not an elementwise conversion of self.staggered_mask", text="kick_mask binding")


# ------------------------------------------------------------------------------------------------
def default_mask(repo, run):
    """'for all kick masks' includes the documented default (no mask given: the latter half of the variables along the leading axis are the momenta).  On
    the path `staggered_mask is None` the statements that build self.staggered_mask are interpreted over index SETS of the leading axis for n = 2..9
    leading entries: the set of entries switched on must be {n//2, ..., n-1}."""
    import ast as _ast
    from ..front import walk_no_nested, is_self_attr, src, fname, const_value
    rid = run.rule("C10.8", "default kick mask (no mask given): interpreting the statements of that path over index sets of the leading axis for n = 2..9, the entries "
                            "switched on are exactly n//2 .. n-1 (the latter half are the kick variables)", floor=8)
    ITY = extract.ITYPES
    init = repo.get(ITY, extract.SPLIT + ".__init__")
    P = "staggered_mask"
    dimp = [a.arg for a in init.args.args][1]
    branch = None
    for st in init.body:
        if isinstance(st, _ast.If):
            t = src(st.test).replace(" ", "")
            if t in ("%sisNone" % P,):
                branch = st.body
            elif t in ("%sisnotNone" % P,):
                branch = st.orelse
    if not branch:
        raise AnalysisError("ExplicitSymplecticIntegrator.__init__: the `staggered_mask is None` path was not found")

    class Unknown(Exception):
        pass

    def ev(e, n, env):
        """integer, or frozenset of leading-axis indices"""
        if isinstance(e, _ast.Constant) and isinstance(e.value, (int, bool)):
            return int(e.value)
        if isinstance(e, _ast.Constant) and e.value is None:
            return None
        if isinstance(e, _ast.Name):
            if e.id in env:
                return env[e.id]
            raise Unknown(e.id)
        if isinstance(e, _ast.Subscript) and isinstance(e.value, _ast.Name) and e.value.id == dimp:
            if ev(e.slice, n, env) == 0:
                return n
            raise Unknown(src(e))
        if isinstance(e, _ast.Call) and fname(e) == "len" and len(e.args) == 1:
            raise Unknown(src(e))
        if isinstance(e, _ast.BinOp):
            l, r = ev(e.left, n, env), ev(e.right, n, env)
            if isinstance(l, int) and isinstance(r, int):
                if isinstance(e.op, _ast.FloorDiv):
                    return l // r
                if isinstance(e.op, _ast.Add):
                    return l + r
                if isinstance(e.op, _ast.Sub):
                    return l - r
                if isinstance(e.op, _ast.Mult):
                    return l * r
                if isinstance(e.op, _ast.RShift):
                    return l >> r
            raise Unknown(src(e))
        if isinstance(e, _ast.UnaryOp) and isinstance(e.op, _ast.USub):
            return -ev(e.operand, n, env)
        if isinstance(e, _ast.Call) and fname(e) in ("arange", "range"):
            a = [ev(x, n, env) for x in e.args]
            a = a if len(a) > 1 else [0] + a
            return frozenset(range(*a))
        if isinstance(e, _ast.Call) and fname(e) == "slice":
            a = [ev(x, n, env) for x in e.args]
            return frozenset(range(n)[slice(*a)])
        if isinstance(e, _ast.Slice):
            return frozenset(range(n)[slice(*(None if x is None else ev(x, n, env) for x in (e.lower, e.upper, e.step)))])
        if isinstance(e, (_ast.List, _ast.Tuple)):
            return frozenset(ev(x, n, env) for x in e.elts)
        if isinstance(e, _ast.Call) and fname(e) in ("asarray", "array", "astype") and e.args:
            return ev(e.args[0], n, env)
        raise Unknown(src(e)[:60])

    def wrap(i, n):
        return i + n if i < 0 else i
    run.analysed_fn(ITY, init)
    for n in range(2, 10):
        env, on = {}, None
        try:
            for st in branch:
                if isinstance(st, _ast.Assign) and len(st.targets) == 1:
                    t = st.targets[0]
                    if isinstance(t, _ast.Name):
                        try:
                            env[t.id] = ev(st.value, n, env)
                        except Unknown:
                            env.pop(t.id, None)
                    elif is_self_attr(t, P):
                        f = fname(st.value) if isinstance(st.value, _ast.Call) else None
                        if f in ("zeros", "zeros_like"):
                            on = set()
                        elif f in ("ones", "ones_like"):
                            on = set(range(n))
                        else:
                            raise Unknown("mask initialised by `%s`" % src(st.value)[:50])
                    elif isinstance(t, _ast.Subscript) and is_self_attr(t.value, P):
                        if on is None:
                            raise Unknown("store into the mask before it exists")
                        sl = t.slice.elts[0] if isinstance(t.slice, _ast.Tuple) else t.slice
                        if isinstance(sl, _ast.Constant) and sl.value is Ellipsis:
                            idx = frozenset(range(n))
                        else:
                            idx = ev(sl, n, env)
                        idx = {wrap(idx, n)} if isinstance(idx, int) else {wrap(i, n) for i in idx}
                        val = st.value.value if isinstance(st.value, _ast.Constant) and isinstance(st.value.value, bool) else const_value(st.value)
                        on = (on | idx) if val else (on - idx)
                    else:
                        raise Unknown("statement `%s`" % src(st)[:50])
                elif isinstance(st, (_ast.Expr, _ast.Pass)):
                    continue
                else:
                    raise Unknown("statement kind %s" % type(st).__name__)
            if on is None:
                raise Unknown("the mask is never built on this path")
        except Unknown as e:
            raise AnalysisError("ExplicitSymplecticIntegrator.__init__: the default-mask path is outside the index-set domain (%s)" % e)
        except (ValueError, TypeError) as e:
            raise AnalysisError("ExplicitSymplecticIntegrator.__init__: the default-mask path could not be interpreted (%r)" % (e,))
        want = set(range(n // 2, n))
        ok = on == want
        run.judged(rid, "n = %d: kick entries %s" % (n, sorted(on)), ok=ok)
        if not ok:
            stores = [st for st in branch if isinstance(st, _ast.Assign) and isinstance(st.targets[0], _ast.Subscript)]
            run.report("C10.8", ITY, stores[-1] if stores else init, "with no kick mask given and %d entries along the leading axis the default mask switches on the entries %s, not the "
                       "latter half %s: the remaining momenta are advanced in the drift stages from the same right-hand-side evaluation as their positions, which is "
                       "not a composition of shears (not symplectic, not reversible) for 2 or more degrees of freedom" % (n, sorted(on), sorted(want)),
                       text="default kick mask")
            break


# ------------------------------------------------------------------------------------------------
def mask_reaches_live_integrator(repo, run):
    """'for all kick masks', however the mask is handed over: set_method(name, staggered_mask=mask) stores the mask on the system and then has to (re)build the integrator
    with it on EVERY path -- also when the method named is the one already active.  An early return after the store leaves the live splitting integrator stepping with
    its old (default) mask."""
    import ast as _ast
    from ..front import walk_no_nested, is_self_attr, src, dotted
    from ..imodel import path_key
    rid = run.rule("C10.9", "OdeSystem.set_method: after the kick mask is stored on the system no `return` precedes the call of initialise_integrator (must-pass-through: the "
                            "integrator is rebuilt with the new mask on every path)", floor=1)
    DSF = "desolver/differential_system.py"
    fn = repo.get(DSF, "OdeSystem.set_method")
    run.analysed_fn(DSF, fn)
    stores = [st for st in walk_no_nested(fn) if isinstance(st, _ast.Assign) and any(is_self_attr(t, "staggered_mask") for t in st.targets)]
    inits = [c for c in _ast.walk(fn) if isinstance(c, _ast.Call) and dotted(c.func) == "self.initialise_integrator"]
    if not stores or not inits:
        raise AnalysisError("set_method: the mask store or the integrator (re)construction was not found")
    k0 = min(path_key(st, fn) for st in stores)
    k1 = max(path_key(c, fn) for c in inits)
    rets = [r for r in walk_no_nested(fn) if isinstance(r, _ast.Return) and k0 < path_key(r, fn) < k1]
    run.judged(rid, "returns between the mask store and initialise_integrator: %d" % len(rets), ok=not rets)
    for r in rets:
        run.report("C10.9", DSF, r, "set_method can return after storing the kick mask on the system and before (re)building the integrator: the live splitting integrator keeps "
                   "its previous mask (e.g. the default half/half one), so a mask handed over for the method that is already active is silently ignored and the step is no "
                   "longer the composition of shears the user specified")
