"""C13 — history independence and reset: everything integrate() writes is re-initialised by reset() to the value the
constructor gives it; the caller's y0/constants are not aliased or written; a call made at the target changes nothing."""
import ast

from ..access import ClassModel
from ..front import AnalysisError, dotted, fname, is_self_attr, src, walk_no_nested, norm
from ..imodel import IntegrateModel, DS, path_key

LEVEL = "other"
ITY = "desolver/integrators/integrator_types.py"

# attribute written under integrate() -> what must be written under reset() to cover it (one line of reason each)
COVERED_BY = {
    "__sol()": "__sol",             # the DenseOutput object is mutated by add/remove_interpolant; reset replaces the object
    "integrator()": "integrator",   # the integrator's internal state changes with every call; reset builds a new integrator
}
EXEMPT = {
    "equ_rhs.njev": "the Jacobian counter is not an observable of C13 (results do not depend on it)",
}


def run(repo, run, tier):
    run.assumptions += ["'within tolerance however the span is split' is numeric and not decided",
                        "row 0 of the buffers is immutable after construction (property C03's rule C03.4)"]
    cm = ClassModel(repo, DS, "OdeSystem")
    completeness(repo, run, cm)
    values(repo, run, cm)
    aliasing(repo, run, cm)
    early_return(repo, run, cm)
    settings_reach_integrator(repo, run, cm)
    reset_unconditional(repo, run)
    no_inplace_on_aliases(repo, run)
    callees_leave_arguments_alone(repo, run)
    # 'a fresh system with the same settings': the kick mask the user chose survives every change of method
    from ..report import Rejudged
    from .c10 import kick_mask_plumbing
    rj = Rejudged(run, {"C10.6": "C13.9"}, note="re-judged for C13: the kick mask is one of the settings reset() + integrate() must reproduce")
    kick_mask_plumbing(repo, rj)
    rj.finish_rejudge()


def _integrate_writes(cm):
    w = dict(cm.closure("integrate"))
    fn = cm.methods["integrate"]
    # the right-hand side object is handed to the integrator: its evaluation counter advances
    if any(is_self_attr(a, "equ_rhs") for c in ast.walk(fn) if isinstance(c, ast.Call) for a in c.args):
        w.setdefault("equ_rhs.nfev", []).append(("integrate", fn))
    return w


def completeness(repo, run, cm):
    rid = run.rule("C13.1", "def/kill completeness: every attribute written by anything reachable from integrate() (setters and helper methods "
                            "included) is re-initialised by something reachable from reset(); exemptions are a named table", floor=8)
    W = _integrate_writes(cm)
    R = cm.closure("reset")
    run.analysed_fn(DS, cm.methods["integrate"])
    run.analysed_fn(DS, cm.methods["reset"])
    for attr in sorted(W):
        need = COVERED_BY.get(attr, attr)
        if attr in EXEMPT:
            run.judged(rid, "%s: exempt (%s)" % (attr, EXEMPT[attr]), nontrivial=False)
            continue
        ok = need in R and any(isinstance(n, (ast.Assign, ast.AugAssign)) for (_, n) in R[need]) if need in R else False
        if need in ("__t", "__y"):
            ok = need in R          # trimmed to row 0 (slice assignment in __trim_soln_space)
        who = sorted({m for m, _ in W[attr]})
        run.judged(rid, "%s written under integrate (by %s) -> reset writes %s: %s" % (attr, who, need, ok), ok=ok)
        if not ok:
            node = W[attr][0][1]
            run.report("C13.1", DS, cm.methods["reset"], "integrate() writes `%s` (in %s) but reset() never re-initialises it: after reset the system is not back in "
                                                         "the state a freshly constructed one has" % (attr, ", ".join(who)),
                       text="reset does not re-initialise %s" % need)
    run.extra["integrate_write_set"] = sorted(W)
    run.extra["reset_write_set"] = sorted(R)


def _assigned_value(fn, attr, dotted_attr=None):
    out = []
    for st in walk_no_nested(fn):
        if isinstance(st, ast.Assign):
            for t in st.targets:
                if is_self_attr(t, attr) or (dotted_attr and src(t) == dotted_attr):
                    out.append(st)
    return out


def values(repo, run, cm):
    rid = run.rule("C13.2", "the value reset() assigns is the constructor's expression (or the saved initial value) for each attribute; the integrator is "
                            "rebuilt without preserving state; the counter is zeroed before the buffers are trimmed", floor=7)
    init, reset = cm.methods["__init__"], cm.methods["reset"]
    run.analysed_fn(DS, init)
    for attr in ("counter", "__sol", "__int_status", "__events"):
        a = _assigned_value(reset, attr)
        b = _assigned_value(init, attr)
        from ..front import semantic_text
        ok = len(a) >= 1 and len(b) >= 1 and all(norm(semantic_text(repo, x.value)) == norm(semantic_text(repo, b[-1].value)) for x in a)
        run.judged(rid, "reset: %s = %s ; __init__: %s" % (attr, [src(x.value) for x in a], [src(x.value) for x in b]), ok=ok)
        if not ok:
            run.report("C13.2", DS, a[0] if a else reset, "reset() does not give `%s` the value the constructor gives it (%s)" % (attr, src(b[-1].value) if b else "?"),
                       text="reset value of %s" % attr)
    # dt: restored from the saved initial step, which only the constructor writes
    a = _assigned_value(reset, "dt")
    ok = len(a) == 1 and src(a[0].value) == "self.__dt0"
    saved = _assigned_value(init, "__dt0")
    ok = ok and len(saved) == 1 and src(saved[0].value) in ("self.dt", "self.__dt")
    others = [m for m in cm.methods if m != "__init__" and "__dt0" in cm.closure(m)]
    ok = ok and not others
    run.judged(rid, "reset: dt = self.__dt0 (saved in __init__, written nowhere else: %s)" % others, ok=ok)
    if not ok:
        run.report("C13.2", DS, a[0] if a else reset, "reset() does not restore the step size saved at construction (or the saved value is overwritten elsewhere: %s)" % others,
                   text="reset value of dt")
    # nfev
    a = [st for st in walk_no_nested(reset) if isinstance(st, ast.Assign) and src(st.targets[0]) == "self.equ_rhs.nfev"]
    ok = len(a) == 1 and src(a[0].value) == "0"
    run.judged(rid, "reset: equ_rhs.nfev = 0", ok=ok)
    if not ok:
        run.report("C13.2", DS, reset, "reset() does not zero the evaluation counter", text="reset value of nfev")
    # integrator rebuilt
    calls = [c for c in ast.walk(reset) if isinstance(c, ast.Call) and dotted(c.func) == "self.initialise_integrator"]
    ok = len(calls) == 1 and any(k.arg == "preserve_states" and isinstance(k.value, ast.Constant) and k.value.value is False for k in calls[0].keywords)
    if len(calls) == 1 and not calls[0].keywords and not calls[0].args:
        ii = cm.methods["initialise_integrator"]
        d = ii.args.defaults
        ok = bool(d) and isinstance(d[-1], ast.Constant) and d[-1].value is False
    run.judged(rid, "reset rebuilds the integrator with preserve_states=False", ok=ok)
    if not ok:
        run.report("C13.2", DS, calls[0] if calls else reset, "reset() does not rebuild the integrator from scratch (controller history, cached slopes and Jacobians of the "
                                                              "previous run would influence the next one)", text="reset integrator rebuild")
    ii = cm.methods["initialise_integrator"]
    run.analysed_fn(DS, ii)
    keep = [st for st in ast.walk(ii) if isinstance(st, ast.If) and "preserve_states" in src(st.test)]
    okk = bool(keep) and all("old_states_exist and preserve_states" in src(k.test) or "preserve_states and old_states_exist" in src(k.test) for k in keep)
    new = [st for st in walk_no_nested(ii) if isinstance(st, ast.Assign) and any(is_self_attr(t, "integrator") for t in st.targets)]
    okk = okk and len(new) == 1 and isinstance(new[0].value, ast.Call) and src(new[0].value.func) == "self.__method"
    run.judged(rid, "initialise_integrator constructs a new integrator and copies old state only under preserve_states", ok=okk)
    if not okk:
        run.report("C13.2", DS, ii, "initialise_integrator does not build a fresh integrator or copies old state unconditionally", text="initialise_integrator structure")
    # order: counter = 0 before trim
    c0 = _assigned_value(reset, "counter")
    trim = [st for st in reset.body if isinstance(st, ast.Expr) and isinstance(st.value, ast.Call) and dotted(st.value.func) == "self.__trim_soln_space"]
    ok = bool(c0) and bool(trim) and path_key(c0[0], reset) < path_key(trim[0], reset)
    run.judged(rid, "reset zeroes the counter before trimming the buffers to counter+1", ok=ok)
    if not ok:
        run.report("C13.2", DS, reset, "reset() does not trim the buffers after zeroing the counter: rows of the previous run stay in the buffers", text="reset trim order")


def aliasing(repo, run, cm):
    rid = run.rule("C13.3", "the caller's y0 reaches stored state only through a copying call; library code never stores into the constants dict or "
                            "into items of the user's arrays", floor=3)
    init = cm.methods["__init__"]
    P = [a.arg for a in init.args.args]
    y0 = P[2]
    ok = True
    uses = []
    for st in walk_no_nested(init):
        if isinstance(st, ast.Assign) and any(is_self_attr(t) for t in st.targets):
            for n in ast.walk(st.value):
                if isinstance(n, ast.Name) and n.id == y0:
                    par = n._parent
                    copied = isinstance(par, ast.Call) and fname(par) in ("clone", "copy", "array", "deepcopy") and par.args and par.args[0] is n
                    attr_only = isinstance(par, ast.Attribute)          # y0.dtype, y0.device, y0.shape
                    if isinstance(par, ast.keyword):        # passed by keyword: the call is the keyword's parent
                        par = par._parent
                    passed = isinstance(par, ast.Call) and dotted(par.func) in ("DiffRHS", "D.autoray.infer_backend", "tuple")
                    uses.append((src(st)[:70], copied or attr_only or passed))
                    if not (copied or attr_only or passed):
                        ok = False
                        run.report("C13.3", DS, st, "the caller's initial state array is stored without a copy: integrating (or a later in-place update) would modify the caller's array, "
                                                    "and reset() could not restore the initial condition")
    run.judged(rid, "uses of y0 in attribute initialisers: %s" % uses, ok=ok)
    # first row must come from a copy of y0
    ys = _assigned_value(init, "__y")
    oky = bool(ys) and any(isinstance(c, ast.Call) and fname(c) in ("clone", "copy") and c.args and src(c.args[0]) == y0 for c in ast.walk(ys[0].value))
    run.judged(rid, "first state row: %s" % (src(ys[0]) if ys else None), ok=oky)
    if not oky:
        run.report("C13.3", DS, ys[0] if ys else init, "the first row of the state buffer is not a copy of y0", text="initial row copy")
    # the caller's right-hand-side wrapper is not kept by reference (its counters / hooked Jacobian would be modified by this system)
    rhs_p = P[1]
    est = [st for st in walk_no_nested(init) if isinstance(st, ast.Assign) and any(is_self_attr(t, "equ_rhs") for t in st.targets)]
    okr = bool(est) and all(isinstance(st.value, ast.Call) and dotted(st.value.func) in ("copy.copy", "copy.deepcopy", "DiffRHS") for st in est)
    run.judged(rid, "right-hand side stored as a copy / new wrapper: %s" % [src(st.value)[:40] for st in est], ok=okr)
    if not okr:
        bad_st = [st for st in est if not (isinstance(st.value, ast.Call) and dotted(st.value.func) in ("copy.copy", "copy.deepcopy", "DiffRHS"))]
        run.report("C13.3", DS, bad_st[0] if bad_st else init, "the caller's DiffRHS object is stored by reference: integrate()/reset() of this system modify the caller's object "
                                                               "(counters, Jacobian cache) and two systems built from it influence each other")
    # no stores into constants
    bad = []
    for rel in (DS, ITY, "desolver/integrators/components/runge_kutta_methods.py", "desolver/integrators/integrator_template.py"):
        mod = repo.module(rel)
        for n in ast.walk(mod.tree):
            tg = []
            if isinstance(n, ast.Assign):
                tg = n.targets
            elif isinstance(n, ast.AugAssign):
                tg = [n.target]
            for t in tg:
                if isinstance(t, ast.Subscript):
                    b = src(t.value)
                    if b in ("self.__consts", "self.constants", "constants", "consts", "additional_kwargs"):
                        bad.append((rel, n))
            if isinstance(n, ast.Call) and isinstance(n.func, ast.Attribute) and n.func.attr in ("update", "pop", "clear", "setdefault") and \
                    src(n.func.value) in ("self.__consts", "self.constants", "constants", "consts", "additional_kwargs"):
                bad.append((rel, n))
    run.judged(rid, "no store into the constants dict in library code (%d modules scanned)" % 4, ok=not bad)
    for rel, n in bad:
        run.report("C13.3", rel, n, "library code writes into the caller's constants dict")


def early_return(repo, run, cm):
    rid = run.rule("C13.4", "an early `return` on |tf - t| < eps dominates every attribute store and mutating call of integrate(): a call made at the "
                            "target changes nothing", floor=2)
    m = IntegrateModel(repo)
    fn = m.fn
    ret_if = None
    for i, st in enumerate(fn.body):
        if isinstance(st, ast.If) and len(st.body) == 1 and isinstance(st.body[0], ast.Return) and st.body[0].value is None and not st.orelse:
            t = src(st.test)
            if "abs" in t and m.tf in t and "self.__t[self.counter]" in t and any(isinstance(o, (ast.Lt, ast.LtE)) for n in ast.walk(st.test) if isinstance(n, ast.Compare) for o in n.ops):
                ret_if = (i, st)
                break
    ok = ret_if is not None
    run.judged(rid, "early return: %s" % (src(ret_if[1].test) if ok else None), ok=ok)
    if not ok:
        run.report("C13.4", DS, fn, "integrate() has no early return for a call made when already at the target", text="missing early return at target")
        return
    i, st = ret_if
    writes = []
    for prev in fn.body[:i]:
        w, c = cm.direct(ast.Module(body=[prev], type_ignores=[])) if False else ([], [])
        for n in ast.walk(prev):
            if isinstance(n, (ast.Assign, ast.AugAssign)):
                tg = n.targets if isinstance(n, ast.Assign) else [n.target]
                for t in tg:
                    b = t
                    while isinstance(b, (ast.Subscript, ast.Attribute)) and not is_self_attr(b):
                        b = b.value
                    if is_self_attr(b):
                        writes.append(n)
            if isinstance(n, ast.Call) and isinstance(n.func, ast.Attribute) and isinstance(n.func.value, ast.Name) and n.func.value.id == "self":
                writes.append(n)
            if isinstance(n, ast.Call) and dotted(n.func) in ("prepare_events",):
                writes.append(n)
    run.judged(rid, "statements before the early return that write state or call methods: %d" % len(writes), ok=not writes)
    for n in writes[:1]:
        run.report("C13.4", DS, n, "system state is written (or a method is called) before the early return for a call made at the target")


def settings_reach_integrator(repo, run, cm, rule_id="C13.5"):
    """results do not depend on call history: a system whose tolerance was CHANGED to X must behave like one CONSTRUCTED with X.  Integrators take their
    tolerances at construction and some keep copies (the Richardson wrapper stores them in its controller's solver_dict and builds its base integrators
    with them), so a changed tolerance reaches all of them only if the setter rebuilds the integrator."""
    rid = run.rule(rule_id, "the rtol / atol setters of OdeSystem store the value and then rebuild the integrator (initialise_integrator): integrators copy the "
                            "tolerances at construction (verified: constructor stores them in solver_dict / hands them to sub-integrators), so an in-place update "
                            "of the live integrator would leave those copies stale", floor=3)
    ITY = "desolver/integrators/integrator_types.py"
    # fact: some integrator constructor snapshots the tolerances
    snap = []
    for q, fn in repo.functions(ITY):
        if not q.endswith(".__init__"):
            continue
        for st in ast.walk(fn):
            if isinstance(st, ast.Assign) and any(is_self_attr(t, "solver_dict") for t in st.targets):
                kws = {}
                v = st.value
                if isinstance(v, ast.Call) and dotted(v.func) == "dict":
                    kws = {k.arg: src(k.value) for k in v.keywords if k.arg}
                elif isinstance(v, ast.Dict):
                    kws = {k.value: src(val) for k, val in zip(v.keys, v.values) if isinstance(k, ast.Constant)}
                if kws.get("rtol") == "self.rtol" or kws.get("atol") == "self.atol":
                    snap.append((q, "solver_dict"))
            if isinstance(st, ast.Call) and any(k.arg is None and src(k.value) == "kwargs" for k in st.keywords) and "basis_integrator" in src(st.func):
                snap.append((q, "base integrators built from the constructor's kwargs"))
    run.judged(rid, "integrator constructors that keep copies of the tolerances: %s" % sorted(set(snap)), ok=True, nontrivial=bool(snap))
    if not snap:
        return      # nothing keeps a copy: an in-place update would be enough, the rule has nothing to require
    for attr in ("rtol", "atol"):
        st_fn = cm.methods.get(attr + "@setter") or repo.maybe(DS, "OdeSystem.%s@setter" % attr)
        if st_fn is None:
            raise AnalysisError("OdeSystem.%s setter not found" % attr)
        stores = [st for st in walk_no_nested(st_fn) if isinstance(st, ast.Assign) and any(is_self_attr(t, "__" + attr) for t in st.targets)]
        rebuilds = [st for st in walk_no_nested(st_fn) if isinstance(st, ast.Expr) and isinstance(st.value, ast.Call) and dotted(st.value.func) == "self.initialise_integrator"]
        ok = bool(stores) and bool(rebuilds) and all(isinstance(r._parent, ast.FunctionDef) for r in rebuilds[:1]) and path_key(stores[-1], st_fn) < path_key(rebuilds[0], st_fn)
        run.judged(rid, "%s setter: store then initialise_integrator()" % attr, ok=ok)
        if not ok:
            run.report(rule_id, DS, st_fn, "the %s setter does not rebuild the integrator after storing the new value: integrators that copied the tolerance at construction (%s) keep "
                                           "the old one, so a system whose tolerance was changed behaves differently from one constructed with that tolerance (and differently "
                                           "before and after reset())" % (attr, "; ".join("%s: %s" % s_ for s_ in sorted(set(snap))[:2])), text="%s setter rebuild" % attr)


def reset_unconditional(repo, run, rule_id="C13.6"):
    """reset() restores the initial state whatever happened before: its re-initialisations must not be skippable.  A guard such as `if status == 0: return`
    looks like an optimisation but leaves everything that changed WITHOUT an integration (evaluation counters, a step size assigned by the user, ...) as it is."""
    rid = run.rule(rule_id, "OdeSystem.reset() has no early exit and every re-initialisation in it is unconditional (top level of the function body)", floor=2)
    fn = repo.get(DS, "OdeSystem.reset")
    run.analysed_fn(DS, fn)
    early = [st for st in walk_no_nested(fn) if isinstance(st, (ast.Return, ast.Raise)) and not (st._parent is fn and fn.body[-1] is st)]
    run.judged(rid, "early exits of reset(): %d" % len(early), ok=not early)
    for st in early:
        from ..sym import path_condition
        pc, _ = path_condition(st, fn)
        run.report(rule_id, DS, st, "reset() can return before re-initialising the system (under `%s`): state that changed without an integration having been run -- the evaluation "
                                    "counter after manual calls or Jacobian probes, a user-assigned dt -- survives the reset" % (src(st._parent.test)[:60] if isinstance(st._parent, ast.If) else "a condition"))
    conditional = []
    n = 0
    for st in ast.walk(fn):
        if isinstance(st, (ast.Assign, ast.AugAssign)) or (isinstance(st, ast.Expr) and isinstance(st.value, ast.Call) and (dotted(st.value.func) or "").startswith("self.")):
            n += 1
            if st._parent is not fn:
                par = st._parent
                # `if self.x: self.x = <empty literal>` is unconditional in effect: where the guard is false the attribute already is empty
                idem = isinstance(par, ast.If) and not par.orelse and par._parent is fn and isinstance(st, ast.Assign) and len(st.targets) == 1 and \
                    src(par.test) == src(st.targets[0]) and isinstance(st.value, (ast.List, ast.Dict, ast.Tuple)) and not getattr(st.value, "elts", getattr(st.value, "keys", []))
                if not idem:
                    conditional.append(st)
    run.judged(rid, "re-initialising statements of reset(): %d, conditional: %d" % (n, len(conditional)), ok=not conditional)
    for st in conditional[:3]:
        run.report(rule_id, DS, st, "a re-initialisation of reset() is conditional: on the other branch the attribute keeps the value of the previous run")


def no_inplace_on_aliases(repo, run, rule_id="C13.7", files=None):
    """reset() restores the initial step from `__dt0`, and a fresh system starts from the dt it was given: both are array OBJECTS that are handed to the integrator
    as `timestep` on every step.  In-place arithmetic (`x /= 2`) on a local that is merely another name for such an argument rewrites the caller's array --
    the system's stored step and its saved initial step -- from inside the integrator."""
    rid = run.rule(rule_id, "in the integrators' step code an augmented assignment to a local name is applied only to a FRESH value (result of copy / arithmetic / a constant), "
                            "never to a name bound by plain assignment from another name, a parameter or a call result (which may be the caller's own array)", floor=2)
    ITY = "desolver/integrators/integrator_types.py"
    FRESH_CALLS = {"copy", "clone", "zeros", "ones", "zeros_like", "ones_like", "asarray", "array", "abs", "absolute", "sign", "minimum", "maximum", "float", "int"}
    n = 0
    for ITY in (files or [ITY, "desolver/integrators/integrator_template.py"]):
     for q, fn in repo.functions(ITY):
        params = {a.arg for a in fn.args.posonlyargs + fn.args.args + fn.args.kwonlyargs}
        augs = [st for st in walk_no_nested(fn) if isinstance(st, ast.AugAssign) and isinstance(st.target, ast.Name)]
        for st in augs:
            name = st.target.id
            defs = []
            for d in walk_no_nested(fn):
                if isinstance(d, ast.Assign):
                    for t in d.targets:
                        if isinstance(t, ast.Name) and t.id == name:
                            defs.append((d, d.value))
                        elif isinstance(t, (ast.Tuple, ast.List)) and any(isinstance(x, ast.Name) and x.id == name for x in ast.walk(t)):
                            defs.append((d, None))
                elif isinstance(d, (ast.For,)) and any(isinstance(x, ast.Name) and x.id == name for x in ast.walk(d.target)):
                    defs.append((d, None))

            def branch_chain(node):
                out = []
                ch, p_ = node, node._parent
                while p_ is not None and p_ is not fn:
                    if isinstance(p_, ast.If):
                        out.append((id(p_), "body" if any(ch is b for b in p_.body) else "orelse"))
                    ch, p_ = p_, p_._parent
                return out
            sc = dict(branch_chain(st))
            # a definition inside the other branch of an `if` that encloses the augmented assignment cannot reach it
            defs = [(d, v) for d, v in defs if all(sc.get(k, br) == br for k, br in branch_chain(d)) and d.lineno <= st.lineno]

            def fresh(v):
                if v is None:
                    return False
                if isinstance(v, ast.Constant):
                    return True
                if isinstance(v, (ast.BinOp, ast.UnaryOp)):
                    return True
                if isinstance(v, ast.Call) and (fname(v) or "").split(".")[-1] in FRESH_CALLS:
                    # asarray / array may return their argument unchanged: fresh only for copy-like calls and arithmetic helpers
                    return (fname(v) or "").split(".")[-1] not in ("asarray", "array")
                return False
            is_int_counter = isinstance(st.value, ast.Constant) and isinstance(st.value.value, int) and all(
                v is not None and isinstance(v, ast.Constant) and isinstance(v.value, int) for _, v in defs) and bool(defs)
            ok = (name not in params and bool(defs) and all(fresh(v) for _, v in defs)) or is_int_counter
            n += 1
            run.judged(rid, "%s: `%s` on a %s value" % (q, src(st), "fresh" if ok else "possibly shared"), ok=ok)
            if not ok:
                why = "a parameter" if name in params and not defs else "bound by `%s`" % src([d for d, v in defs if not fresh(v)][0])[:70] if [d for d, v in defs if not fresh(v)] else "a parameter"
                run.report(rule_id, ITY, st, "`%s` modifies in place a local that may be the caller's own array (%s): the step array handed in by OdeSystem is its stored `dt` "
                                             "(and, by aliasing, the saved initial step reset() restores), so the integrator rewrites the system's initial settings" % (src(st), why))
    if n == 0:
        run.judged(rid, "no augmented assignment to a local name in the integrators", nontrivial=False)
        run.judged(rid, "(nothing to judge)", nontrivial=False)


# ------------------------------------------------------------------------------------------------
ARG_WRITE_EXEMPT = {
    "compute_step": {"intermediate_stages_out": "output parameter by contract: the stage array of the integrator itself, never the caller's state"},
    "newtontrustregion": {"initial_trust_region": "a Python float in every call made by the library (`*=` rebinds the local); not an array of the system"},
}


def callees_leave_arguments_alone(repo, run, rule_id="C13.8"):
    """'The caller's initial state array and constants are never modified', 'reset() restores (t0, y0)': everything below OdeSystem.integrate() -- integrators,
    stage solver, finite-difference Jacobian, root finders, interpolation helpers -- receives views of the system's own buffers and must only read them."""
    from .common import args_unmodified
    files = ["desolver/utilities/utilities.py", "desolver/utilities/optimizer.py", "desolver/utilities/interpolation.py", "desolver/integrators/integrator_types.py",
             "desolver/integrators/components/runge_kutta_methods.py", "desolver/integrators/integrator_template.py", "desolver/integrators/utilities.py"]
    first = True
    for rel in files:
        quals = [q for q, n in repo.functions(rel)]
        # one rule, judged function by function over all files (the floor counts functions)
        args_unmodified(repo, run, rule_id, rel, quals, "the functions below OdeSystem.integrate() (integrators, stage solver, finite-difference Jacobian, root finders, "
                        "interpolation)", exempt=ARG_WRITE_EXEMPT, floor=60 if first else None)
        first = False
