"""C09 — terminal events: ordering before truncation, truncation of the three parallel arrays, the protocol of the
`end_int` branch of integrate (roll back, re-integrate to the last root without events/callbacks, status 2, stop), and the
commit/interpolant balance on the terminal path."""
import ast

from .. import balance
from ..front import AnalysisError, dotted, fname, is_self_attr, src, walk_no_nested, ancestors
from ..imodel import IntegrateModel, DS, path_key, dominates
from ..sym import Canon, Poly

LEVEL = "other"


def run(repo, run, tier):
    run.assumptions += ["'the last state is on the event surface' is numeric and not decided",
                        "the recursive integrate() call is balanced itself (induction on recursion depth)"]
    truncation(repo, run)
    protocol(repo, run)
    balance_rule(repo, run, "C09.3", want="terminal")
    removal_index(repo, run, "C09.4")
    # 'the terminal event that stopped the run is reported': its record must not be suppressed by the duplicate filter reading another event's entry
    from .c07 import sentinel
    from ..imodel import IntegrateModel
    sentinel(repo, run, IntegrateModel(repo), rule_id="C09.5")
    # the terminal event is reported: a root exactly at the end of the step (where the run then stops) passes the in-step test in both directions
    from .c07 import in_step_test
    in_step_test(repo, run, IntegrateModel(repo), rule_id="C09.6")
    # a terminal event in the very first step empties the piece store (the rolled-back pieces are removed before the step is redone)
    emptiness(repo, run, "C09.7")
    # 'a terminal event stops the run': the is_terminal flag is read from the object the caller passed
    from .c07 import flags_from_given_object
    flags_from_given_object(repo, run, "C09.10")
    # a terminal event that takes the state derivative is located with sol.grad: it must be the derivative of the value polynomial for steps of either sign
    from ..report import Rejudged
    from .c17 import hermite
    rj = Rejudged(run, {"C17.2": "C09.11"}, note="re-judged for C09: events with requires_dstate are located through the interpolant's gradient")
    hermite(repo, rj)
    rj.finish_rejudge()


# ------------------------------------------------------------------------------------------------
def truncation(repo, run, rule_id="C09.1"):
    rid = run.rule(rule_id, "handle_events: roots are ordered along the direction of integration before the terminal truncation; the truncation "
                            "keeps [: first terminal + 1] of active_events, roots and evs alike and sets terminate", floor=5)
    fn = repo.get(DS, "handle_events")
    run.analysed_fn(DS, fn)
    rets = [st for st in fn.body if isinstance(st, ast.Return)]
    if len(rets) != 1 or not isinstance(rets[0].value, ast.Tuple) or len(rets[0].value.elts) != 4:
        raise AnalysisError("handle_events: expected `return active_events, roots, terminate, evs`")
    act, roots, term, evs = [src(e) for e in rets[0].value.elts]
    # ordering statement
    order_st = None
    for st in ast.walk(fn):
        if isinstance(st, ast.Assign) and isinstance(st.value, ast.Call) and fname(st.value) == "argsort":
            order_st = st
    if order_st is None:
        run.judged(rid, "ordering statement", ok=False)
        run.report(rule_id, DS, fn, "no argsort of the roots: events are not ordered along the direction of integration", text="missing ordering")
        return
    ordname = src(order_st.targets[0])
    # the ordering key must be direction-normalised time: sign(t_next - t_prev) * roots
    from ..kind import KindEngine, Seeds
    ke = KindEngine(fn, Seeds(params={}, names={"t_prev": "T", "t_next": "T", "roots": "Seq(T)"}), disciplines=("DIR",))
    kkey = ke.kind(order_st.value.args[0]) if order_st.value.args else "U"
    okk = kkey == "K"
    run.judged(rid, "ordering key `%s` has kind %s" % (src(order_st.value.args[0]) if order_st.value.args else None, kkey), ok=okk)
    if not okk:
        run.report(rule_id, DS, order_st.value, "the roots are ordered by a key of kind %s, not by sign(t_next - t_prev) * root: for backward steps the order is reversed, so the "
                                                "'first' terminal event is the LAST one met and the events before the true stop are dropped" % (kkey,))
    # any(is_terminal[active]) block  (locals such as `flags = is_terminal[active_events]` are inlined)
    from ..sym import inline_locals
    env = inline_locals(fn)
    c = Canon(env=env)
    term_if = None
    for st in ast.walk(fn):
        if isinstance(st, ast.If) and "is_terminal[" in c.text(st.test):
            term_if = st
    if term_if is None:
        raise AnalysisError("anchor missing: terminal-event test in handle_events")
    # a local read by the truncation must not be a SNAPSHOT taken before the arrays were permuted: `mask = is_terminal[active_events]` computed before
    # `active_events = active_events[order]` is in list order, while the arrays it cuts are in time order
    defs = {}
    for st in walk_no_nested(fn):
        if isinstance(st, ast.Assign) and len(st.targets) == 1 and isinstance(st.targets[0], ast.Name):
            defs.setdefault(st.targets[0].id, []).append(st)
    for nm in sorted({x.id for x in ast.walk(term_if) if isinstance(x, ast.Name) and isinstance(x.ctx, ast.Load)}):
        if len(defs.get(nm, [])) != 1:
            continue
        d = defs[nm][0]
        kd = path_key(d, fn)
        if not kd < path_key(term_if, fn):
            continue
        reads = {x.id for x in ast.walk(d.value) if isinstance(x, ast.Name)}
        rebound = [st for r_ in reads for st in defs.get(r_, []) if kd < path_key(st, fn) < path_key(term_if, fn)]
        run.judged(rid, "local `%s` read by the truncation is current (its operands are not rebound after it is computed)" % nm, ok=not rebound, nontrivial=bool(reads & {act, roots, evs}))
        if rebound:
            run.report(rule_id, DS, d, "`%s` is computed before `%s` and read by the terminal truncation after it: it describes the events in LIST order while the arrays that are cut "
                                       "are in TIME order, so with a terminal event listed before a non-terminal one that fires earlier in the same step the run is cut at the wrong "
                                       "root (it stops at the non-terminal crossing and the terminal event is never reported)" % (src(d)[:70], src(rebound[0])[:60]),
                       text="stale snapshot `%s` read by the truncation" % nm)
    ok = path_key(order_st, fn) < path_key(term_if, fn)
    # the three arrays are permuted by the order
    perm = {}
    for st in ast.walk(fn):
        if isinstance(st, ast.Assign) and len(st.targets) == 1:
            tn = src(st.targets[0])
            v = st.value
            if isinstance(v, ast.Subscript) and src(v.value) == tn and src(v.slice) == ordname:
                perm[tn] = st
            if isinstance(v, ast.ListComp) and isinstance(v.elt, ast.Subscript) and src(v.elt.value) == tn and len(v.generators) == 1 and \
                    src(v.generators[0].iter) == ordname and src(v.elt.slice) == src(v.generators[0].target):
                perm[tn] = st
    okp = set(perm) >= {act, roots, evs} and all(path_key(order_st, fn) < path_key(s, fn) < path_key(term_if, fn) for s in perm.values())
    run.judged(rid, "ordering `%s` precedes the terminal test and permutes %s" % (src(order_st)[:80], sorted(perm)), ok=ok and okp)
    if not (ok and okp):
        run.report(rule_id, DS, order_st, "the ordering along the direction of integration does not precede the terminal truncation for all of "
                                          "(active_events, roots, evs): the 'earliest' terminal event would be chosen in storage order")
    # first terminal index: nonzero(is_terminal[active])[0][0]
    idx_st = None
    for st in term_if.body:
        if isinstance(st, ast.Assign) and isinstance(st.targets[0], ast.Name) and "nonzero" in c.text(st.value) and \
                c.text(st.value).replace(" ", "").endswith("[0][0]") and idx_st is None:
            idx_st = st
    itext = c.text(idx_st.value).replace(" ", "") if idx_st is not None else ""
    okidx = idx_st is not None and itext.endswith("[0][0]") and "is_terminal[%s]" % act in c.text(idx_st.value)
    run.judged(rid, "first terminal position: %s" % (src(idx_st) if idx_st else "<missing>"), ok=okidx)
    if not okidx:
        run.report(rule_id, DS, idx_st or term_if, "the truncation index is not the FIRST terminal event among the ordered active events")
        return
    iname = idx_st.targets[0].id
    # compare slice bounds with (index expression) + 1, both canonicalised with the same inlining
    want = c.poly(idx_st.value) + Poly.const(1)
    want_alt = Poly.atom(iname) + Poly.const(1)
    cut = {}
    for st in term_if.body:
        if isinstance(st, ast.Assign) and isinstance(st.value, ast.Subscript) and isinstance(st.value.slice, ast.Slice):
            tn = src(st.targets[0])
            sl = st.value.slice
            if src(st.value.value) == tn and sl.lower is None and sl.step is None and sl.upper is not None:
                cut[tn] = (c.poly(sl.upper), st)
    for name in (act, roots, evs):
        ok1 = name in cut and cut[name][0] in (want, want_alt)
        run.judged(rid, "truncation of %s: %s" % (name, src(cut[name][1]) if name in cut else "<missing>"), ok=ok1)
        if not ok1:
            run.report(rule_id, DS, cut[name][1] if name in cut else term_if,
                       "`%s` is not truncated to [: first terminal + 1]: %s" % (name, "the terminal event itself is dropped or later events are kept" if name in cut else "the three arrays fall out of step"),
                       text="truncation of %s" % name)
    okt = any(isinstance(st, ast.Assign) and src(st.targets[0]) == term and isinstance(st.value, ast.Constant) and st.value.value is True for st in term_if.body)
    run.judged(rid, "terminate flag set in the terminal branch", ok=okt)
    if not okt:
        run.report(rule_id, DS, term_if, "the terminal branch does not set the terminate flag", text="terminate flag")


# ------------------------------------------------------------------------------------------------
def protocol(repo, run):
    rid = run.rule("C09.2", "on a terminal event integrate(): the step is rolled back (counter not re-advanced on that path), re-integrates to the "
                            "LAST kept root with neither events nor callbacks, assigns status 2 after the recursive call, leaves the loop, and "
                            "writes no row afterwards", floor=5)
    m = IntegrateModel(repo)
    run.analysed_fn(DS, m.fn)
    if len(m.recursive) != 1:
        run.judged(rid, "recursive call count %d" % len(m.recursive), ok=False)
        run.report("C09.2", DS, m.loop, "expected exactly one recursive integrate() call for the terminal event", text="recursive call count")
        return
    rc = m.recursive[0]
    par = handle_assign = m.handle_call._parent
    names = [e.id for e in par.targets[0].elts]
    roots_name, end_name = names[1], names[2]
    # enclosing `if end_int`
    iff = None
    for a in ancestors(rc):
        if isinstance(a, ast.If) and src(a.test) == end_name:
            iff = a
            break
    ok = iff is not None and any(rc is x for st in iff.body for x in ast.walk(st))
    run.judged(rid, "recursive call is in the `if %s:` branch" % end_name, ok=ok)
    if not ok:
        run.report("C09.2", DS, rc, "the re-integration to the event is not guarded by the terminal flag")
        return
    # target = roots[-1]; no events / callback / eta
    tgt = rc.args[0] if rc.args else next((k.value for k in rc.keywords if k.arg == "t"), None)
    okt = tgt is not None and src(tgt) == "%s[-1]" % roots_name
    run.judged(rid, "recursive target: %s" % (src(tgt) if tgt is not None else None), ok=okt)
    if not okt:
        run.report("C09.2", DS, rc, "the re-integration target is not the last kept root (`%s[-1]`, the terminal event after ordering and truncation)" % roots_name)
    extra = [src(a) for a in rc.args[1:]] + ["%s=%s" % (k.arg, src(k.value)) for k in rc.keywords if k.arg != "t" and not (
        isinstance(k.value, ast.Constant) and k.value.value in (None, False))]
    oke = not extra
    run.judged(rid, "recursive call passes no events/callbacks: extra args %s" % extra, ok=oke)
    if not oke:
        run.report("C09.2", DS, rc, "the re-integration passes %s: sub-steps to the event would fire callbacks / detect events again" % extra)
    # status 2 after the call, in the same branch
    st_rc = rc
    while not isinstance(st_rc, ast.stmt):
        st_rc = st_rc._parent
    status = [st for st in iff.body if isinstance(st, ast.Assign) and any(is_self_attr(t, "__int_status") for t in st.targets)]
    oks = len(status) == 1 and isinstance(status[0].value, ast.Constant) and status[0].value.value == 2 and \
        path_key(st_rc, m.fn) < path_key(status[0], m.fn)
    run.judged(rid, "status 2 assigned after the recursive call", ok=oks)
    if not oks:
        run.report("C09.2", DS, status[0] if status else iff, "status 2 ('terminated by event') is not assigned after the recursive call returns (the recursive "
                                                              "call's own completion would overwrite it, or it is never set)", text="status 2 after recursion")
    # loop exits: while test contains `not end_int`
    okl = ("not %s" % end_name) in src(m.loop.test)
    run.judged(rid, "loop condition contains `not %s`" % end_name, ok=okl)
    if not okl:
        run.report("C09.2", DS, m.loop.test, "the step loop does not stop after a terminal event")
    # no counter advance / row write on the terminal path
    bad = [st for st in iff.body for x in ast.walk(st) if (isinstance(x, ast.AugAssign) and is_self_attr(x.target, "counter")) or (
        isinstance(x, ast.Assign) and any(isinstance(t, ast.Subscript) and (is_self_attr(t.value, "__t") or is_self_attr(t.value, "__y")) for t in x.targets))]
    run.judged(rid, "terminal branch writes no row and does not re-advance the counter", ok=not bad)
    if bad:
        run.report("C09.2", DS, bad[0], "the terminal branch re-commits the step that overshot the event")
    # rollback: a `counter -= 1` dominates the branch
    dec = [i for i in m.counter_incs if isinstance(i.op, ast.Sub)]
    okr = any(dominates(d, iff, m.fn) for d in dec)
    run.judged(rid, "step rolled back before the terminal branch", ok=okr)
    if not okr:
        run.report("C09.2", DS, iff, "the step that crossed the terminal event is not rolled back (`counter -= 1`) before re-integrating to the event: "
                                     "the state beyond the event stays recorded", text="rollback before terminal branch")
    # the restore (else) branch re-commits next_time/next_state
    restore = [st for st in iff.orelse for x in ast.walk(st) if isinstance(x, ast.AugAssign) and is_self_attr(x.target, "counter") and isinstance(x.op, ast.Add)]
    run.judged(rid, "non-terminal branch re-advances the counter", ok=bool(restore))
    if not restore:
        run.report("C09.2", DS, iff, "without a terminal event the rolled-back step is not re-committed", text="restore branch")


# ------------------------------------------------------------------------------------------------
def balance_rule(repo, run, rid, want):
    """want = 'terminal' (C09.3: end of iteration / normal exits), 'exceptional' (C12.4), 'all' (C06.5)"""
    desc = {"terminal": "balance at the end of every iteration and at normal exits (dense output on): pieces added - counter advance = 0, "
                        "in particular after a terminal event",
            "exceptional": "balance at every exceptional exit of integrate (dense output on): no interpolant of an uncommitted step stays in the solution",
            "all": "commit/interpolant balance at the end of every iteration and at every normal and exceptional exit"}[want]
    run.rule(rid, desc, floor=2)
    m, cl, out, eng = balance.analyse(repo)
    run.analysed_fn(DS, m.fn)
    seen = set()
    if want in ("terminal", "all"):
        for state, delta in cl.iter_end:
            ev, added, adv, end = state
            key = (ev, end, delta)
            if key in seen:
                continue
            seen.add(key)
            ok = delta == 0
            run.judged(rid, "iteration end: events=%s terminal=%s pieces-added=%d counter-advance=%d" % (ev, end, added, adv), ok=ok)
            if not ok:
                run.report(rid, DS, m.loop, "an iteration can end with %d interpolant piece(s) added but the counter advanced by %d (events=%s, terminal event=%s): "
                                            "%s%s" % (added, adv, ev, end, "the piece(s) of the rolled-back step stay in the dense output beyond the event"
                                                      if delta > 0 else "a committed step has no interpolant",
                                                      " (a single remove_interpolant call removes ONE piece; a step of a Richardson-extrapolated method adds several, "
                                                      "only the counted loop over len(sol) - pre_length removes them all)" if cl.single_removals and delta > 0 else ""),
                           text="iteration-end balance: events=%s terminal=%s delta=%+d" % (ev, end, delta))
        for (s, node) in out.ret:
            run.judged(rid, "return exit delta=%d" % (s[1] - s[2]), ok=s[1] - s[2] == 0)
    if want in ("exceptional", "all"):
        for (s, tag, node) in sorted(out.exc, key=lambda x: (getattr(x[2], "lineno", 0), str(x[0]))):
            ev, added, adv, end = s
            delta = added - adv
            origin = node
            key = (getattr(node, "lineno", 0), delta)
            if key in seen:
                continue
            seen.add(key)
            ok = delta == 0
            run.judged(rid, "exceptional exit from `%s`: pieces-added=%d counter-advance=%d" % (src(origin)[:60], added, adv), ok=ok)
            if not ok:
                run.report(rid, DS, origin, "if this call raises, integrate() exits with %d interpolant piece(s) added but the counter advanced by %d: "
                                            "the dense output no longer covers exactly the accepted steps" % (added, adv),
                           text="exceptional-exit balance at `%s`: delta=%+d" % (src(origin)[:80], delta))
    # 'a terminal event stops the integration': the stop flag the event handler returns is what ends the loop; nothing between the handler's result and the roll-back
    # may clear it (a guard that compares the terminal event with the record just appended for it clears it for every later call on the same system)
    from .c03 import exits
    exits(repo, run, m, rule_id="C09.8")
    # 'only the earliest terminal event ... stops the run': whether an event is terminal (and its direction) is read from the event function at EVERY integrate()
    # call; a memoised reading survives `event.is_terminal = True` set after a survey run
    from .common import memo_discipline
    memo_discipline(repo, run, "C09.9", [DS], "the system module (event preparation)")



def removal_index(repo, run, rid):
    """On the terminal path the pieces added for the rolled-back step are removed.  add_interpolant appends for a forward step and inserts at the
    front for a backward one, so the piece just added is at position -1 exactly when the step is forward (dTime >= 0) and at 0 otherwise."""
    from .. import seeds
    from ..kind import KindEngine
    run.rule(rid, "the interpolant(s) of the rolled-back step are removed from the end they were added to: position -1 for a forward step, 0 for a backward "
                  "one, selected by the sign of the step just taken (not by the sign of a time, not by a fixed position)", floor=1)
    m = IntegrateModel(repo)
    ke = KindEngine(m.fn, seeds.ode_seeds(), disciplines=("DIR", "AFF"))
    calls = []
    for r in m.recursive:
        inner = next((a for a in ancestors(r) if isinstance(a, ast.If)), None)      # the `if end_int:` branch
        if inner is not None:
            calls += [c for c in m.remove_interp if any(c is x for b in inner.body for x in ast.walk(b))]
    if not calls:
        # no removal on the terminal path: the balance rule reports that
        run.judged(rid, "no removal call on the terminal path (judged by the balance rule)", nontrivial=False)
        return
    add = repo.get(DS, "DenseOutput.add_interpolant")
    # which end does add_interpolant use for a smaller time?  (front insertion under `t - t_eval[-1] < 0`)
    from ..sym import inline_locals
    env = inline_locals(m.fn)
    for c in calls:
        arg = c.args[0] if c.args else None
        while isinstance(arg, ast.Name) and arg.id in env:      # a position computed once before the removal loop
            arg = env[arg.id]
        ok = False
        why = "no position is passed: the default position is the same for both directions"
        if arg is not None:
            why = "the position `%s` does not depend on the direction of the step" % src(arg)
            if isinstance(arg, ast.IfExp):
                t = arg.test
                why = "the position is selected by `%s`, which is not a test of the sign of the step just taken" % src(t)
                if ke._is_dir_test(t) and not [v for v in ke.check() if any(v.node is x for x in ast.walk(t))]:
                    positive = any(isinstance(o, (ast.GtE, ast.Gt)) for n in ast.walk(t) if isinstance(n, ast.Compare) for o in n.ops)
                    fwd, bwd = (src(arg.body), src(arg.orelse)) if positive else (src(arg.orelse), src(arg.body))
                    # D compared with zero on the correct side: `dTime >= 0` / `0 <= dTime` / `dTime < 0`
                    cmp_ = [n for n in ast.walk(t) if isinstance(n, ast.Compare)][0]
                    if ke.kind(cmp_.left) in ("D", "S"):
                        pass
                    else:
                        fwd, bwd = bwd, fwd
                    ok = (fwd, bwd) == ("-1", "0")
                    why = "forward steps remove position %s and backward steps position %s; the pieces just added are at -1 (appended) resp. 0 (inserted in front)" % (fwd, bwd)
        run.judged(rid, "terminal-path removal: %s" % src(c), ok=ok)
        if not ok:
            run.report(rid, DS, c, "on a terminal event the interpolant removed is not the one just added for the rolled-back step: %s; for the other direction a valid piece "
                                   "of the trajectory is discarded and the overshooting piece stays (dense output unsorted, queries near t0 extrapolated)" % why)


# ------------------------------------------------------------------------------------------------
def emptiness(repo, run, rule_id):
    """DenseOutput's piece lists can be EMPTY without being None: remove_interpolant pops from them, and the terminal path of integrate() removes the
    pieces of the rolled-back step before the step is redone -- when the event fires in the very first step nothing is left.  Every constant-index read
    `self.t_eval[c]` / `self.y_interpolants[c]` in the class must therefore be unreachable both while the store is None and while it is an empty list
    (path condition with guard clauses; atoms about the store fixed to their value under each hypothesis, all others free)."""
    import itertools
    import operator
    from ..front import const_value
    from ..sym import inline_locals, path_condition, tree_atoms, eval_bool, BoolTracker
    rid = run.rule(rule_id, "emptiness discipline of the dense-output store: a read `self.t_eval[c]` / `self.y_interpolants[c]` is reachable neither while the "
                            "store is None nor while it is an empty list (elements are removed by remove_interpolant, so 'not None' does not imply 'non-empty')", floor=2)
    LISTS = ("t_eval", "y_interpolants")
    cdef = repo.get(DS, "DenseOutput.add_interpolant")._parent
    methods = [n for n in cdef.body if isinstance(n, ast.FunctionDef)]
    shrinks = []
    for fn in methods:
        for n in ast.walk(fn):
            if isinstance(n, ast.Call) and isinstance(n.func, ast.Attribute) and n.func.attr in ("pop", "remove", "clear") and is_self_attr(n.func.value) and \
                    n.func.value.attr in LISTS:
                shrinks.append((fn, n))
            if isinstance(n, ast.Delete) and any(isinstance(t, ast.Subscript) and is_self_attr(t.value) and t.value.attr in LISTS for t in n.targets):
                shrinks.append((fn, n))
    run.judged(rid, "the store can shrink: %s" % (", ".join("%s in %s" % (src(n)[:40], fn.name) for fn, n in shrinks) or "no removal anywhere"), nontrivial=False)
    ops = {"Eq": operator.eq, "NotEq": operator.ne, "Lt": operator.lt, "LtE": operator.le, "Gt": operator.gt, "GtE": operator.ge}

    def is_store(n):
        return is_self_attr(n) and n.attr in LISTS

    def is_len(n):
        return isinstance(n, ast.Call) and fname(n) == "len" and len(n.args) == 1 and is_store(n.args[0])

    def fix(leaf, none):
        """value of an atom when the store is None (none=True) / an empty list (none=False); None = not about the store"""
        if isinstance(leaf, tuple):
            l, op, r = leaf
            opn = type(op).__name__
            for a, b, flip in ((l, r, False), (r, l, True)):
                if is_store(a) and isinstance(b, ast.Constant) and b.value is None and opn in ("Is", "IsNot", "Eq", "NotEq"):
                    return none if opn in ("Is", "Eq") else not none
                if is_len(a) and not none:
                    try:
                        cv = const_value(b)
                    except ValueError:
                        continue
                    return ops[opn](cv, 0) if flip else ops[opn](0, cv)
            return None
        if isinstance(leaf, ast.AST) and (is_store(leaf) or (is_len(leaf) and not none)):
            return False
        return None

    for fn in methods:
        if fn.name == "__init__":
            continue
        env = inline_locals(fn)
        canon = Canon(env=env)
        for sub in ast.walk(fn):
            if not (isinstance(sub, ast.Subscript) and isinstance(sub.ctx, ast.Load) and is_store(sub.value)):
                continue
            try:
                const_value(sub.slice)
            except (ValueError, TypeError):
                continue
            run.analysed_fn(DS, fn)
            for none in (True, False):
                if not none and not shrinks and sub.value.attr == "t_eval":
                    continue
                bt = BoolTracker(canon=canon)
                pc, _ = path_condition(sub, fn, tracker=bt, guards=True)
                atoms = tree_atoms(pc)
                fixed = {}
                for a in atoms:
                    v = fix(bt.leaves.get(a), none)
                    if v is not None:
                        fixed[a] = v
                free = [a for a in atoms if a not in fixed]
                reachable = len(free) > 14
                if not reachable:
                    for vals in itertools.product((False, True), repeat=len(free)):
                        asg = dict(fixed)
                        asg.update(zip(free, vals))
                        if eval_bool(pc, asg):
                            reachable = True
                            break
                hyp = "None" if none else "an empty list"
                run.judged(rid, "%s: `%s` unreachable while the store is %s (atoms fixed: %d)" % (fn.name, src(sub), hyp, len(fixed)), ok=not reachable)
                if reachable:
                    run.report(rule_id, DS, sub, "`%s` is read on a path that can be taken while the store is %s: %s" % (
                        src(sub), hyp, "after remove_interpolant has emptied it (a terminal event in the first step of a run removes the rolled-back pieces before the step is "
                        "redone) the next add_interpolant raises IndexError and the run ends in FailedIntegration instead of stopping at the event" if not none else
                        "no piece has been added yet"), text="%s while %s" % (src(sub), hyp))
