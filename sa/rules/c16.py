"""C16 — Jacobians: predicate abstraction of DiffRHS's Jacobian cache (all reachable abstract states under every sequence
of jac / hook / unhook / set_jac_base_order / attribute assignment), cache-key discipline of the finite-difference closure,
agreement of the JacobianWrapper constructions, layout of the finite-difference estimate."""
import ast

from ..flow import Client, Engine, tri_eval
from ..front import AnalysisError, dotted, fname, is_self_attr, src, walk_no_nested, ancestors
from ..sym import Canon

LEVEL = "other"
DS = "desolver/differential_system.py"
UTL = "desolver/utilities/utilities.py"
CLS = "DiffRHS"


def run(repo, run, tier):
    run.assumptions += ["NOT decided: accuracy of the finite-difference estimate",
                        "numpy backend (torch is not installed; the torch branch of jac is parsed but its autodiff transform is exempt)"]
    protocol(repo, run)
    cache_key(repo, run)
    wrappers(repo, run)
    layout(repo, run)
    write_through_views(repo, run)
    try:
        quotient(repo, run)
    except AnalysisError as e:
        if not any(f.rule in ("C16.4", "C16.10") for f in run.findings):
            raise
        run.notes.append("C16.8 not evaluated (%s): the layout rule C16.4 already reports this loop" % e)
        run.rules.pop("C16.8", None)
    wrapper_statelessness(repo, run)
    fd_extrapolation(repo, run, tier)


# ------------------------------------------------------------------------------------------------
def _attr(t):
    return t.attr if is_self_attr(t) else None


def _jac_value_kind(v):
    """abstract kind of the value assigned to self.__jac"""
    if isinstance(v, ast.Constant) and v.value is None:
        return "none"
    if isinstance(v, ast.Call) and (dotted(v.func) or "").endswith("JacobianWrapper"):
        return "fd"
    if isinstance(v, ast.Call) and "jacrev" in (dotted(v.func) or ""):
        return "auto"
    if isinstance(v, ast.Attribute) and v.attr == "jac" and is_self_attr(v.value, "rhs"):
        return "rhsjac"
    if isinstance(v, ast.Name):
        return "hook"
    return "unknown"


class CopyClient(Client):
    """interprets DiffRHS.__copy__ for an original in abstract state (initialised, jac, wrapped); the 4th component records whether the copy was
    given the original's Jacobian (`<new>.hook_jacobian_call(self.__jac)`)"""

    def transfer(self, st, state):
        init, jac, wrapped, hooked = state
        if isinstance(st, ast.Expr) and isinstance(st.value, ast.Call) and isinstance(st.value.func, ast.Attribute) and st.value.func.attr == "hook_jacobian_call" \
                and not is_self_attr(st.value.func) and len(st.value.args) == 1 and is_self_attr(st.value.args[0], "__jac"):
            hooked = True
        return [(init, jac, wrapped, hooked)]

    def branch(self, test, state):
        init, jac, wrapped, hooked = state

        def val(n):
            t = src(n)
            if t == "self.__jac_initialised":
                return init
            if t in ("self.__jac is None",):
                return jac == "none"
            if t == "self.__jac is not None":
                return jac != "none"
            if t in ("self.__jac_is_wrapped_rhs", "self.jac_is_wrapped_rhs"):
                return wrapped
            return None
        r = tri_eval(test, val)
        return ([state] if True in r else []), ([state] if False in r else [])


class ProtoClient(Client):
    """state = (initialised, jac, wrapped)  with jac in {none, hook, rhsjac, fd, auto, unknown}"""

    def __init__(self, has_rhs_jac, numpy_backend=True):
        self.has = has_rhs_jac
        self.np = numpy_backend
        self.calls = []        # (node, state, nargs)

    def transfer(self, st, state):
        init, jac, wrapped = state
        if isinstance(st, ast.Assign):
            for t in st.targets:
                a = _attr(t)
                if a == "__jac_initialised" and isinstance(st.value, ast.Constant):
                    init = bool(st.value.value)
                elif a == "__jac":
                    jac = _jac_value_kind(st.value)
                elif a == "__jac_is_wrapped_rhs" and isinstance(st.value, ast.Constant):
                    wrapped = bool(st.value.value)
            # calls of the cached jacobian
            for c in ast.walk(st.value):
                if isinstance(c, ast.Call) and is_self_attr(c.func, "__jac"):
                    self.calls.append((c, (init, jac, wrapped), len([a for a in c.args if not isinstance(a, ast.Starred)])))
        elif isinstance(st, (ast.Expr, ast.Return)) and st.value is not None:
            for c in ast.walk(st.value):
                if isinstance(c, ast.Call) and is_self_attr(c.func, "__jac"):
                    self.calls.append((c, (init, jac, wrapped), len([a for a in c.args if not isinstance(a, ast.Starred)])))
                if isinstance(c, ast.Call) and dotted(c.func) == "self.hook_jacobian_call":
                    jac, wrapped = "hook", False
        return [(init, jac, wrapped)]

    def branch(self, test, state):
        init, jac, wrapped = state

        def val(n):
            t = src(n)
            if t == "self.__jac_initialised":
                return init
            if t == "self.__jac is None":
                return jac == "none"
            if t == "self.__jac is not None":
                return jac != "none"
            if t == "self.__jac_is_wrapped_rhs":
                return wrapped
            if t == "hasattr(self.rhs, 'jac')":
                return self.has
            if t == "inferred_backend == 'numpy'":
                return self.np
            if t == "y is None":
                return None
            return None
        r = tri_eval(test, val)
        return ([state] if True in r else []), ([state] if False in r else [])


def protocol(repo, run):
    rid = run.rule("C16.1", "predicate abstraction of DiffRHS over (initialised, cached jacobian in {none, hook, rhs.jac, finite-difference, autodiff}, wrapped): "
                            "in no state reachable by any sequence of jac / hook / unhook / set_jac_base_order calls does jac() call None or call the "
                            "cached object with the wrong signature; a hooked or attribute-supplied Jacobian is the one called", floor=8)
    methods = {}
    for name in ("jac", "hook_jacobian_call", "unhook_jacobian_call", "set_jac_base_order"):
        methods[name] = repo.get(DS, CLS + "." + name)
        run.analysed_fn(DS, methods[name])
    init_fn = repo.get(DS, CLS + ".__init__")
    copy_fn = repo.maybe(DS, CLS + ".__copy__")
    if copy_fn is not None:
        run.analysed_fn(DS, copy_fn)
    # initial state from the constructor
    init_state = [False, "none", False]
    for st in walk_no_nested(init_fn):
        if isinstance(st, ast.Assign):
            for t in st.targets:
                a = _attr(t)
                if a == "__jac_initialised" and isinstance(st.value, ast.Constant):
                    init_state[0] = bool(st.value.value)
                if a == "__jac":
                    init_state[1] = _jac_value_kind(st.value)
                if a == "__jac_is_wrapped_rhs" and isinstance(st.value, ast.Constant):
                    init_state[2] = bool(st.value.value)
    # __setattr__('jac', v) -> hook
    sa = repo.get(DS, CLS + ".__setattr__")
    ok_sa = any(isinstance(st, ast.If) and "name == 'jac'" in src(st.test) and "self.hook_jacobian_call(val)" in src(st) for st in ast.walk(sa))
    run.judged(rid, "assignment `rhs.jac = f` is routed to hook_jacobian_call", ok=ok_sa)
    if not ok_sa:
        run.report("C16.1", DS, sa, "assigning a Jacobian by attribute is not routed to hook_jacobian_call", text="__setattr__ jac routing")
    reported = set()
    total_states = 0
    for has in (False, True):
        seen = set()
        work = [tuple(init_state)]
        hooked_states = set()
        while work:
            s = work.pop()
            if s in seen:
                continue
            seen.add(s)
            for name, fn in methods.items():
                cl = ProtoClient(has)
                eng = Engine(cl)
                out = eng.run(fn, [s])
                ends = set(out.normal) | {x for (x, n) in out.ret}
                if name == "jac":
                    for (c, st_, nargs) in cl.calls:
                        i, j, w = st_
                        why = None
                        if j == "none":
                            why = "jac() calls the cached Jacobian while it is None (TypeError: 'NoneType' object is not callable)"
                        elif w and j != "fd":
                            why = "jac() calls a %s Jacobian with the finite-difference signature (y only)" % j
                        elif (not w) and j == "fd":
                            why = "jac() calls the finite-difference wrapper with the (t, y) signature"
                        elif nargs not in ((1,) if w else (2,)):
                            why = "jac() passes %d positional arguments to a %s Jacobian" % (nargs, "finite-difference" if w else "user")
                        # user-supplied jacobian must be the one called
                        if why is None and s[1] == "hook" and j != "hook":
                            why = "a hooked Jacobian is replaced by a %s one on the next jac() call" % j
                        if why is None and has and s[1] in ("none",) and j in ("fd",) and not s[0]:
                            why = "rhs.jac exists but jac() differentiates numerically"
                        key = (why, s)
                        run.judged(rid, "state (init=%s, jac=%s, wrapped=%s, rhs.jac=%s) -> jac(): calls %s with %d arg(s)" % (s[0], s[1], s[2], has, j, nargs), ok=why is None)
                        if why and why not in reported:
                            reported.add(why)
                            path = _witness(methods, has, tuple(init_state), s)
                            run.report("C16.1", DS, c, "%s; reachable by: %s" % (why, " ; ".join(path + ["jac()"])),
                                       text="jac protocol: %s [state init=%s jac=%s wrapped=%s]" % (why.split(" (")[0], s[0], s[1], s[2]))
                for e in ends:
                    if e not in seen:
                        work.append(e)
            # copy.copy(rhs) -- what OdeSystem does with a DiffRHS argument: the copy must carry a user-supplied Jacobian in EVERY state of the original
            if copy_fn is not None:
                outc = Engine(CopyClient()).run(copy_fn, [s + (False,)])
                for e in set(outc.normal) | {x for (x, n) in outc.ret}:
                    cstate = (init_state[0], s[1], False) if e[3] else tuple(init_state)
                    okc = not (s[1] == "hook" and cstate[1] != "hook")
                    run.judged(rid, "state (init=%s, jac=%s, wrapped=%s) -> __copy__: copy starts in (init=%s, jac=%s, wrapped=%s)" % (s + cstate), ok=okc)
                    if not okc and "copy" not in reported:
                        reported.add("copy")
                        path = _witness(methods, has, tuple(init_state), s)
                        run.report("C16.1", DS, copy_fn, "a copy of a wrapper whose Jacobian was attached by hook / assignment does not carry it when the original is in state "
                                                         "(initialised=%s, wrapped=%s): the copy differentiates numerically although a Jacobian is attached (OdeSystem copies the "
                                                         "DiffRHS it is given); reachable by: %s" % (s[0], s[2], " ; ".join(path + ["copy.copy()"])),
                                   text="copy drops hooked jacobian [state init=%s wrapped=%s]" % (s[0], s[2]))
                    if cstate not in seen:
                        work.append(cstate)
        total_states += len(seen)
    run.extra["abstract_states_explored"] = total_states


def _witness(methods, has, start, target):
    """shortest method sequence from the initial abstract state to ``target``"""
    from collections import deque
    q = deque([(start, [])])
    seen = {start}
    while q:
        s, path = q.popleft()
        if s == target:
            return path
        for name, fn in methods.items():
            cl = ProtoClient(has)
            out = Engine(cl).run(fn, [s])
            for e in set(out.normal) | {x for (x, n) in out.ret}:
                if e not in seen:
                    seen.add(e)
                    q.append((e, path + [name + "()"]))
    return ["<unreachable?>"]


# ------------------------------------------------------------------------------------------------
def _wrappers(repo):
    cls = repo.get(DS, CLS)
    out = []
    for c in [x for x in ast.walk(cls) if isinstance(x, ast.Call) and (dotted(x.func) or "").endswith("JacobianWrapper")]:
        out.append(c)
    return out


def cache_key(repo, run):
    rid = run.rule("C16.2", "cache-key discipline of the finite-difference closure: each closure evaluates the right-hand side at the time stored as "
                            "__jac_time in the same block; jac() rebuilds the closure whenever t differs from that key before calling it", floor=3)
    jac = repo.get(DS, CLS + ".jac")
    tname = [a.arg for a in jac.args.args][1]
    ws = _wrappers(repo)
    if not ws:
        raise AnalysisError("anchor missing: JacobianWrapper constructions in DiffRHS")
    for c in ws:
        fn = c
        while not isinstance(fn, ast.FunctionDef):
            fn = fn._parent
        lam = c.args[0] if c.args else None
        time_expr = None
        if isinstance(lam, ast.Lambda) and isinstance(lam.body, ast.Call) and lam.body.args:
            time_expr = src(lam.body.args[0])
        # key assigned in the same block
        st = c
        while not isinstance(st, ast.stmt):
            st = st._parent
        blk = st._parent
        siblings = getattr(blk, "body", []) if st in getattr(blk, "body", []) else getattr(blk, "orelse", [])
        keys = [src(s2.value) for s2 in siblings if isinstance(s2, ast.Assign) and any(_attr(t) == "__jac_time" for t in s2.targets)]
        ok = time_expr is not None and keys == [time_expr]
        run.judged(rid, "%s: closure time `%s`, key stored in the same block: %s" % (fn.name, time_expr, keys), ok=ok)
        if not ok:
            run.report("C16.2", DS, c, "the finite-difference closure evaluates the right-hand side at time `%s` but the cache key stored next to it is %s: the Jacobian "
                                       "would be taken at a time cached from an earlier call" % (time_expr, keys))
    # keyed rebuild before the call in the wrapped branch
    okr = False
    for st in ast.walk(jac):
        if isinstance(st, ast.If) and src(st.test) == "self.__jac_is_wrapped_rhs":
            inner = [x for x in st.body if isinstance(x, ast.If)]
            calls = [x for x in st.body if any(isinstance(c, ast.Call) and is_self_attr(c.func, "__jac") for c in ast.walk(x)) and not isinstance(x, ast.If)]
            for i in inner:
                t = src(i.test).replace(" ", "")
                if t in ("%s!=self.__jac_time" % tname, "self.__jac_time!=%s" % tname, "not(%s==self.__jac_time)" % tname):
                    rebuilt = any(isinstance(c, ast.Call) and (dotted(c.func) or "").endswith("JacobianWrapper") for c in ast.walk(i))
                    if rebuilt and calls and st.body.index(i) < st.body.index(calls[0]):
                        okr = True
    run.judged(rid, "jac(): `if t != self.__jac_time:` rebuild precedes the call of the finite-difference wrapper", ok=okr)
    if not okr:
        run.report("C16.2", DS, jac, "jac() does not rebuild the finite-difference closure when the requested time differs from the cached one: the Jacobian of a "
                                     "time-dependent right-hand side is evaluated at a stale time", text="keyed rebuild in jac")


def wrappers(repo, run):
    rid = run.rule("C16.3", "every JacobianWrapper built inside DiffRHS wraps the counting, current-time evaluation self(t, y) and uses the same `flat=` "
                            "layout as the others", floor=2)
    ws = _wrappers(repo)
    flats = []
    for c in ws:
        fn = c
        while not isinstance(fn, ast.FunctionDef):
            fn = fn._parent
        lam = c.args[0] if c.args else None
        ok = isinstance(lam, ast.Lambda) and isinstance(lam.body, ast.Call) and isinstance(lam.body.func, ast.Name) and lam.body.func.id == "self" and \
            len(lam.body.args) == 2 and src(lam.body.args[1]) == lam.args.args[0].arg
        kw = {k.arg: src(k.value) for k in c.keywords}
        flats.append((kw.get("flat", "False"), c, fn.name))
        run.judged(rid, "%s: %s" % (fn.name, src(c)[:120]), ok=ok)
        if not ok:
            run.report("C16.3", DS, c, "the finite-difference wrapper built in %s() does not differentiate `lambda y: self(t, y)` (the counted evaluation of the right-hand side "
                                       "at the given state)" % fn.name)
        okb = kw.get("base_order") == "self.__jac_wrapped_rhs_order"
        if not okb:
            run.report("C16.3", DS, c, "the finite-difference wrapper built in %s() ignores the configured base order" % fn.name)
    ref = flats[0][0] if flats else None
    # the reference layout is the one used by jac() itself
    for f, c, name in flats:
        if name == "jac":
            ref = f
    for f, c, name in flats:
        ok = f == ref
        run.judged(rid, "%s: flat=%s (reference %s)" % (name, f, ref), ok=ok)
        if not ok:
            run.report("C16.3", DS, c, "%s() builds the wrapper with flat=%s while jac() uses flat=%s: the Jacobian changes layout (entry [i..., j...]) after this call" % (name, f, ref))


def layout(repo, run):
    rid = run.rule("C16.4", "JacobianWrapper.estimate: column idx of the work array belongs to input idx (perturbation mask and store use the same idx); the "
                            "array is allocated (outputs, inputs) and reshaped to (*output shape, *input shape)", floor=4)
    fn = repo.get(UTL, "JacobianWrapper.estimate")
    run.analysed_fn(UTL, fn)
    loops = [st for st in fn.body if isinstance(st, ast.For) and isinstance(st.iter, ast.Call) and fname(st.iter) == "enumerate"]
    if len(loops) != 1:
        raise AnalysisError("JacobianWrapper.estimate: the loop over inputs was not found")
    lp = loops[0]
    idx = lp.target.elts[0].id
    over = src(lp.iter.args[0])
    # which names hold the flattened input / output
    flat_in = flat_out = None
    for st in fn.body:
        if isinstance(st, ast.Assign) and isinstance(st.value, ast.Call) and fname(st.value) == "reshape" and src(st.value.args[1]) == "(-1,)":
            a0 = src(st.value.args[0])
            if a0 == [a.arg for a in fn.args.args][1]:
                flat_in = flat_in or src(st.targets[0])
            elif any(isinstance(d, ast.Assign) and src(d.targets[0]) == a0 and isinstance(d.value, ast.Call) and is_self_attr(d.value.func, "rhs") for d in fn.body):
                flat_out = src(st.targets[0])          # the flattened OUTPUT: reshape of the value the wrapped function returned
    ok = flat_in is not None and over == flat_in
    run.judged(rid, "loop enumerates the flattened INPUT `%s`" % over, ok=ok)
    if not ok:
        run.report("C16.4", UTL, lp, "the finite-difference loop does not enumerate the components of the input")
    from ..sym import inline_locals
    env = inline_locals(fn)

    def shape_arg(call):
        a = call.args[0] if call.args else None
        if isinstance(a, ast.Name) and a.id in env:
            a = env[a.id]
        return a
    alloc = [st for st in fn.body if isinstance(st, ast.Assign) and isinstance(st.value, ast.Call) and fname(st.value) == "zeros" and isinstance(shape_arg(st.value), ast.Tuple)]
    oka = False
    jname = None
    for st in alloc:
        el = [src(e) for e in shape_arg(st.value).elts]
        if flat_out and flat_in and el == ["*D.ar_numpy.shape(%s)" % flat_out, "*D.ar_numpy.shape(%s)" % flat_in]:
            oka = True
            jname = src(st.targets[0])
    run.judged(rid, "work array allocated as (outputs, inputs)", ok=oka)
    if not oka:
        run.report("C16.4", UTL, alloc[0] if alloc else fn, "the Jacobian work array is not allocated with shape (outputs, inputs)", text="estimate allocation")
        return
    stores = [st for st in ast.walk(lp) if isinstance(st, ast.Assign) and isinstance(st.targets[0], ast.Subscript) and src(st.targets[0].value) == jname]
    oks = bool(stores) and all(Canon().index_text(st.targets[0].slice).replace(" ", "") == ":,%s" % idx for st in stores)
    run.judged(rid, "stores into the work array use column `%s`: %s" % (idx, [src(s.targets[0]) for s in stores]), ok=oks)
    if not oks:
        run.report("C16.4", UTL, stores[0] if stores else lp, "a derivative with respect to input %s is not stored in column %s of the work array: entries of the Jacobian are transposed or misplaced" % (idx, idx))
    masks = [st for st in lp.body if isinstance(st, ast.Assign) and isinstance(st.targets[0], ast.Subscript) and src(st.value) == "1.0"]
    okm = len(masks) == 1 and src(masks[0].targets[0].slice) == idx
    if not masks:
        # the other idiom: the component is shifted in the flattened input itself (`flat[idx] = value + x*h` ... `flat[idx] = value`); whether writing into the
        # caller's array is acceptable is C13's question, the layout question here is only WHICH component moves
        flats = {flat_in} | {src(d.targets[0]) for d in fn.body if isinstance(d, ast.Assign) and isinstance(d.value, ast.Call) and fname(d.value) == "reshape" and
                             len(d.value.args) > 1 and src(d.value.args[1]).replace(" ", "") in ("(-1,)", "-1")}
        masks = [st for st in ast.walk(lp) if isinstance(st, ast.Assign) and isinstance(st.targets[0], ast.Subscript) and src(st.targets[0].value) in flats and
                 src(st.targets[0].value) != flat_out]
        okm = bool(masks) and all(src(st.targets[0].slice) == idx for st in masks)
    run.judged(rid, "perturbation mask set at index `%s`" % idx, ok=okm)
    if not okm:
        run.report("C16.4", UTL, masks[0] if masks else lp, "the perturbed component is not component %s" % idx, text="perturbation mask index")
    rets = [st for st in ast.walk(fn) if isinstance(st, ast.Return) and isinstance(st.value, ast.Call) and isinstance(st.value.func, ast.Attribute) and st.value.func.attr == "reshape"]
    yname = [a.arg for a in fn.args.args][1]
    okr = False
    for r in rets:
        a = r.value.args[0]
        if isinstance(a, ast.Name) and a.id in env:
            a = env[a.id]
        if isinstance(a, ast.Tuple):
            from ..extract import _subst
            el = [src(_subst(e, env)) for e in a.elts]          # `y_shape = D.ar_numpy.shape(y)` computed once is the same shape
            if len(el) == 2 and el[0].startswith("*D.ar_numpy.shape(") and el[1] == "*D.ar_numpy.shape(%s)" % yname and el[0] != el[1]:
                okr = True
    run.judged(rid, "result reshaped to (*output shape, *input shape)", ok=okr)
    if not okr:
        run.report("C16.4", UTL, rets[0] if rets else fn, "the non-flat result is not reshaped to (*output shape, *input shape): entry [i..., j...] would not be d out_i / d in_j",
                   text="estimate result reshape")


# ------------------------------------------------------------------------------------------------
def quotient(repo, run):
    """C16.8: one generic iteration of the per-component loop of JacobianWrapper.estimate is executed symbolically (Laurent polynomials) on every
    path, with the wrapped function linearised at the evaluation point: f(y + d*e_idx) = F0 + d*G.  The stencil weights satisfy sum w = 0 and
    sum w*x = 1 (the moment system whose exact solution C16.6 checks), so column idx must come out as exactly G: the accumulated sum has to be divided
    by the very step the component was perturbed with (per component when the step is rescaled per component)."""
    from ..sym import Poly
    rid = run.rule("C16.8", "JacobianWrapper.estimate: symbolic execution of one iteration of the component loop with f linearised (f(y + d e_j) = F0 + d G) "
                            "and the stencil moments (sum w = 0, sum w x = 1): column j of the work array equals G on every path, i.e. the weighted "
                            "sum is divided by the step that component was perturbed with", floor=1)
    fn = repo.get(UTL, "JacobianWrapper.estimate")
    loops = [st for st in fn.body if isinstance(st, ast.For) and isinstance(st.iter, ast.Call) and fname(st.iter) == "enumerate"]
    if len(loops) != 1:
        raise AnalysisError("JacobianWrapper.estimate: the loop over inputs was not found")
    lp = loops[0]
    idx = lp.target.elts[0].id
    comp = lp.target.elts[1].id if isinstance(lp.target.elts[1], ast.Name) else None
    yname = [a.arg for a in fn.args.args][1]
    flat_in = None
    for st in fn.body:
        if isinstance(st, ast.Assign) and isinstance(st.value, ast.Call) and fname(st.value) == "reshape" and src(st.value.args[0]) == yname:
            flat_in = src(st.targets[0])
    cols = [st for st in ast.walk(lp) if isinstance(st, (ast.Assign, ast.AugAssign)) and isinstance(_tgt(st), ast.Subscript)
            and Canon().index_text(_tgt(st).slice).replace(" ", "") == ":,%s" % idx]
    if not cols or flat_in is None:
        raise AnalysisError("JacobianWrapper.estimate: the column store of the finite-difference loop was not found")
    jname = src(_tgt(cols[0]).value)
    masks = {src(st.targets[0].value) for st in lp.body if isinstance(st, ast.Assign) and isinstance(st.targets[0], ast.Subscript) and src(st.value) == "1.0"}

    class Unknown(Exception):
        pass

    def is_col(node):
        return isinstance(node, ast.Subscript) and src(node.value) == jname and Canon().index_text(node.slice).replace(" ", "") == ":,%s" % idx

    def ev(node, env):
        def hook(n, canon):
            if is_col(n):
                return env["<col>"]
            if isinstance(n, ast.Name) and n.id == jname:
                return env["<col>"]
            if isinstance(n, ast.Name) and n.id in env:
                return env[n.id]
            if isinstance(n, ast.Name) and n.id in masks:
                return Poly.atom("<mask>")
            if isinstance(n, ast.Name) and n.id in (flat_in, yname):
                return Poly.atom("<y>")
            if isinstance(n, ast.Call) and fname(n) in ("reshape", "asarray", "copy", "clone") and n.args:
                return canon.poly(n.args[0])
            if isinstance(n, ast.Name) and n.id == comp:
                return Poly.atom("<yj>")
            if isinstance(n, ast.Call) and is_self_attr(n.func, "rhs") and n.args:
                arg = canon.poly(n.args[0])
                if "<pert>" in env and not (arg - Poly.atom("<y>")):
                    return Poly.atom("<F0>") + env["<pert>"] * Poly.atom("<G>")
                d = arg.diff("<mask>")
                if (arg - d * Poly.atom("<mask>") - Poly.atom("<y>")) or "<mask>" in d.atoms() or "<y>" in d.atoms():
                    raise Unknown("the perturbed argument `%s` is not  y + d * mask" % src(n.args[0]))
                return Poly.atom("<F0>") + d * Poly.atom("<G>")
            return None
        return Canon(atom_hook=hook).poly(node)

    def moments(delta, A, w):
        """sum over the stencil nodes of a polynomial whose every monomial carries the weight once: w -> 0, w*x -> 1"""
        out = Poly()
        for m, c in delta.items():
            if m.count(w) != 1:
                raise Unknown("a term of the accumulated sum does not carry the stencil weight exactly once")
            k = m.count(A)
            rest = tuple(a for a in m if a not in (w, A))
            if k == 0:
                continue
            if k == 1:
                out = out + Poly({rest: c})
            else:
                raise Unknown("non-linear dependence on the node position")
        return out

    def tgt_name(st):
        t = _tgt(st)
        return t.id if isinstance(t, ast.Name) else None

    def exec_block(stmts, envs):
        for st in stmts:
            nxt = []
            for env in envs:
                nxt.extend(exec_stmt(st, env))
            envs = nxt
        return envs

    def exec_stmt(st, env):
        if isinstance(st, ast.Assign) and len(st.targets) == 1:
            t = st.targets[0]
            if isinstance(t, ast.Name):
                e2 = dict(env)
                if t.id == jname:
                    e2["<col>"] = ev(st.value, env)
                else:
                    try:
                        e2[t.id] = ev(st.value, env)
                    except Unknown:
                        e2.pop(t.id, None)
                return [e2]
            if is_col(t):
                e2 = dict(env)
                e2["<col>"] = ev(st.value, env)
                return [e2]
            if isinstance(t, ast.Subscript) and src(t.value) == jname:
                raise Unknown("store into another part of the work array inside the component loop: `%s`" % src(t))
            if isinstance(t, ast.Subscript) and src(t.value) == flat_in:
                if src(t.slice) != idx:
                    raise Unknown("store into another component of the input: `%s`" % src(t))
                e2 = dict(env)
                e2["<pert>"] = ev(st.value, env) - Poly.atom("<yj>")
                if "<y>" in e2["<pert>"].atoms():
                    raise Unknown("the in-place perturbation `%s` is not  value + shift" % src(st)[:60])
                return [e2]
            return [env]
        if isinstance(st, ast.AugAssign) and (is_col(st.target) or (isinstance(st.target, ast.Name) and (st.target.id == jname or st.target.id in env))):
            bo = ast.BinOp(left=st.target, op=st.op, right=st.value)
            e2 = dict(env)
            e2["<col>" if (is_col(st.target) or st.target.id == jname) else st.target.id] = ev(bo, env)
            return [e2]
        if isinstance(st, ast.If):
            return exec_block(st.body, [dict(env, **{"<path>": env["<path>"] + ["if " + src(st.test)[:60]]})]) + \
                exec_block(st.orelse, [dict(env, **{"<path>": env["<path>"] + ["not (" + src(st.test)[:60] + ")"]})])
        if isinstance(st, ast.For):
            if not (isinstance(st.iter, ast.Call) and fname(st.iter) == "zip" and isinstance(st.target, ast.Tuple) and len(st.target.elts) == 2):
                raise Unknown("a loop other than the loop over (node, weight) pairs inside the component loop")
            A, w = (e.id for e in st.target.elts)
            roles = [src(a) for a in st.iter.args]
            if "weight" in roles[0]:
                A, w = w, A
            out = []
            for env1 in [dict(env, **{A: Poly.atom("<x>"), w: Poly.atom("<w>")})]:
                for env2 in exec_block(st.body, [env1]):
                    delta = env2["<col>"] - env["<col>"]
                    e3 = dict(env)
                    e3["<col>"] = env["<col>"] + moments(delta, "<x>", "<w>")
                    out.append(e3)
            return out
        if isinstance(st, (ast.Expr, ast.Pass)):
            return [env]
        raise Unknown("statement kind %s inside the component loop" % type(st).__name__)

    run.analysed_fn(UTL, fn)
    try:
        envs = exec_block(lp.body, [{"<col>": Poly(), "<path>": []}])
        after = fn.body[fn.body.index(lp) + 1:]
        tail = [st for st in after if isinstance(st, (ast.Assign, ast.AugAssign)) and (tgt_name(st) == jname)]
        # names bound inside the loop are per-component values: after the loop they hold the LAST component's value, not this one's
        loop_locals = {n.id for st in ast.walk(lp) for n in ast.walk(st) if isinstance(n, ast.Name) and isinstance(n.ctx, ast.Store)}
        outs = []
        for env in envs:
            for st in tail:
                stale = {n.id for n in ast.walk(st.value) if isinstance(n, ast.Name) and n.id in loop_locals}
                env = dict(env)
                for nme in stale:
                    env[nme] = Poly.atom("<last component's %s>" % nme)
                env = exec_stmt(st, env)[0]
            outs.append(env)
    except Unknown as e:
        raise AnalysisError("JacobianWrapper.estimate: the finite-difference loop could not be executed symbolically (%s)" % e)
    for env in outs:
        col = env["<col>"].cancel()
        ok = not (col - Poly.atom("<G>"))
        run.judged(rid, "path [%s]: column %s = %s" % ("; ".join(env["<path>"]) or "straight", idx, col.canon()), ok=ok)
        if not ok:
            run.report("C16.8", UTL, cols[-1], "on the path [%s] column %s of the finite-difference Jacobian comes out as  %s  where G is the derivative of the wrapped "
                       "function with respect to that component: the weighted sum of the stencil is not divided by the step this component was perturbed "
                       "with (entries of that column are scaled)" % ("; ".join(env["<path>"]) or "straight", idx, col.canon()),
                       text="estimate column = %s" % col.canon())


def _tgt(st):
    return st.targets[0] if isinstance(st, ast.Assign) else st.target


# ------------------------------------------------------------------------------------------------
def _exact_stencil(n, order=1):
    """exact weights of the stencil on n equally spaced nodes in [-1, 1] defined by  sum_j w_j x_j^i = [i == order], i = 0..n-1  (what
    get_finite_difference_weights solves numerically), and the exponents e >= 0 with a non-zero error term h^e in  sum_j w_j f(x + x_j h) / h - f'(x)"""
    from fractions import Fraction
    xs = [Fraction(-1) + Fraction(2 * j, n - 1) for j in range(n)]
    M = [[x ** i for x in xs] + [Fraction(1 if i == order else 0)] for i in range(n)]
    for c in range(n):                      # Gauss-Jordan over the rationals
        piv = next(r for r in range(c, n) if M[r][c] != 0)
        M[c], M[piv] = M[piv], M[c]
        M[c] = [v / M[c][c] for v in M[c]]
        for r in range(n):
            if r != c and M[r][c] != 0:
                M[r] = [a - M[r][c] * b for a, b in zip(M[r], M[c])]
    w = [M[i][n] for i in range(n)]
    exps = [k - 1 for k in range(n, n + 30) if sum(wj * x ** k for wj, x in zip(w, xs)) != 0]
    return w, exps


def fd_extrapolation(repo, run, tier="quick"):
    """'agrees with the analytic Jacobian to near the accuracy its tolerances request ... for all base orders': the tolerances are requested from a
    Richardson tableau over finite-difference estimates; every column of that tableau has to remove the leading term of the error expansion of the
    previous one, otherwise the tableau converges no faster than its first column and stops at the rounding floor of that column."""
    from fractions import Fraction
    from ..absint import Interp, Domain, OPAQUE
    from .c01 import Exp, _frac, _Self
    rid = run.rule("C16.6", "finite-difference Jacobian, for base orders 2..10 and 3..6 tableau rows: the stencil weights (exact rational solve of the system the code "
                            "sets up) give an error expansion h^p, h^(p+2), ...; the entry returned by the (adaptive) Richardson tableau, interpreted over error "
                            "expansions, has order p + 2*(its column): each extrapolation removes the leading error term", floor=20)
    # the system the weights solve
    g = repo.get(UTL, "get_finite_difference_weights")
    run.analysed_fn(UTL, g)
    from ..sym import inline_locals
    c = Canon(env=inline_locals(g))
    P = [a.arg for a in g.args.args]
    texts = {}
    for st in walk_no_nested(g):
        if isinstance(st, ast.Assign) and isinstance(st.targets[0], ast.Name):
            texts.setdefault(st.targets[0].id, []).append(st)
    ok_nodes = any("linspace(-1, 1, %s" % P[1] in src(st.value).replace("D.ar_numpy.", "") for st in texts.get("nodal_points", []))
    wm = texts.get("weight_matrix", [])
    ok_mat = False
    for st in wm:
        lcs = [x for x in ast.walk(st.value) if isinstance(x, ast.ListComp)]
        for lc in lcs:
            gen = lc.generators[0]
            from ..extract import _subst
            lenv = inline_locals(g, keep=("nodal_points",))         # locals hoisted out of the comprehension (`n = len(nodal_points)`, a float64 view of the nodes) are the same matrix
            if isinstance(gen.iter, ast.Call) and dotted(gen.iter.func) == "range" and "len(nodal_points)" in src(_subst(gen.iter, lenv)) and isinstance(lc.elt, ast.Call) and \
                    fname(lc.elt) in ("pow", "power") and src(lc.elt.args[1]) == src(gen.target) and "nodal_points" in src(_subst(lc.elt.args[0], lenv)):
                ok_mat = True
    ok_rhs = any(isinstance(st, ast.Assign) and isinstance(st.targets[0], ast.Subscript) and src(st.targets[0]) == "b_vector[%s]" % P[2] and
                 isinstance(st.value, ast.Constant) and st.value.value == 1.0 for st in walk_no_nested(g))
    ok_solve = any(isinstance(x, ast.Call) and fname(x) in ("solve_linear_system", "solve") and [src(a) for a in x.args[:2]] == ["weight_matrix", "b_vector"] for x in ast.walk(g))
    oks = ok_nodes and ok_mat and ok_rhs and ok_solve
    run.judged(rid, "weights solve  sum_j w_j x_j^i = [i == order]  on linspace(-1, 1, n): nodes %s matrix %s rhs %s solve %s" % (ok_nodes, ok_mat, ok_rhs, ok_solve), ok=oks)
    if not oks:
        run.report("C16.6", UTL, g, "get_finite_difference_weights no longer sets up the moment system  sum_j w_j x_j^i = [i == order]  on n equally spaced nodes in [-1, 1]: "
                                    "the stencil is not the derivative stencil the Jacobian estimate assumes", text="finite-difference moment system")
        return
    cls = "JacobianWrapper"
    init = repo.get(UTL, cls + ".__init__")
    call = [x for x in ast.walk(init) if isinstance(x, ast.Call) and fname(x) == "get_finite_difference_weights"]
    ok_call = len(call) == 1 and len(call[0].args) >= 2 and src(call[0].args[1]) == "self.base_order" and {k.arg: src(k.value) for k in call[0].keywords}.get("order", "1") == "1"
    run.judged(rid, "JacobianWrapper asks for the first-derivative stencil on base_order nodes", ok=ok_call)
    if not ok_call:
        run.report("C16.6", UTL, init, "JacobianWrapper does not request the first-derivative stencil on `base_order` nodes", text="stencil request")
        return

    class Dom(Domain):
        def __init__(self, n, R, exps):
            self.n, self.R, self.exps = n, R, exps

        def attribute(self, obj, attr, node, interp):
            if isinstance(obj, _Self):
                if attr == "base_order":
                    return self.n
                if attr == "richardson_iter":
                    return self.R
            return NotImplemented

        def store_attribute(self, obj, attr, val, node, interp):
            return True

        def call(self, name, node, args, kwargs, interp):
            if name == "self.estimate":
                dy = kwargs.get("dy")
                f = _frac(dy)
                if f is None:
                    raise AnalysisError("estimate() called with a step the calculus cannot follow: %s" % src(node)[:80])
                return Exp(1, {e: f ** e for e in self.exps})
            if name == "self.check_converged":
                return (OPAQUE, OPAQUE)
            return NotImplemented

        def binop(self, op, a, b, node):
            ea, eb = isinstance(a, Exp), isinstance(b, Exp)
            if not (ea or eb):
                fa, fb = _frac(a), _frac(b)
                if fa is not None and fb is not None and isinstance(op, ast.Pow):
                    try:
                        if fb.denominator == 1:
                            return fa ** int(fb)
                    except (OverflowError, ZeroDivisionError):
                        return OPAQUE
                return NotImplemented
            if ea and eb:
                if isinstance(op, ast.Add):
                    return a.lin(b, 1, 1)
                if isinstance(op, ast.Sub):
                    return a.lin(b, 1, -1)
                return OPAQUE
            x, k = (a, _frac(b)) if ea else (b, _frac(a))
            if k is None:
                return OPAQUE
            if isinstance(op, ast.Mult):
                return x.scale(k)
            if isinstance(op, ast.Div) and ea and k != 0:
                return x.scale(1 / k)
            return OPAQUE
    failing = []
    n_j = 0
    for meth in ("adaptive_richardson", "richardson"):
        fn = repo.get(UTL, cls + "." + meth)
        run.analysed_fn(UTL, fn)
        params = [a.arg for a in fn.args.args]
        kwdefaults = {a.arg: d for a, d in zip(fn.args.kwonlyargs, fn.args.kw_defaults)}
        for n in range(2, 11 if tier == "quick" else 15):
            w, exps = _exact_stencil(n)
            p = exps[0]
            for R in ((3, 4, 5, 6) if tier == "quick" else (3, 4, 5, 6, 7, 8, 9)):
                dom = Dom(n, R, exps[:R + 2])
                it = Interp(dom, max_paths=1024)
                args = {params[0]: _Self()}
                for a in params[1:]:
                    args[a] = OPAQUE
                for k, d in kwdefaults.items():
                    try:
                        args[k] = ast.literal_eval(d)
                    except Exception:
                        args[k] = OPAQUE
                args.setdefault("args", ())
                args.setdefault("kwargs", {})
                worst = None
                npaths = 0
                for outcome, val, _ in it.all_paths(fn, args):
                    npaths += 1
                    if outcome != "return":
                        continue
                    # the tableau, by role: a local list of rows (lists) one of whose entries IS the returned value (whatever the local is called)
                    if not isinstance(val, Exp):
                        raise AnalysisError("%s: the returned value is not an entry of the tableau the calculus can follow" % meth)
                    col = None
                    cands = [v_ for v_ in it.env.values() if isinstance(v_, list) and v_ and all(isinstance(r_, list) for r_ in v_)]
                    if not cands:
                        raise AnalysisError("%s: the returned value is not an entry of the tableau the calculus can follow" % meth)
                    for A in cands:
                        for row in A:
                            for j, v in enumerate(row):
                                if v is val:
                                    col = j
                    if col is None:
                        raise AnalysisError("%s: the returned value is not an entry of the tableau" % meth)
                    o = val.order()
                    o = 10 ** 6 if o is None else o
                    need = p + 2 * col
                    if val.one != 1 or o < need:
                        if worst is None or o - need < worst[0] - worst[1]:
                            worst = (o, need, col, val.one)
                n_j += 1
                run.judged(rid, "%s base_order=%d (p=%d) rows=%d: paths=%d %s" % (meth, n, p, R, npaths, "ok" if worst is None else "returned entry of column %d has order %d < %d" % (worst[2], worst[0], worst[1])),
                           ok=worst is None)
                if worst is not None:
                    failing.append((meth, n, p, R, worst[2], worst[0], worst[1]))
    for meth in ("adaptive_richardson", "richardson"):
        fl = [f for f in failing if f[0] == meth]
        if fl:
            fn = repo.get(UTL, cls + "." + meth)
            rec = [st for st in ast.walk(fn) if isinstance(st, ast.Expr) and isinstance(st.value, ast.Call) and isinstance(st.value.func, ast.Attribute) and st.value.func.attr == "append"
                   and any(isinstance(x, ast.BinOp) and isinstance(x.op, ast.Div) for x in ast.walk(st.value))]
            ex = [(n, R, col, o, need) for (_, n, p, R, col, o, need) in fl[:5]]
            run.report("C16.6", UTL, rec[-1] if rec else fn, "JacobianWrapper.%s: the extrapolation weights do not remove the leading error term of the finite-difference estimate for "
                                                            "%d of %d (base order, rows) combinations, e.g. %s (format: base order, rows, column of the returned entry, its order, "
                                                            "order required): the Jacobian converges no faster than the raw stencil and stalls at its rounding floor, far from the "
                                                            "requested tolerance" % (meth, len(fl), n_j // 2, ex),
                       text="%s extrapolation weights: base orders failing %s" % (meth, sorted({f[1] for f in fl})))


def wrapper_statelessness(repo, run):
    """'never at a time or state cached from an earlier call': the finite-difference wrapper must compute everything about an estimate from the arguments of that
    call and its configuration; an attribute written while estimating is state that survives into the next call (a cached evaluation, template, mask ...)"""
    rid = run.rule("C16.7", "who-may-write: the evaluating methods of JacobianWrapper (estimate, richardson, adaptive_richardson, check_converged, __call__) assign no "
                            "instance attribute except the reported `order`; configuration is written by __init__ only", floor=4)
    allowed = {"order"}
    for meth in ("estimate", "richardson", "adaptive_richardson", "check_converged", "__call__"):
        fn = repo.maybe(UTL, "JacobianWrapper." + meth)
        if fn is None:
            raise AnalysisError("JacobianWrapper.%s not found" % meth)
        writes = []
        for st in ast.walk(fn):
            tg = st.targets if isinstance(st, ast.Assign) else ([st.target] if isinstance(st, (ast.AugAssign, ast.AnnAssign)) else [])
            for t in tg:
                for x in ast.walk(t):
                    if isinstance(x, ast.Attribute) and isinstance(x.value, ast.Name) and x.value.id == "self" and isinstance(x.ctx, ast.Store) and x.attr not in allowed:
                        writes.append((st, x.attr))
                    if isinstance(x, ast.Subscript) and isinstance(x.ctx, ast.Store) and is_self_attr(x.value):
                        writes.append((st, x.value.attr + "[...]"))
        run.judged(rid, "JacobianWrapper.%s writes %s" % (meth, sorted({a for _, a in writes}) or "no instance state"), ok=not writes)
        for st, a in writes:
            run.report("C16.7", UTL, st, "JacobianWrapper.%s stores `self.%s` while evaluating: what is stored is reused by later calls, which may be made at another state, "
                                         "dtype or time (a Jacobian computed from values cached by an earlier call)" % (meth, a))
    # ... and the attribute an evaluation is allowed to write (`order`, the order it reached) is a REPORT: nothing the wrapper computes with may read it back - the
    # depth an adaptive call stopped at would otherwise configure (cap) every later call on the same wrapper
    cls = repo.get(UTL, "JacobianWrapper")
    for meth in [f for f in cls.body if isinstance(f, (ast.FunctionDef, ast.AsyncFunctionDef)) and f.name != "__init__"]:
        reads = [x for x in ast.walk(meth) if isinstance(x, ast.Attribute) and isinstance(x.ctx, ast.Load) and is_self_attr(x) and x.attr in allowed]
        run.judged(rid, "JacobianWrapper.%s reads none of the attributes written while evaluating (%s)" % (meth.name, sorted(allowed)), ok=not reads)
        for x in reads:
            st = x
            while not isinstance(st, ast.stmt):
                st = st._parent
            run.report("C16.7", UTL, st, "JacobianWrapper.%s reads `self.%s`, which adaptive_richardson overwrites with the depth at which an earlier call converged: the "
                                         "number of extrapolation levels of a call then depends on the calls made before it (a wrapper used at a smooth point first is capped "
                                         "at that depth when it is called at a sharper point)" % (meth.name, x.attr), text="evaluation reads self.%s" % x.attr)


# ------------------------------------------------------------------------------------------------
def write_through_views(repo, run):
    """'for all smooth f with arbitrary array shapes': a perturbation written through a FLAT ALIAS of a scratch array reaches the array handed to the wrapped function only
    if `reshape(w, (-1,))` is a view of w, which numpy guarantees only for C-contiguous w.  `copy(x)` keeps the memory order of x (order='K'): for a Fortran-ordered or
    transposed state the reshape is a detached copy, every stencil evaluation sees the unperturbed state, the weights sum to zero and the Jacobian comes out as zeros."""
    rid = run.rule("C16.10", "JacobianWrapper.estimate: an array that is written through a reshape(-1) alias and then read under its own name is C-contiguous by construction "
                             "(zeros / empty / ravel / reshape of a fresh array / ascontiguousarray / arithmetic result), never a plain copy of an argument", floor=1)
    fn = repo.get(UTL, "JacobianWrapper.estimate")
    params = {a.arg for a in fn.args.args}
    binds = {}
    for st in walk_no_nested(fn):
        if isinstance(st, ast.Assign) and len(st.targets) == 1 and isinstance(st.targets[0], ast.Name):
            binds.setdefault(st.targets[0].id, []).append(st.value)
    n = 0
    for name, vals in binds.items():
        for v in vals:
            if isinstance(v, ast.Call) and fname(v) == "reshape" and v.args and isinstance(v.args[0], ast.Name) and len(v.args) > 1 and src(v.args[1]).replace(" ", "") in ("(-1,)", "-1"):
                base = v.args[0].id
                stores = [x for x in ast.walk(fn) if isinstance(x, ast.Subscript) and isinstance(x.ctx, ast.Store) and isinstance(x.value, ast.Name) and x.value.id == name]
                # the hazard: the array is handed to the wrapped function under its OWN name inside a loop that perturbs it through the alias
                loops_ = [l for l in ast.walk(fn) if isinstance(l, (ast.For, ast.While)) and any(x2 in stores for x2 in ast.walk(l))]
                def value_names(e):
                    if isinstance(e, ast.Call) and (fname(e) or "").split(".")[-1] in ("shape", "size", "ndim", "len"):
                        return
                    if isinstance(e, ast.Name):
                        yield e
                    for ch in ast.iter_child_nodes(e):
                        yield from value_names(ch)
                reads = [x for l in loops_ for c in ast.walk(l) if isinstance(c, ast.Call) and is_self_attr(c.func, "rhs") and c.args
                         for x in value_names(c.args[0]) if x.id == base]
                if not stores or not reads:
                    continue
                n += 1
                contiguous = True
                for bv in binds.get(base, [None]) if base not in params else [None]:
                    f = (fname(bv) or "").split(".")[-1] if isinstance(bv, ast.Call) else None
                    ok1 = f in ("zeros", "ones", "empty", "zeros_like", "ravel", "ascontiguousarray", "flatten", "stack", "concatenate") or isinstance(bv, ast.BinOp) or (
                        f in ("copy", "array", "asarray") and any(k.arg == "order" and isinstance(k.value, ast.Constant) and k.value.value == "C" for k in bv.keywords))
                    contiguous = contiguous and ok1
                run.judged(rid, "`%s` = reshape(%s, -1) is written through and `%s` is read: %s" % (name, base, base, "C-contiguous by construction" if contiguous else "memory order not known"), ok=contiguous)
                if not contiguous:
                    run.report("C16.10", UTL, stores[0], "`%s[...]` is stored into as a flat alias of `%s`, which is then handed on under its own name; `%s` is %s, whose memory order is that of the "
                               "caller's array: for a Fortran-ordered / transposed / moveaxis view of a multi-axis state `reshape(-1)` returns a detached copy, the perturbations never "
                               "reach the function being differentiated and every entry of the Jacobian is 0" % (name, base, base, "a parameter" if base in params else "bound by `%s`" % src(binds[base][0])[:40]))
    if n == 0:
        run.judged(rid, "no array is written through a flat alias", nontrivial=False)
