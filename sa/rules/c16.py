"""C16 — Jacobians: predicate abstraction of DiffRHS's Jacobian cache (all reachable abstract states under every sequence
of jac / hook / unhook / set_jac_base_order / attribute assignment), cache-key discipline of the finite-difference closure,
agreement of the JacobianWrapper constructions, layout of the finite-difference estimate."""
import ast

from ..flow import Client, Engine, tri_eval
from ..front import AnalysisError, dotted, fname, is_self_attr, src, walk_no_nested, ancestors
from ..sym import Canon

LEVEL = "other"
DS = "desolver/differential_system.py"
UTL = "desolver/utilities/utilities.py"
CLS = "DiffRHS"


def run(repo, run, tier):
    run.assumptions += ["NOT decided: accuracy of the finite-difference estimate",
                        "numpy backend (torch is not installed; the torch branch of jac is parsed but its autodiff transform is exempt)"]
    protocol(repo, run)
    cache_key(repo, run)
    wrappers(repo, run)
    layout(repo, run)


# ------------------------------------------------------------------------------------------------
def _attr(t):
    return t.attr if is_self_attr(t) else None


def _jac_value_kind(v):
    """abstract kind of the value assigned to self.__jac"""
    if isinstance(v, ast.Constant) and v.value is None:
        return "none"
    if isinstance(v, ast.Call) and (dotted(v.func) or "").endswith("JacobianWrapper"):
        return "fd"
    if isinstance(v, ast.Call) and "jacrev" in (dotted(v.func) or ""):
        return "auto"
    if isinstance(v, ast.Attribute) and v.attr == "jac" and is_self_attr(v.value, "rhs"):
        return "rhsjac"
    if isinstance(v, ast.Name):
        return "hook"
    return "unknown"


class ProtoClient(Client):
    """state = (initialised, jac, wrapped)  with jac in {none, hook, rhsjac, fd, auto, unknown}"""

    def __init__(self, has_rhs_jac, numpy_backend=True):
        self.has = has_rhs_jac
        self.np = numpy_backend
        self.calls = []        # (node, state, nargs)

    def transfer(self, st, state):
        init, jac, wrapped = state
        if isinstance(st, ast.Assign):
            for t in st.targets:
                a = _attr(t)
                if a == "__jac_initialised" and isinstance(st.value, ast.Constant):
                    init = bool(st.value.value)
                elif a == "__jac":
                    jac = _jac_value_kind(st.value)
                elif a == "__jac_is_wrapped_rhs" and isinstance(st.value, ast.Constant):
                    wrapped = bool(st.value.value)
            # calls of the cached jacobian
            for c in ast.walk(st.value):
                if isinstance(c, ast.Call) and is_self_attr(c.func, "__jac"):
                    self.calls.append((c, (init, jac, wrapped), len([a for a in c.args if not isinstance(a, ast.Starred)])))
        elif isinstance(st, (ast.Expr, ast.Return)) and st.value is not None:
            for c in ast.walk(st.value):
                if isinstance(c, ast.Call) and is_self_attr(c.func, "__jac"):
                    self.calls.append((c, (init, jac, wrapped), len([a for a in c.args if not isinstance(a, ast.Starred)])))
                if isinstance(c, ast.Call) and dotted(c.func) == "self.hook_jacobian_call":
                    jac, wrapped = "hook", False
        return [(init, jac, wrapped)]

    def branch(self, test, state):
        init, jac, wrapped = state

        def val(n):
            t = src(n)
            if t == "self.__jac_initialised":
                return init
            if t == "self.__jac is None":
                return jac == "none"
            if t == "self.__jac is not None":
                return jac != "none"
            if t == "self.__jac_is_wrapped_rhs":
                return wrapped
            if t == "hasattr(self.rhs, 'jac')":
                return self.has
            if t == "inferred_backend == 'numpy'":
                return self.np
            if t == "y is None":
                return None
            return None
        r = tri_eval(test, val)
        return ([state] if True in r else []), ([state] if False in r else [])


def protocol(repo, run):
    rid = run.rule("C16.1", "predicate abstraction of DiffRHS over (initialised, cached jacobian in {none, hook, rhs.jac, finite-difference, autodiff}, wrapped): "
                            "in no state reachable by any sequence of jac / hook / unhook / set_jac_base_order calls does jac() call None or call the "
                            "cached object with the wrong signature; a hooked or attribute-supplied Jacobian is the one called", floor=8)
    methods = {}
    for name in ("jac", "hook_jacobian_call", "unhook_jacobian_call", "set_jac_base_order"):
        methods[name] = repo.get(DS, CLS + "." + name)
        run.analysed_fn(DS, methods[name])
    init_fn = repo.get(DS, CLS + ".__init__")
    # initial state from the constructor
    init_state = [False, "none", False]
    for st in walk_no_nested(init_fn):
        if isinstance(st, ast.Assign):
            for t in st.targets:
                a = _attr(t)
                if a == "__jac_initialised" and isinstance(st.value, ast.Constant):
                    init_state[0] = bool(st.value.value)
                if a == "__jac":
                    init_state[1] = _jac_value_kind(st.value)
                if a == "__jac_is_wrapped_rhs" and isinstance(st.value, ast.Constant):
                    init_state[2] = bool(st.value.value)
    # __setattr__('jac', v) -> hook
    sa = repo.get(DS, CLS + ".__setattr__")
    ok_sa = any(isinstance(st, ast.If) and "name == 'jac'" in src(st.test) and "self.hook_jacobian_call(val)" in src(st) for st in ast.walk(sa))
    run.judged(rid, "assignment `rhs.jac = f` is routed to hook_jacobian_call", ok=ok_sa)
    if not ok_sa:
        run.report("C16.1", DS, sa, "assigning a Jacobian by attribute is not routed to hook_jacobian_call", text="__setattr__ jac routing")
    reported = set()
    total_states = 0
    for has in (False, True):
        seen = set()
        work = [tuple(init_state)]
        hooked_states = set()
        while work:
            s = work.pop()
            if s in seen:
                continue
            seen.add(s)
            for name, fn in methods.items():
                cl = ProtoClient(has)
                eng = Engine(cl)
                out = eng.run(fn, [s])
                ends = set(out.normal) | {x for (x, n) in out.ret}
                if name == "jac":
                    for (c, st_, nargs) in cl.calls:
                        i, j, w = st_
                        why = None
                        if j == "none":
                            why = "jac() calls the cached Jacobian while it is None (TypeError: 'NoneType' object is not callable)"
                        elif w and j != "fd":
                            why = "jac() calls a %s Jacobian with the finite-difference signature (y only)" % j
                        elif (not w) and j == "fd":
                            why = "jac() calls the finite-difference wrapper with the (t, y) signature"
                        elif nargs not in ((1,) if w else (2,)):
                            why = "jac() passes %d positional arguments to a %s Jacobian" % (nargs, "finite-difference" if w else "user")
                        # user-supplied jacobian must be the one called
                        if why is None and s[1] == "hook" and j != "hook":
                            why = "a hooked Jacobian is replaced by a %s one on the next jac() call" % j
                        if why is None and has and s[1] in ("none",) and j in ("fd",) and not s[0]:
                            why = "rhs.jac exists but jac() differentiates numerically"
                        key = (why, s)
                        run.judged(rid, "state (init=%s, jac=%s, wrapped=%s, rhs.jac=%s) -> jac(): calls %s with %d arg(s)" % (s[0], s[1], s[2], has, j, nargs), ok=why is None)
                        if why and why not in reported:
                            reported.add(why)
                            path = _witness(methods, has, tuple(init_state), s)
                            run.report("C16.1", DS, c, "%s; reachable by: %s" % (why, " ; ".join(path + ["jac()"])),
                                       text="jac protocol: %s [state init=%s jac=%s wrapped=%s]" % (why.split(" (")[0], s[0], s[1], s[2]))
                for e in ends:
                    if e not in seen:
                        work.append(e)
        total_states += len(seen)
    run.extra["abstract_states_explored"] = total_states


def _witness(methods, has, start, target):
    """shortest method sequence from the initial abstract state to ``target``"""
    from collections import deque
    q = deque([(start, [])])
    seen = {start}
    while q:
        s, path = q.popleft()
        if s == target:
            return path
        for name, fn in methods.items():
            cl = ProtoClient(has)
            out = Engine(cl).run(fn, [s])
            for e in set(out.normal) | {x for (x, n) in out.ret}:
                if e not in seen:
                    seen.add(e)
                    q.append((e, path + [name + "()"]))
    return ["<unreachable?>"]


# ------------------------------------------------------------------------------------------------
def _wrappers(repo):
    cls = repo.get(DS, CLS)
    out = []
    for c in [x for x in ast.walk(cls) if isinstance(x, ast.Call) and (dotted(x.func) or "").endswith("JacobianWrapper")]:
        out.append(c)
    return out


def cache_key(repo, run):
    rid = run.rule("C16.2", "cache-key discipline of the finite-difference closure: each closure evaluates the right-hand side at the time stored as "
                            "__jac_time in the same block; jac() rebuilds the closure whenever t differs from that key before calling it", floor=3)
    jac = repo.get(DS, CLS + ".jac")
    tname = [a.arg for a in jac.args.args][1]
    ws = _wrappers(repo)
    if not ws:
        raise AnalysisError("anchor missing: JacobianWrapper constructions in DiffRHS")
    for c in ws:
        fn = c
        while not isinstance(fn, ast.FunctionDef):
            fn = fn._parent
        lam = c.args[0] if c.args else None
        time_expr = None
        if isinstance(lam, ast.Lambda) and isinstance(lam.body, ast.Call) and lam.body.args:
            time_expr = src(lam.body.args[0])
        # key assigned in the same block
        st = c
        while not isinstance(st, ast.stmt):
            st = st._parent
        blk = st._parent
        siblings = getattr(blk, "body", []) if st in getattr(blk, "body", []) else getattr(blk, "orelse", [])
        keys = [src(s2.value) for s2 in siblings if isinstance(s2, ast.Assign) and any(_attr(t) == "__jac_time" for t in s2.targets)]
        ok = time_expr is not None and keys == [time_expr]
        run.judged(rid, "%s: closure time `%s`, key stored in the same block: %s" % (fn.name, time_expr, keys), ok=ok)
        if not ok:
            run.report("C16.2", DS, c, "the finite-difference closure evaluates the right-hand side at time `%s` but the cache key stored next to it is %s: the Jacobian "
                                       "would be taken at a time cached from an earlier call" % (time_expr, keys))
    # keyed rebuild before the call in the wrapped branch
    okr = False
    for st in ast.walk(jac):
        if isinstance(st, ast.If) and src(st.test) == "self.__jac_is_wrapped_rhs":
            inner = [x for x in st.body if isinstance(x, ast.If)]
            calls = [x for x in st.body if any(isinstance(c, ast.Call) and is_self_attr(c.func, "__jac") for c in ast.walk(x)) and not isinstance(x, ast.If)]
            for i in inner:
                t = src(i.test).replace(" ", "")
                if t in ("%s!=self.__jac_time" % tname, "self.__jac_time!=%s" % tname, "not(%s==self.__jac_time)" % tname):
                    rebuilt = any(isinstance(c, ast.Call) and (dotted(c.func) or "").endswith("JacobianWrapper") for c in ast.walk(i))
                    if rebuilt and calls and st.body.index(i) < st.body.index(calls[0]):
                        okr = True
    run.judged(rid, "jac(): `if t != self.__jac_time:` rebuild precedes the call of the finite-difference wrapper", ok=okr)
    if not okr:
        run.report("C16.2", DS, jac, "jac() does not rebuild the finite-difference closure when the requested time differs from the cached one: the Jacobian of a "
                                     "time-dependent right-hand side is evaluated at a stale time", text="keyed rebuild in jac")


def wrappers(repo, run):
    rid = run.rule("C16.3", "every JacobianWrapper built inside DiffRHS wraps the counting, current-time evaluation self(t, y) and uses the same `flat=` "
                            "layout as the others", floor=2)
    ws = _wrappers(repo)
    flats = []
    for c in ws:
        fn = c
        while not isinstance(fn, ast.FunctionDef):
            fn = fn._parent
        lam = c.args[0] if c.args else None
        ok = isinstance(lam, ast.Lambda) and isinstance(lam.body, ast.Call) and isinstance(lam.body.func, ast.Name) and lam.body.func.id == "self" and \
            len(lam.body.args) == 2 and src(lam.body.args[1]) == lam.args.args[0].arg
        kw = {k.arg: src(k.value) for k in c.keywords}
        flats.append((kw.get("flat", "False"), c, fn.name))
        run.judged(rid, "%s: %s" % (fn.name, src(c)[:120]), ok=ok)
        if not ok:
            run.report("C16.3", DS, c, "the finite-difference wrapper built in %s() does not differentiate `lambda y: self(t, y)` (the counted evaluation of the right-hand side "
                                       "at the given state)" % fn.name)
        okb = kw.get("base_order") == "self.__jac_wrapped_rhs_order"
        if not okb:
            run.report("C16.3", DS, c, "the finite-difference wrapper built in %s() ignores the configured base order" % fn.name)
    ref = flats[0][0] if flats else None
    # the reference layout is the one used by jac() itself
    for f, c, name in flats:
        if name == "jac":
            ref = f
    for f, c, name in flats:
        ok = f == ref
        run.judged(rid, "%s: flat=%s (reference %s)" % (name, f, ref), ok=ok)
        if not ok:
            run.report("C16.3", DS, c, "%s() builds the wrapper with flat=%s while jac() uses flat=%s: the Jacobian changes layout (entry [i..., j...]) after this call" % (name, f, ref))


def layout(repo, run):
    rid = run.rule("C16.4", "JacobianWrapper.estimate: column idx of the work array belongs to input idx (perturbation mask and store use the same idx); the "
                            "array is allocated (outputs, inputs) and reshaped to (*output shape, *input shape)", floor=4)
    fn = repo.get(UTL, "JacobianWrapper.estimate")
    run.analysed_fn(UTL, fn)
    loops = [st for st in fn.body if isinstance(st, ast.For) and isinstance(st.iter, ast.Call) and fname(st.iter) == "enumerate"]
    if len(loops) != 1:
        raise AnalysisError("JacobianWrapper.estimate: the loop over inputs was not found")
    lp = loops[0]
    idx = lp.target.elts[0].id
    over = src(lp.iter.args[0])
    # which names hold the flattened input / output
    flat_in = flat_out = None
    for st in fn.body:
        if isinstance(st, ast.Assign) and isinstance(st.value, ast.Call) and fname(st.value) == "reshape" and src(st.value.args[1]) == "(-1,)":
            a0 = src(st.value.args[0])
            if a0 == [a.arg for a in fn.args.args][1]:
                flat_in = src(st.targets[0])
            else:
                flat_out = src(st.targets[0])
    ok = flat_in is not None and over == flat_in
    run.judged(rid, "loop enumerates the flattened INPUT `%s`" % over, ok=ok)
    if not ok:
        run.report("C16.4", UTL, lp, "the finite-difference loop does not enumerate the components of the input")
    from ..sym import inline_locals
    env = inline_locals(fn)

    def shape_arg(call):
        a = call.args[0] if call.args else None
        if isinstance(a, ast.Name) and a.id in env:
            a = env[a.id]
        return a
    alloc = [st for st in fn.body if isinstance(st, ast.Assign) and isinstance(st.value, ast.Call) and fname(st.value) == "zeros" and isinstance(shape_arg(st.value), ast.Tuple)]
    oka = False
    jname = None
    for st in alloc:
        el = [src(e) for e in shape_arg(st.value).elts]
        if flat_out and flat_in and el == ["*D.ar_numpy.shape(%s)" % flat_out, "*D.ar_numpy.shape(%s)" % flat_in]:
            oka = True
            jname = src(st.targets[0])
    run.judged(rid, "work array allocated as (outputs, inputs)", ok=oka)
    if not oka:
        run.report("C16.4", UTL, alloc[0] if alloc else fn, "the Jacobian work array is not allocated with shape (outputs, inputs)", text="estimate allocation")
        return
    stores = [st for st in ast.walk(lp) if isinstance(st, ast.Assign) and isinstance(st.targets[0], ast.Subscript) and src(st.targets[0].value) == jname]
    oks = bool(stores) and all(Canon().index_text(st.targets[0].slice).replace(" ", "") == ":,%s" % idx for st in stores)
    run.judged(rid, "stores into the work array use column `%s`: %s" % (idx, [src(s.targets[0]) for s in stores]), ok=oks)
    if not oks:
        run.report("C16.4", UTL, stores[0] if stores else lp, "a derivative with respect to input %s is not stored in column %s of the work array: entries of the Jacobian are transposed or misplaced" % (idx, idx))
    masks = [st for st in lp.body if isinstance(st, ast.Assign) and isinstance(st.targets[0], ast.Subscript) and src(st.value) == "1.0"]
    okm = len(masks) == 1 and src(masks[0].targets[0].slice) == idx
    run.judged(rid, "perturbation mask set at index `%s`" % idx, ok=okm)
    if not okm:
        run.report("C16.4", UTL, masks[0] if masks else lp, "the perturbed component is not component %s" % idx, text="perturbation mask index")
    rets = [st for st in ast.walk(fn) if isinstance(st, ast.Return) and isinstance(st.value, ast.Call) and isinstance(st.value.func, ast.Attribute) and st.value.func.attr == "reshape"]
    yname = [a.arg for a in fn.args.args][1]
    okr = False
    for r in rets:
        a = r.value.args[0]
        if isinstance(a, ast.Name) and a.id in env:
            a = env[a.id]
        if isinstance(a, ast.Tuple):
            el = [src(e) for e in a.elts]
            if len(el) == 2 and el[0].startswith("*D.ar_numpy.shape(") and el[1] == "*D.ar_numpy.shape(%s)" % yname and el[0] != el[1]:
                okr = True
    run.judged(rid, "result reshaped to (*output shape, *input shape)", ok=okr)
    if not okr:
        run.report("C16.4", UTL, rets[0] if rets else fn, "the non-flat result is not reshaped to (*output shape, *input shape): entry [i..., j...] would not be d out_i / d in_j",
                   text="estimate result reshape")
