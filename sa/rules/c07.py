"""C07 — reported events: record construction, index sorts of the duplicate-suppression table, the direction filter
and the crossing classification as boolean functions, ordering key, direction-guarded in-step test."""
import ast
import itertools

from .. import seeds
from ..front import AnalysisError, dotted, fname, is_self_attr, src, walk_no_nested, ancestors, const_value
from ..imodel import IntegrateModel, DS
from ..kind import KindEngine, Seeds
from ..sym import Canon, Poly, BoolTracker, eval_bool, tree_atoms

LEVEL = "other"


def run(repo, run, tier):
    run.assumptions += ["NOT decided: g(t_e, y_e) ~ 0 and closeness of t_e to a true root of the exact trajectory (numeric)"]
    m = IntegrateModel(repo)
    run.analysed_fn(DS, m.fn)
    record(repo, run, m)
    index_sorts(repo, run, m)
    boolean_functions(repo, run)
    ordering_key(repo, run)
    in_step_test(repo, run, m)
    attributes_and_kinds(repo, run)
    sentinel(repo, run, m)
    no_duplicates(repo, run, m)
    # the direction of a crossing on the END of a step is classified from samples just beyond it, where only the current step's piece exists: the piece must
    # be the cubic there too (a piece held constant outside its step makes 'rising' and 'falling' both true for a root exactly on the step end)
    from ..report import Rejudged
    from .c17 import hermite
    rj = Rejudged(run, {"C17.1": "C07.14"}, note="re-judged for C07: the classification samples extrapolate the step's piece")
    hermite(repo, rj)
    rj.finish_rejudge()
    # 'within tolerance level of a true root', 'lies inside the step in which it was found': a reported root is one the search CERTIFIED by a sign change
    # (or an exact zero); a success decided by comparing |g| with the abscissa tolerance reports end points of steps that contain no crossing
    from .c08 import dim_rule
    dim_rule(repo, run, "C07.8", ["brentsrootvec"], floor=6)
    # the observation points: `events` / `events_dict` are views of the record list of the CURRENT trajectory; a view answered from something stored by an
    # earlier read (a cache keyed by the number of records, say) survives reset() and reports the previous run's events
    # 'g(t_e, y_e) ~ 0': the event functions are evaluated, at every step, with the events and the constants in effect at THAT step (handle_events receives
    # self.constants itself, read when it is called; a tuple of arguments captured before the loop keeps the dict a callback has since replaced)
    from .c08 import bracket
    bracket(repo, run, m, rule_id="C07.10")
    # the event search works on the pieces kept in the private dense-output store also when dense output is OFF (the last pieces only): reset() must replace that store
    # unconditionally, or the first steps of the next run are searched on the previous run's pieces (spurious / mislocated events)
    from .c13 import reset_unconditional
    reset_unconditional(repo, run, rule_id="C07.11")
    # the search functions evaluate the event on THIS system's dense output with THIS call's constants: a wrapper memoised per event callable keeps the first system's
    from .common import memo_discipline
    memo_discipline(repo, run, "C07.12", [DS], "the system module (event search functions)")
    from .common import readonly
    readonly(repo, run, "C07.9", DS, ["OdeSystem.events", "OdeSystem.events_dict"], "the event views of the system (events, events_dict)")


def no_duplicates(repo, run, m, rule_id="C07.13"):
    """'each genuine crossing is reported once': a record is appended to the list of events only when (a) nothing has been recorded yet, (b) this event has no record yet
    (sentinel), or (c) it lies farther than the tolerance from the latest record of the SAME event.  Decided on the truth table of the path condition of every append
    in the event loop: every satisfying assignment makes one of (a), (b), (c) true.  (One crossing is handed to the loop several times: on the boundary shared by two
    steps, and - for event functions returning shape (1,) arrays - several times within ONE step, because the activity mask broadcasts.)"""
    import itertools
    from ..sym import inline_locals, path_condition, tree_atoms, eval_bool, BoolTracker
    rid = run.rule(rule_id, "every append to the recorded events is guarded, on every path, by: no record at all / no record of this event (sentinel) / farther than the "
                            "tolerance from this event's latest record", floor=1)
    canon = Canon(env=inline_locals(m.fn))
    apps = [c for c in ast.walk(m.loop) if isinstance(c, ast.Call) and isinstance(c.func, ast.Attribute) and c.func.attr in ("append", "extend", "insert") and
            is_self_attr(c.func.value, "__events")]
    if not apps:
        raise AnalysisError("integrate(): no append to the recorded events in the step loop")
    for c in apps:
        bt = BoolTracker(canon=canon)
        pc, _ = path_condition(c, m.loop, tracker=bt, guards=True)
        atoms = tree_atoms(pc)
        if len(atoms) > 14:
            raise AnalysisError("integrate(): the path condition of an event append has too many atoms")
        empty, sentinel_, far, neg_sentinel = [], [], [], []
        for a in atoms:
            leaf = bt.leaves.get(a)
            if not isinstance(leaf, tuple):
                if isinstance(leaf, ast.AST) and is_self_attr(leaf, "__events"):
                    empty.append(a)
                continue
            l, op, r = leaf
            lt, rt = src(l) if isinstance(l, ast.AST) else str(l), src(r) if isinstance(r, ast.AST) else str(r)
            # a comparison of this event's entry with a constant: decided at the sentinel value -1 (`== -1`, `< 0`, `<= -1` are true there; `>= 0`, `!= -1` false)
            import operator
            ops_ = {"Eq": operator.eq, "NotEq": operator.ne, "Lt": operator.lt, "LtE": operator.le, "Gt": operator.gt, "GtE": operator.ge}
            try:
                if lt.startswith("last_occurrence[") and isinstance(r, ast.AST):
                    at_sentinel = ops_[type(op).__name__](-1, const_value(r))
                elif rt.startswith("last_occurrence[") and isinstance(l, ast.AST):
                    at_sentinel = ops_[type(op).__name__](const_value(l), -1)
                else:
                    at_sentinel = None
            except (ValueError, KeyError):
                at_sentinel = None
            if at_sentinel is True:
                sentinel_.append(a)
            elif at_sentinel is False:
                neg_sentinel.append(a)
            big, small = (lt, rt) if isinstance(op, (ast.Gt, ast.GtE)) else (rt, lt) if isinstance(op, (ast.Lt, ast.LtE)) else (None, None)
            if big is not None and "abs(" in big and "self.__events[last_occurrence[" in big and "epsilon" in small:
                far.append(a)
        bad = None
        for vals in itertools.product((False, True), repeat=len(atoms)):
            asg = dict(zip(atoms, vals))
            if eval_bool(pc, asg) and not (any(not asg[a] for a in empty) or any(asg[a] for a in sentinel_) or any(not asg[a] for a in neg_sentinel) or any(asg[a] for a in far)):
                bad = {a.split("@")[0]: v for a, v in asg.items()}
                break
        run.judged(rid, "`%s` guarded by (no records | sentinel | far from own latest record): atoms %s" % (src(c)[:50], [a.split("@")[0][:40] for a in atoms]), ok=bad is None)
        if bad is not None:
            run.report(rule_id, DS, c, "a record is appended on a path where records exist, this event has one, and the distance to it was not tested (e.g. %s): one crossing handed "
                                       "to the loop more than once (the boundary shared by two steps; several copies within one step when an event function returns a shape-(1,) "
                                       "array and the activity mask broadcasts) is reported more than once" % ({k[:50]: v for k, v in bad.items()},),
                       text="unguarded event append")


def _event_loop(m):
    par = m.handle_call._parent
    names = [e.id for e in par.targets[0].elts]
    act, roots, end, evs = names
    loop = None
    for st in walk_no_nested(m.loop):
        if isinstance(st, ast.For) and isinstance(st.iter, ast.Call) and fname(st.iter) == "enumerate" and st.iter.args and \
                isinstance(st.iter.args[0], ast.Call) and fname(st.iter.args[0]) == "zip":
            z = st.iter.args[0]
            if [src(a) for a in z.args] == [roots, evs]:
                loop = st
    if loop is None:
        raise AnalysisError("anchor missing: `for i, (root, ev) in enumerate(zip(roots, evs))` in integrate")
    tg = loop.target
    try:
        pos, root, ev = tg.elts[0].id, tg.elts[1].elts[0].id, tg.elts[1].elts[1].id
    except Exception:
        raise AnalysisError("event loop target is not `idx, (root, ev)`")
    return loop, act, roots, evs, pos, root, ev


def record(repo, run, m):
    rid = run.rule("C07.1", "the record of an event is StateTuple(t=root, y=dense solution at that root, event=the event of that root), with root and "
                            "event bound by the same zip iteration; only records passing the in-step test are appended", floor=2)
    loop, act, roots, evs, pos, root, ev = _event_loop(m)
    recs = [c for c in ast.walk(loop) if isinstance(c, ast.Call) and dotted(c.func) == "StateTuple"]
    if not recs:
        raise AnalysisError("anchor missing: StateTuple(...) in the event loop")
    for c in recs:
        kw = {k.arg: src(k.value) for k in c.keywords}
        ok = kw.get("t") == root and kw.get("y") == "self.__sol(%s)" % root and kw.get("event") == ev and not c.args
        run.judged(rid, "record: %s" % src(c), ok=ok)
        if not ok:
            run.report("C07.1", DS, c, "the event record is not (t=root, y=self.__sol(root), event=ev) of one zip iteration: got %s" % kw)
    apps = [c for c in ast.walk(loop) if isinstance(c, ast.Call) and (dotted(c.func) or "").endswith("__events.append")]
    okg = bool(apps)
    for c in apps:
        guards = [src(a.test) for a in ancestors(c) if isinstance(a, ast.If)]
        okg = okg and any(g == "true_positive" for g in guards)
    run.judged(rid, "appends guarded by the in-step test (%d appends)" % len(apps), ok=okg)
    if not okg:
        run.report("C07.1", DS, apps[0] if apps else loop, "an event is recorded without passing the in-step (true_positive) test")


def index_sorts(repo, run, m, rule_id="C07.2"):
    rid = run.rule(rule_id, "index sorts: last_occurrence is indexed by EVENT index; the enumerate variable of the event loop is a POSITION among the events "
                            "active in this step; positions map to event indices through active_events[position]", floor=3)
    loop, act, roots, evs, pos, root, ev = _event_loop(m)
    # name of last_occurrence: slot 3 of prepare_events result
    lo = None
    for st in walk_no_nested(m.fn):
        if isinstance(st, ast.Assign) and isinstance(st.value, ast.Call) and dotted(st.value.func) == "prepare_events" and isinstance(st.targets[0], ast.Tuple):
            lo = st.targets[0].elts[3].id
    if lo is None:
        raise AnalysisError("anchor missing: prepare_events result unpacking")
    pe = repo.get(DS, "prepare_events")
    run.analysed_fn(DS, pe)
    from ..sym import inline_locals
    cpe = Canon(env=inline_locals(pe))
    alloc_ok = any(isinstance(st, ast.Assign) and src(st.targets[0]) == "last_occurrence" and "len(events)" in cpe.text(st.value) for st in ast.walk(pe))
    run.judged(rid, "last_occurrence allocated with len(events) entries (one per event)", ok=alloc_ok)
    if not alloc_ok:
        run.report(rule_id, DS, pe, "last_occurrence is not allocated per event", text="last_occurrence allocation")
    n = 0
    for sub in [x for x in ast.walk(loop) if isinstance(x, ast.Subscript) and isinstance(x.value, ast.Name) and x.value.id == lo]:
        idx = sub.slice
        n += 1
        if isinstance(idx, ast.Name) and idx.id == pos:
            run.judged(rid, "%s" % src(sub), ok=False)
            run.report(rule_id, DS, sub, "last_occurrence (one entry per EVENT) is indexed with `%s`, the position among the events active in this step: with several events "
                                         "the duplicate test of one event reads the record of another (a crossing is reported twice or dropped)" % pos)
        elif isinstance(idx, ast.Subscript) and isinstance(idx.value, ast.Name) and idx.value.id == act and isinstance(idx.slice, ast.Name) and idx.slice.id == pos:
            run.judged(rid, "%s" % src(sub), ok=True)
        else:
            run.judged(rid, "%s (index sort not definite)" % src(sub), nontrivial=False)
    if n == 0:
        raise AnalysisError("anchor missing: uses of last_occurrence in the event loop")
    # the duplicate test of an event looks at THAT event's latest record: the record list is addressed only through the per-event table
    env = inline_locals(m.fn)
    for sub in [x for x in ast.walk(loop) if isinstance(x, ast.Subscript) and is_self_attr(x.value, "__events") and isinstance(x.ctx, ast.Load)]:
        idx = sub.slice
        while isinstance(idx, ast.Name) and idx.id in env:
            idx = env[idx.id]
        ok = isinstance(idx, ast.Subscript) and isinstance(idx.value, ast.Name) and idx.value.id == lo
        run.judged(rid, "recorded events read at %s" % src(idx)[:60], ok=ok)
        if not ok:
            run.report(rule_id, DS, sub, "the list of recorded events is read at `%s`, not at last_occurrence[<event index>]: the duplicate test of one event then looks at "
                                         "the record of whichever event was stored there (with several events whose crossings coincide, later crossings are dropped or "
                                         "reported twice)" % src(idx)[:60])


# ------------------------------------------------------------------------------------------------
def _sign_eval(atom_text, signs):
    """evaluate an atom 'X LtE 0' / '0 LtE X' over sign assignment {name: -1|0|1}; returns bool or None"""
    parts = atom_text.split("@")[0].split(" ")
    if len(parts) != 3:
        return None
    l, op, r = parts
    import operator
    f = {"Lt": operator.lt, "LtE": operator.le, "Eq": operator.eq, "NotEq": operator.ne}.get(op)
    if f is None:
        return None

    def val(x):
        if x in signs:
            return signs[x]
        try:
            return float(x)
        except ValueError:
            return None
    a, b = val(l), val(r)
    if a is None or b is None:
        return None
    return f(a, b)


def boolean_functions(repo, run):
    rid = run.rule("C07.3", "handle_events boolean functions by truth table: up/down over the 27 sign patterns of the three samples equal 'an earlier sample "
                            "<= 0 (>= 0) and a later one >= 0 (<= 0)'; up, down are conjoined with the root finder's success; the mask equals "
                            "(up & dir>0) | (down & dir<0) | ((up|down) & dir==0)", floor=6)
    fn = repo.get(DS, "handle_events")
    run.analysed_fn(DS, fn)
    # sample names: g (before), g_cen (at), g_new (after) identified by the sign of the offset in their definition
    samples = {}
    for st in fn.body:
        if isinstance(st, ast.Assign) and isinstance(st.value, ast.ListComp) and isinstance(st.targets[0], ast.Name):
            call = st.value.elt
            if isinstance(call, ast.Call) and call.args and isinstance(call.func, ast.Subscript):
                a = call.args[0]
                if isinstance(a, ast.BinOp) and isinstance(a.op, ast.Sub):
                    samples[st.targets[0].id] = 0
                elif isinstance(a, ast.BinOp) and isinstance(a.op, ast.Add):
                    samples[st.targets[0].id] = 2
                elif isinstance(a, ast.Name):
                    samples[st.targets[0].id] = 1
    if sorted(samples.values()) != [0, 1, 2]:
        raise AnalysisError("handle_events: the three samples (before/at/after the root) were not identified: %s" % samples)
    order = sorted(samples, key=lambda k: samples[k])
    bt = BoolTracker()
    # stop before the mask is consumed
    bt.run(fn.body)
    succ = None
    call = [st for st in fn.body if isinstance(st, ast.Assign) and isinstance(st.value, ast.Call) and dotted(st.value.func) == "root_finder"]
    if not call:
        raise AnalysisError("anchor missing: root_finder call in handle_events")
    succ = call[0].targets[0].elts[1].id
    hist_up = [x for x in bt.history.get("up", []) if x[1] is not None]
    hist_down = [x for x in bt.history.get("down", []) if x[1] is not None]
    if not hist_up or not hist_down or "mask" not in bt.trees:
        raise AnalysisError("handle_events: boolean names up/down/mask not found")

    def expected(signs, kind):
        s = [signs[n] for n in order]
        for i in range(3):
            for j in range(i + 1, 3):
                if kind == "up" and s[i] <= 0 and s[j] >= 0:
                    return True
                if kind == "down" and s[i] >= 0 and s[j] <= 0:
                    return True
        return False
    # first definitions: pure functions of the sign triple
    for kind, hist in (("up", hist_up), ("down", hist_down)):
        st, tree = hist[0]
        atoms = tree_atoms(tree)
        bad = None
        for trip in itertools.product((-1, 0, 1), repeat=3):
            signs = dict(zip(order, trip))
            vals = {}
            okk = True
            for a in atoms:
                v = _sign_eval(a, signs)
                if v is None:
                    okk = False
                vals[a] = v
            if not okk:
                raise AnalysisError("handle_events: atom not a sign test of a sample: %s" % atoms)
            if eval_bool(tree, vals) != expected(signs, kind):
                bad = trip
                break
        run.judged(rid, "%s classification over 27 sign triples: %s" % (kind, src(st)[:100]), ok=bad is None)
        if bad is not None:
            run.report("C07.3", DS, st, "`%s` misclassifies the sign pattern (before, at, after) = %s: it should be %s there" % (kind, bad, expected(dict(zip(order, bad)), kind)))
        # later refinements may only OR further (widened) samples of the same shape
        for st2, tree2 in hist[1:-1]:
            ok2 = tree2[0] == "or"
            run.judged(rid, "%s widening is a disjunction: %s" % (kind, src(st2)[:80]), ok=ok2)
            if not ok2:
                run.report("C07.3", DS, st2, "a later refinement of `%s` is not a disjunction with the earlier value: crossings found by the first test can be lost" % kind)
    # success conjunction: final up/down imply success
    for kind in ("up", "down"):
        tree = bt.trees[kind]
        atoms = tree_atoms(tree)
        ok = succ in atoms or any(a.split("@")[0] == succ for a in atoms)
        if ok and len(atoms) <= 14:
            sa = [a for a in atoms if a.split("@")[0] == succ][0]
            for vals in itertools.product((False, True), repeat=len(atoms)):
                asg = dict(zip(atoms, vals))
                if not asg[sa] and eval_bool(tree, asg):
                    ok = False
                    break
        elif ok:
            ok = tree[0] == "and" and any(t == ("atom", succ) or (t[0] == "atom" and t[1].split("@")[0] == succ) for t in tree[1])
        run.judged(rid, "final `%s` implies the root finder's success flag" % kind, ok=ok)
        if not ok:
            st = bt.history[kind][-1][0]
            run.report("C07.3", DS, st, "`%s` is not conjoined with the root finder's success mask: a point where the search did not converge can be reported as an event" % kind)
    # mask over (U, D, direction)
    # rebuild mask tree with up/down/either as opaque atoms
    bt2 = BoolTracker()
    mask_st = [st for st in fn.body if isinstance(st, ast.Assign) and src(st.targets[0]) == "mask"]
    either_st = [st for st in fn.body if isinstance(st, ast.Assign) and src(st.targets[0]) == "either"]
    bt2.run(either_st + mask_st)
    tree = bt2.trees["mask"]
    atoms = tree_atoms(tree)
    want_atoms = {"up", "down"}
    dir_atoms = [a for a in atoms if a not in want_atoms]
    okm = set(atoms) >= want_atoms and len(dir_atoms) == 3
    bad = None
    if okm:
        def dir_val(a, d):
            v = _sign_eval(a, {"direction": d})
            return v
        for d in (-1, 0, 1):
            for u, dn in itertools.product((False, True), repeat=2):
                asg = {"up": u, "down": dn}
                for a in dir_atoms:
                    v = dir_val(a, d)
                    if v is None:
                        okm = False
                    asg[a] = v
                if not okm:
                    break
                want = (u and d > 0) or (dn and d < 0) or ((u or dn) and d == 0)
                if eval_bool(tree, asg) != want:
                    bad = (u, dn, d)
    run.judged(rid, "direction mask over (up, down, direction in {-1,0,1}): %s" % src(mask_st[0])[:120], ok=okm and bad is None)
    if not okm:
        run.report("C07.3", DS, mask_st[0], "the direction mask is not a function of (up, down, direction<0, direction==0, direction>0)")
    elif bad is not None:
        run.report("C07.3", DS, mask_st[0], "the direction mask is wrong for (up=%s, down=%s, direction=%d): an event is reported for a crossing direction it did not ask for, or dropped" % bad)


def ordering_key(repo, run):
    rid = run.rule("C07.4", "roots are ordered by sign(t_next - t_prev) * root, i.e. along the direction of integration (kind K), not by their raw value", floor=1)
    fn = repo.get(DS, "handle_events")
    sd = Seeds(params={}, names={"t_prev": "T", "t_next": "T", "roots": "Seq(T)"})
    ke = KindEngine(fn, sd, disciplines=("DIR", "AFF"))
    srt = [c for c in ast.walk(fn) if isinstance(c, ast.Call) and fname(c) in ("argsort", "sort", "sorted")]
    if not srt:
        run.judged(rid, "no ordering call", ok=False)
        run.report("C07.4", DS, fn, "events are not ordered", text="missing argsort")
        return
    for c in srt:
        k = ke.kind(c.args[0]) if c.args else "U"
        ok = k == "K"
        run.judged(rid, "%s  [key kind %s]" % (src(c), k), ok=ok)
        if not ok:
            run.report("C07.4", DS, c, "events are ordered by a key of kind %s, not by direction-normalised time sign(dt)*t: for backward integration they are listed in "
                                       "reverse order (and the 'first' terminal event is the last one met)" % (k,))


def in_step_test(repo, run, m, rule_id="C07.5"):
    rid = run.rule(rule_id, "the in-step test is start <= root <= end for forward steps and end <= root <= start for backward ones, selected by a guard on the "
                            "sign of the step, with start = t[counter] and end = previous time + dTime", floor=1)
    loop, act, roots, evs, pos, root, ev = _event_loop(m)
    tp = [st for st in ast.walk(loop) if isinstance(st, ast.Assign) and src(st.targets[0]) == "true_positive"]
    if len(tp) != 2:
        run.judged(rid, "true_positive assignments: %d" % len(tp), ok=False)
        run.report(rule_id, DS, loop, "the in-step test is not assigned in two direction branches", text="true_positive structure")
        return
    iff = tp[0]._parent
    okg = isinstance(iff, ast.If) and tp[0] in iff.body and tp[1] in iff.orelse
    ke = KindEngine(m.fn, seeds.ode_seeds(), disciplines=("DIR",))
    okg = okg and ke._is_dir_test(iff.test)
    from ..sym import inline_locals
    c = Canon(env=inline_locals(m.fn))

    def pairs(expr):
        out = set()
        for cmp_ in [n for n in ast.walk(expr) if isinstance(n, ast.Compare)]:
            left = cmp_.left
            for op, r in zip(cmp_.ops, cmp_.comparators):
                a, b = c.poly(left).canon(), c.poly(r).canon()
                if isinstance(op, (ast.LtE, ast.Lt)):
                    out.add((a, b))
                elif isinstance(op, (ast.GtE, ast.Gt)):
                    out.add((b, a))
                left = r
        return out
    start = c.poly(ast.parse("self.__t[self.counter]", mode="eval").body).canon()
    # previous time name
    prev = None
    for st in ast.walk(m.loop):
        if isinstance(st, ast.Assign) and isinstance(st.targets[0], ast.Name) and src(st.value) == "self.__t[self.counter - 1]":
            prev = st.targets[0].id
    end = c.poly(ast.parse("%s + %s" % (prev, m.dTime), mode="eval").body).canon() if prev else None
    fwd = {(start, root), (root, end)}
    bwd = {(end, root), (root, start)}
    test_positive = okg and any(isinstance(o, (ast.GtE, ast.Gt)) for n in ast.walk(iff.test) if isinstance(n, ast.Compare) for o in n.ops)
    body_p, else_p = pairs(tp[0].value), pairs(tp[1].value)
    for t_ in tp:
        tr = BoolTracker().tree(t_.value)
        if not (tr[0] == "and" and all(x[0] == "atom" for x in tr[1])):
            okg = False       # the two bounds must be conjoined
    if okg and not test_positive:
        body_p, else_p = else_p, body_p
    ok = okg and body_p == fwd and else_p == bwd
    # the FAR edge of the step must be included (a terminal event exactly at the end of a step -- a grid point, or the target itself -- has no next step
    # that could report it); the near edge may be open or closed (a root on it was already reported by the previous step)
    strict_far = []
    for t_, far_side in ((tp[0], "upper" if test_positive else "lower"), (tp[1], "lower" if test_positive else "upper")):
        for cmp_ in [n for n in ast.walk(t_.value) if isinstance(n, ast.Compare)]:
            left = cmp_.left
            for op, r in zip(cmp_.ops, cmp_.comparators):
                lo, hi, strict = (left, r, isinstance(op, ast.Lt)) if isinstance(op, (ast.Lt, ast.LtE)) else ((r, left, isinstance(op, ast.Gt)) if isinstance(op, (ast.Gt, ast.GtE)) else (None, None, False))
                if lo is not None and strict and end is not None:
                    if (far_side == "upper" and c.poly(hi).canon() == end) or (far_side == "lower" and c.poly(lo).canon() == end):
                        strict_far.append(cmp_)
                left = r
    run.judged(rid, "in-step test: forward %s / backward %s under `%s`" % (sorted(body_p), sorted(else_p), src(iff.test) if isinstance(iff, ast.If) else "?"), ok=ok)
    if not ok:
        run.report(rule_id, DS, iff if isinstance(iff, ast.If) else tp[0], "the in-step test is not the mirrored pair start<=root<=end / end<=root<=start selected by the sign of the step: "
                                                                          "roots outside the step are accepted or roots inside it rejected in one direction",
                   text="in-step test branches: %s | %s" % (sorted(body_p), sorted(else_p)))
    run.judged(rid, "the far edge of the step (previous time + dTime) is included in both directions", ok=not strict_far)
    for cmp_ in strict_far:
        run.report(rule_id, DS, cmp_, "the in-step test excludes the far edge of the step (strict comparison with previous time + dTime): an event whose root is exactly the end "
                                      "of a step -- a fixed-step grid point or the target time -- is dropped; for a terminal event there is no next step to report it, so the "
                                      "run stops with status 'terminated by event' but without the event")


def attributes_and_kinds(repo, run):
    rid = run.rule("C07.6", "prepare_events copies each event's own is_terminal / direction / requires_dstate into entry i of the per-event arrays; the sample "
                            "offsets around a root are signed durations along the step (t_root -/+ (t_next - t_prev) * eps), so 'before' and 'after' follow the "
                            "direction of integration", floor=6)
    pe = repo.get(DS, "prepare_events")
    run.analysed_fn(DS, pe)
    loops = [st for st in ast.walk(pe) if isinstance(st, ast.For) and isinstance(st.iter, ast.Call) and fname(st.iter) == "enumerate" and src(st.iter.args[0]) == "events"]
    if len(loops) != 1:
        raise AnalysisError("prepare_events: `for i, event in enumerate(events)` not found")
    lp = loops[0]
    i, ev = lp.target.elts[0].id, lp.target.elts[1].id
    for attr in ("is_terminal", "direction", "requires_dstate"):
        sts = [st for st in ast.walk(lp) if isinstance(st, ast.Assign) and isinstance(st.targets[0], ast.Subscript) and src(st.targets[0].value) == attr]
        ok = len(sts) == 1 and src(sts[0].targets[0].slice) == i
        if ok:
            v = sts[0].value
            if isinstance(v, ast.Call) and fname(v) in ("bool", "int") and v.args:
                v = v.args[0]
            ok = src(v) == "%s.%s" % (ev, attr)
            g = sts[0]._parent
            ok = ok and isinstance(g, ast.If) and src(g.test) == "hasattr(%s, '%s')" % (ev, attr)
        run.judged(rid, "prepare_events: %s" % ([src(s) for s in sts]), ok=ok)
        if not ok:
            run.report("C07.6", DS, sts[0] if sts else lp, "entry i of `%s` is not the event's own `%s` attribute (guarded by hasattr): events would be filtered or terminated by "
                                                           "another event's setting" % (attr, attr), text="prepare_events binding of %s" % attr)
    sample_kinds(repo, run, rid, "C07.6")


def flags_from_given_object(repo, run, rule_id):
    """the flags of an event (is_terminal / direction / requires_dstate) are read from the object the caller passed: the loop element of prepare_events is not rebound
    (unwrapped, replaced by an inner function) before the reads - flags set on a wrapper object (functools.partial, a callable instance) would be ignored"""
    rid = run.rule(rule_id, "prepare_events reads the flags of an event from the very object in the caller's list: the loop element is never rebound inside the loop", floor=1)
    pe = repo.get(DS, "prepare_events")
    run.analysed_fn(DS, pe)
    loops = [st for st in ast.walk(pe) if isinstance(st, ast.For) and isinstance(st.iter, ast.Call) and fname(st.iter) == "enumerate" and src(st.iter.args[0]) == "events"]
    if len(loops) != 1:
        raise AnalysisError("prepare_events: `for i, event in enumerate(events)` not found")
    lp = loops[0]
    ev = lp.target.elts[1].id
    stores = [n for st in lp.body for n in ast.walk(st) if isinstance(n, ast.Name) and n.id == ev and isinstance(n.ctx, (ast.Store, ast.Del))]
    # the list iterated is the caller's list (or a list()/tuple() of it), not a mapped one
    pre = [st for st in ast.walk(pe) if isinstance(st, ast.Assign) and any(isinstance(t, ast.Name) and t.id == "events" for t in st.targets)]
    mapped = [st for st in pre if not (src(st.value) in ("list(events)", "tuple(events)", "[events]", "[]", "events") or (isinstance(st.value, (ast.List, ast.Tuple)) and len(st.value.elts) <= 1))]
    ok = not stores and not mapped
    run.judged(rid, "loop element `%s` of prepare_events: %d rebinding(s) in the loop, %d re-mapping(s) of the list" % (ev, len(stores), len(mapped)), ok=ok)
    for n in stores:
        st = n
        while not isinstance(st, ast.stmt):
            st = st._parent
        run.report(rule_id, DS, st, "the event object is replaced inside prepare_events' loop before its flags are read (`%s`): is_terminal / direction set on the object the "
                                    "caller passed (a functools.partial, a callable instance wrapping a function) are ignored - a terminal event no longer stops the run" % src(st)[:80],
                   text="event object rebound in prepare_events")
    for st in mapped:
        run.report(rule_id, DS, st, "prepare_events replaces the caller's event objects before reading their flags (`%s`)" % src(st)[:80], text="event list re-mapped in prepare_events")


def sample_kinds(repo, run, rid, rule_id):
    fn = repo.get(DS, "handle_events")
    sd = Seeds(params={}, names={"t_prev": "T", "t_next": "T", "roots": "Seq(T)", "t_root": "T", "receptive_field": "M"},
               calls={"D.epsilon": "M"})
    ke = KindEngine(fn, sd, disciplines=("AFF", "DIR", "UNIT"))
    # comprehension variables are not walked by the flow-insensitive inference: seed t_root by name (it iterates `roots`)
    vs = ke.check()
    n = 0
    for c in [c for c in ast.walk(fn) if isinstance(c, ast.Call) and isinstance(c.func, ast.Subscript) and src(c.func.value) == "ev_f" and c.args]:
        a = c.args[0]
        n += 1
        if isinstance(a, ast.BinOp):
            k = ke.kind(a.right)
            ok = k == "D" and isinstance(a.op, (ast.Add, ast.Sub)) and ke.kind(a.left) == "T"
            run.judged(rid, "sample point %s  [offset kind %s]" % (src(a)[:90], k), ok=ok)
            if not ok:
                run.report(rule_id, DS, a, "the sample offset around a root has kind %s, not a signed duration along the step: for backward integration 'before' and 'after' the "
                                           "crossing are swapped (or the offset has no time unit), so the crossing direction is classified against the direction of integration" % (k,))
        else:
            run.judged(rid, "sample point %s" % src(a), ok=ke.kind(a) == "T")
    for v in vs:
        run.judged(rid, "handle_events: %s" % src(v.node)[:80], ok=False)
        run.report(rule_id, DS, v.node, "%s discipline: %s" % (v.disc, v.why))
    if n == 0:
        raise AnalysisError("handle_events: no event sample evaluations found")
    # resolution of the probes: a crossing is classified from samples at root -/+ (step) * eps**p.  The offset must survive the addition to the root: an offset of
    # step*eps**0.75 is below half an ulp of t_root as soon as |step|/|t| < ~1e-5 (t = 1e4 with steps of 0.05), all samples coincide, neither 'rising' nor 'falling' is
    # established and a bracketed root is discarded.  At least one probe pair therefore uses the widest offset the code base uses, step*eps**0.5 (resolvable down to
    # |step|/|t| ~ 1e-8).
    exps = []
    for c in [c for c in ast.walk(fn) if isinstance(c, ast.Call) and isinstance(c.func, ast.Subscript) and src(c.func.value) == "ev_f" and c.args and isinstance(c.args[0], ast.BinOp)]:
        for pw in [x for x in ast.walk(c.args[0]) if isinstance(x, ast.BinOp) and isinstance(x.op, ast.Pow)]:
            if isinstance(pw.left, ast.Call) and (fname(pw.left) or "").split(".")[-1] in ("epsilon", "tol_epsilon"):
                try:
                    exps.append(const_value(pw.right))
                except ValueError:
                    pass
    if exps:
        ok = min(exps) <= 0.5
        run.judged(rid, "probe offsets are step * eps**p with p in %s: widest p = %s" % (sorted(set(exps)), min(exps)), ok=ok)
        if not ok:
            run.report(rule_id, DS, fn, "every sample that classifies a crossing is taken at root -/+ step*eps**p with p >= %s: for |step|/|t| below about eps**(1-p) (e.g. t ~ 1e4 "
                       "with steps of 0.05 for p = 0.75) the offsets vanish in the addition to the root, the samples coincide, no direction is established and bracketed "
                       "crossings are silently dropped; the wide probe at step*eps**0.5 is what covers ordinary long runs" % min(exps), text="probe resolution: widest exponent %s" % min(exps))


def sentinel(repo, run, m, rule_id="C07.7"):
    """last_occurrence starts at the sentinel -1 (= 'this event has not fired yet'); used as a position in the list of recorded events the sentinel
    would silently mean 'the most recent record of ANY event' (negative indexing), so every such use must be unreachable while the entry is -1."""
    import itertools
    import operator
    from ..sym import inline_locals, path_condition, tree_atoms, eval_bool, BoolTracker, Poly
    rid = run.rule(rule_id, "sentinel discipline: last_occurrence is initialised to -1 per event; every `self.__events[last_occurrence[k]]` is reachable only "
                            "under a condition that excludes last_occurrence[k] == -1 (else a first occurrence is compared with, and suppressed by, the latest "
                            "record of another event -- e.g. the terminal event that stops the run is not reported)", floor=2)
    lo = None
    for st in walk_no_nested(m.fn):
        if isinstance(st, ast.Assign) and isinstance(st.value, ast.Call) and dotted(st.value.func) == "prepare_events" and isinstance(st.targets[0], ast.Tuple):
            lo = st.targets[0].elts[3].id
    if lo is None:
        raise AnalysisError("anchor missing: prepare_events result unpacking")
    pe = repo.get(DS, "prepare_events")
    cpe = Canon(env=inline_locals(pe))
    sent = None
    for st in ast.walk(pe):
        if isinstance(st, ast.Assign) and src(st.targets[0]) == "last_occurrence" and not isinstance(st.value, ast.Call) or \
                (isinstance(st, ast.Assign) and src(st.targets[0]) == "last_occurrence" and isinstance(st.value, ast.BinOp)):
            p = cpe.poly(st.value)
            consts = [cf for mm, cf in p.items() if mm == ()]
            others = [mm for mm in p if mm != ()]
            if len(others) == 1 and "zeros" in others[0][0] and consts:
                sent = consts[0]
    run.judged(rid, "initial value of every last_occurrence entry: %s" % sent, ok=sent is not None)
    if sent is None:
        raise AnalysisError("prepare_events: initial value of last_occurrence (zeros(...) + const) not recognised")
    env = inline_locals(m.fn)
    canon = Canon(env=env)
    uses = []
    for sub in ast.walk(m.loop):
        if isinstance(sub, ast.Subscript) and is_self_attr(sub.value, "__events"):
            idx = sub.slice
            while isinstance(idx, ast.Name) and idx.id in env:
                idx = env[idx.id]
            if isinstance(idx, ast.Subscript) and isinstance(idx.value, ast.Name) and idx.value.id == lo:
                uses.append((sub, idx))
    ops = {"Eq": operator.eq, "NotEq": operator.ne, "Lt": operator.lt, "LtE": operator.le, "Gt": operator.gt, "GtE": operator.ge}
    for sub, idx in uses:
        key = canon.ptext(idx)
        bt = BoolTracker(canon=canon)
        pc, _ = path_condition(sub, m.loop, tracker=bt, guards=True)
        atoms = tree_atoms(pc)
        fixed = {}
        for a in atoms:
            leaf = bt.leaves.get(a)
            if isinstance(leaf, tuple):
                l, op, r = leaf
                lt, rt = canon.ptext(l), canon.ptext(r)
                try:
                    if lt == key:
                        fixed[a] = ops[type(op).__name__](sent, const_value(r))
                    elif rt == key:
                        fixed[a] = ops[type(op).__name__](const_value(l), sent)
                except (ValueError, KeyError):
                    pass
        free = [a for a in atoms if a not in fixed]
        reachable = len(free) > 16
        if not reachable:
            for vals in itertools.product((False, True), repeat=len(free)):
                asg = dict(fixed)
                asg.update(zip(free, vals))
                if eval_bool(pc, asg):
                    reachable = True
                    break
        run.judged(rid, "`%s` unreachable while %s == %s (condition atoms fixed by the sentinel: %d)" % (src(sub)[:70], key, sent, len(fixed)), ok=not reachable)
        if reachable:
            run.report(rule_id, DS, sub, "the list of recorded events is indexed with last_occurrence[...] on a path where that entry can still be the sentinel %s "
                                         "('not fired yet'): negative indexing then reads the latest record of another event, and a first occurrence lying close to it "
                                         "is dropped" % sent)
    if not uses:
        run.judged(rid, "no use of last_occurrence as an index of the recorded events", nontrivial=False)
