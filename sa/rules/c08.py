"""C08 — no crossing is missed: unit-free success of the vectorised root search, direction-aware pruning of the kept
interpolants, the bracket handed to the root finder is the accepted step and every event is searched."""
import ast

from .. import seeds
from ..front import AnalysisError, dotted, fname, is_self_attr, src, walk_no_nested, ancestors, bind_call
from ..imodel import IntegrateModel, DS
from ..kind import KindEngine
from .c14 import dim_rule, OPT

LEVEL = "other"


def run(repo, run, tier):
    from .common import readonly
    readonly(repo, run, "C08.13", DS, ["OdeSystem.events", "OdeSystem.events_dict"], "the event views of the system: every detected crossing is visible through them at once (no cached snapshot)")
    run.assumptions += ["NOT decided: that Brent's iteration converges on a given steep event function within the iteration cap"]
    dim_rule(repo, run, "C08.1", ["brentsrootvec"], floor=6)
    m = IntegrateModel(repo)
    run.analysed_fn(DS, m.fn)
    pruning(repo, run, m)
    bracket(repo, run, m)
    ordering(repo, run)
    # an event with a direction attribute is reported only for crossings in that direction ALONG THE INTEGRATION: the samples that classify a
    # crossing as rising/falling must lie before/after the root in the direction of the step, or every compatible crossing of a backward run is dropped
    from .c07 import sample_kinds
    rid = run.rule("C08.5", "the samples that classify a crossing (rising / falling) are taken at root -/+ a SIGNED fraction of the step (t_next - t_prev): "
                            "'before' and 'after' follow the direction of integration, so a directional event is not filtered out on backward runs", floor=2)
    sample_kinds(repo, run, rid, "C08.5")
    # 'does not depend on the scale of the event function': the vectorised root search decides sign relations from signs, not from products that underflow
    from .c14 import product_sign_tests
    product_sign_tests(repo, run, rule_id="C08.6", funcs=("brentsrootvec",), floor=1)
    # 'however many events are monitored': the first crossing of one event must not be dropped by the duplicate filter reading another event's record
    from .c07 import sentinel
    sentinel(repo, run, m, rule_id="C08.7")
    # found crossings are discarded in one place only (after the first terminal event): that must act on time-ordered arrays, all three alike
    from .c09 import truncation
    truncation(repo, run, rule_id="C08.8")
    # a located crossing is recorded only if it passes the in-step test: the test must be the mirrored pair selected by the sign of THIS step
    from .c07 import in_step_test
    in_step_test(repo, run, m, rule_id="C08.9")
    # 'however many events are monitored': the duplicate test of one event reads only that event's own latest record
    from .c07 import index_sorts
    index_sorts(repo, run, m, rule_id="C08.10")
    # the event functions are evaluated on the piece the dense-output lookup selects for the step just taken: the list it bisects must stay sorted
    from .c06 import containers
    containers(repo, run, rule_id="C08.11", position_only=True)
    # 'with a compatible direction': the direction (and terminal flag) an event requests is read from the event function at every integrate() call
    from .common import memo_discipline
    memo_discipline(repo, run, "C08.12", [DS], "the system module (event preparation)")


def pruning(repo, run, m):
    """C08.2 of the design ("the pieces kept when dense output is off are the most recent ones in either direction") was REMOVED as a
    reporting rule: triage on the tree with the direction-aware lookup (C06.2 repaired) showed that the interpolant of the step being
    searched is always present when events are located (it is added in the same iteration, before handle_events), so pruning position 0
    for backward runs keeps stale pieces but cannot make a crossing be missed.  The clause is not a necessary condition of C08; demanding
    it would be a false alarm.  What IS necessary is checked here: the piece of the current step is added before the events are searched and
    pruning happens only afterwards."""
    rid = run.rule("C08.2", "the interpolant of the step just taken is added to the solution before the events of that step are searched, and pruning "
                            "(dense output off) happens only after the search", floor=2)
    from ..imodel import path_key
    if m.handle_call is None:
        raise AnalysisError("anchor missing: handle_events in the step loop")
    if not m.add_interp:
        run.judged(rid, "add_interpolant call present", ok=False)
        run.report("C08.2", DS, m.handle_call, "the interpolant of the step just taken is never added to the solution the events are searched on", text="missing add_interpolant")
        return
    ka = min(path_key(c, m.fn) for c in m.add_interp)
    kh = path_key(m.handle_call, m.fn)
    ok = ka < kh
    run.judged(rid, "add_interpolant precedes handle_events", ok=ok)
    if not ok:
        run.report("C08.2", DS, m.handle_call, "events are searched before the interpolant of the step just taken is in the solution: the search runs on an older step")
    prunes = [c for c in m.remove_interp if any(isinstance(a, ast.If) and src(a.test).replace(" ", "") == "notself.__dense_output" for a in ancestors(c))]
    ok2 = bool(prunes) and all(path_key(c, m.fn) > kh for c in prunes)
    run.judged(rid, "pruning follows the event search", ok=ok2)
    if not ok2:
        run.report("C08.2", DS, prunes[0] if prunes else m.loop, "interpolants are pruned before the events of the step are searched", text="pruning order")


def bracket(repo, run, m, rule_id="C08.3"):
    rid = run.rule(rule_id, "the bracket given to the root finder is [start, end] of the step just taken; one search function is built for every event; "
                            "crossing flags are conjoined with the finder's success", floor=5)
    # in integrate: sol_tuple = (self.__sol, prev_time, next_time) with prev/next = t[counter-1], t[counter] after the commit
    hc = m.handle_call
    hdef = repo.get(DS, "handle_events")
    hb = bind_call(hc, hdef)
    hp = [a.arg for a in hdef.args.args]
    if hb.get(hp[0]) is None:
        raise AnalysisError("handle_events call: the solution tuple argument was not found")
    st_name = src(hb[hp[0]])
    tup = None
    defs = {}
    for st in ast.walk(m.loop):
        if isinstance(st, ast.Assign) and isinstance(st.targets[0], ast.Name):
            defs[st.targets[0].id] = st
    tup = defs.get(st_name)
    ok = tup is not None and isinstance(tup.value, ast.Tuple) and len(tup.value.elts) == 3 and src(tup.value.elts[0]) == "self.__sol"
    if ok:
        p, n = tup.value.elts[1], tup.value.elts[2]

        def resolve(e):
            """(expression, statement at which it is evaluated): a local is followed to its definition"""
            if isinstance(e, ast.Name) and e.id in defs:
                return defs[e.id].value, defs[e.id]
            return e, tup
        (pe, pst), (ne, nst) = resolve(p), resolve(n)
        ok = src(pe) == "self.__t[self.counter - 1]" and src(ne) == "self.__t[self.counter]"
        # both read after the commit and before the rollback
        from ..imodel import path_key
        if ok:
            k = path_key(m.commit_inc, m.fn)
            decs = [i for i in m.counter_incs if isinstance(i.op, ast.Sub)]
            ok = k < path_key(pst, m.fn) and k < path_key(nst, m.fn) and all(path_key(pst, m.fn) < path_key(d, m.fn) and path_key(nst, m.fn) < path_key(d, m.fn) for d in decs)
    run.judged(rid, "event search interval = (t[counter-1], t[counter]) of the step just committed", ok=ok)
    if not ok:
        run.report(rule_id, DS, tup or hc, "the interval handed to handle_events is not (start, end) of the step just taken", text="sol_tuple definition")
    okargs = [src(hb[q_]) if hb.get(q_) is not None else None for q_ in hp[1:3]] == ["events", "self.constants"]
    run.judged(rid, "handle_events receives all events and the constants", ok=okargs)
    if not okargs:
        run.report(rule_id, DS, hc, "handle_events is not called with (sol_tuple, events, self.constants, ...)")
    fn = repo.get(DS, "handle_events")
    run.analysed_fn(DS, fn)
    P = [a.arg for a in fn.args.args]
    # unpack
    unpack = [st for st in fn.body if isinstance(st, ast.Assign) and isinstance(st.targets[0], ast.Tuple) and isinstance(st.value, ast.Name) and st.value.id == P[0]]
    if not unpack or len(unpack[0].targets[0].elts) != 3:
        raise AnalysisError("handle_events: `sol, t_prev, t_next = sol_tuple` not found")
    sol, tp, tn = [e.id for e in unpack[0].targets[0].elts]
    rf = [st for st in fn.body if isinstance(st, ast.Assign) and isinstance(st.value, ast.Call) and dotted(st.value.func) == "root_finder"]
    if len(rf) != 1:
        raise AnalysisError("handle_events: root_finder call not found")
    c = rf[0].value
    okb = len(c.args) >= 2 and isinstance(c.args[1], (ast.List, ast.Tuple)) and [src(e) for e in c.args[1].elts] == [tp, tn]
    run.judged(rid, "root_finder bracket: %s" % (src(c.args[1]) if len(c.args) > 1 else None), ok=okb)
    if not okb:
        run.report(rule_id, DS, c, "the root finder is not given the bracket [t_prev, t_next] (the two ends of the step)")
    # ev_f built from all events
    lst = src(c.args[0])
    oka = False
    factory_calls = []
    for st in fn.body:
        if isinstance(st, ast.For) and isinstance(st.iter, ast.Call) and fname(st.iter) == "zip" and st.iter.args and src(st.iter.args[0]) == P[1]:
            apps = [x for x in ast.walk(st) if isinstance(x, ast.Call) and src(x.func) == lst + ".append"]
            if apps and not any(isinstance(x, (ast.If, ast.Break, ast.Continue)) for b_ in st.body for x in ast.walk(b_)):
                oka = True
                factory_calls += [x.args[0] for x in apps if x.args and isinstance(x.args[0], ast.Call)]
        if isinstance(st, ast.Assign) and src(st.targets[0]) == lst and isinstance(st.value, ast.ListComp) and src(st.value.generators[0].iter) in (P[1], "zip(%s, requires_dstate)" % P[1]) \
                and not st.value.generators[0].ifs:
            oka = True
            if isinstance(st.value.elt, ast.Call):
                factory_calls.append(st.value.elt)
    run.judged(rid, "one search function per event (no filtering)", ok=oka)
    if not oka:
        run.report(rule_id, DS, rf[0], "the list of search functions is not built unconditionally from every event: some event would never be searched", text="ev_f construction")
    # evaluation of the event uses the dense solution at the query time: the factory that wraps an event (a nested or a module-level helper) returns
    # functions t -> event(t, sol(t), ...), where sol is handle_events' own dense solution (closed over, or handed to the factory)
    oke = False
    inner = fn
    for fc in factory_calls:
        if not isinstance(fc.func, ast.Name):
            continue
        inner = repo.maybe(DS, "handle_events." + fc.func.id) or repo.maybe(DS, fc.func.id)
        if inner is None:
            continue
        fb = bind_call(fc, inner)
        sol_names = {sol} if inner._parent is fn else set()
        sol_names |= {pn for pn, a_ in fb.items() if isinstance(a_, ast.Name) and a_.id == sol}
        ev_names = {pn for pn, a_ in fb.items() if isinstance(a_, ast.Name)} - sol_names
        bodies = [n for n in ast.walk(inner) if isinstance(n, ast.Return) and isinstance(n.value, ast.Call) and isinstance(n.value.func, ast.Name) and n.value.func.id in ev_names]
        oke = bool(bodies)
        for r_ in bodies:
            a_ = r_.value.args
            if not (len(a_) >= 2 and isinstance(a_[1], ast.Call) and isinstance(a_[1].func, ast.Name) and a_[1].func.id in sol_names and
                    len(a_[1].args) == 1 and src(a_[1].args[0]) == src(a_[0])):
                oke = False
    run.judged(rid, "event functions are evaluated at (t, sol(t))", ok=oke)
    if not oke:
        run.report(rule_id, DS, inner, "an event search function does not evaluate the event at (t, sol(t))", text="event evaluation point")


def ordering(repo, run):
    """events found in a step are only DROPPED by the truncation after the first terminal one; for that to drop only later events the roots
    must be ordered along the direction of integration (key of kind K = sign(dt) * t)."""
    from ..kind import KindEngine, Seeds
    rid = run.rule("C08.4", "the only place where found crossings are discarded (truncation after the first terminal event) acts on roots ordered by "
                            "sign(t_next - t_prev) * root, so only crossings AFTER the terminal one are dropped", floor=1)
    fn = repo.get(DS, "handle_events")
    ke = KindEngine(fn, Seeds(params={}, names={"t_prev": "T", "t_next": "T", "roots": "Seq(T)"}), disciplines=("DIR",))
    srt = [c for c in ast.walk(fn) if isinstance(c, ast.Call) and fname(c) in ("argsort", "sort", "sorted")]
    if not srt:
        run.judged(rid, "ordering present", ok=False)
        run.report("C08.4", DS, fn, "events are truncated after the first terminal one without being ordered", text="missing ordering")
    for c in srt:
        k = ke.kind(c.args[0]) if c.args else "U"
        ok = k == "K"
        run.judged(rid, "%s [key kind %s]" % (src(c), k), ok=ok)
        if not ok:
            run.report("C08.4", DS, c, "the roots are ordered by a key of kind %s before the terminal truncation: for backward steps the order is reversed and crossings that "
                                       "happen BEFORE the terminal event are discarded (never reported)" % (k,))
