"""C05 — adaptive error control, the clause static analysis can decide: a rejected step is retried with a step of
smaller magnitude or an error is raised (typestate over the retry loop), redo implies shrink in the controller,
and the error estimate fed to the controller is h * sum (b - b_hat) k."""
import ast
import math

from .. import seeds, extract, rkcall
from ..front import AnalysisError, dotted, fname, is_self_attr, src, walk_no_nested, const_value, ancestors
from ..kind import KindEngine
from ..sym import Canon, Poly, inline_locals

LEVEL = "other"
ITY = seeds.ITY
TPL = seeds.TPL
IUT = seeds.IUT


def run(repo, run, tier):
    run.assumptions += ["NOT decided: that the global error is proportional to the tolerances (a bound on run-time values for arbitrary right-hand sides)",
                        "kinds as declared in DESIGN.md Appendix A"]
    typestate(repo, run)
    retry_step(repo, run)
    controller(repo, run)
    estimate(repo, run)
    richardson_retry(repo, run)
    recorded_pairing(repo, run)
    nan_rejection(repo, run)
    # 'the error of every recorded state is bounded by the tolerances': every row of the record is an integrator result (y + dState of an accepted step).  The only
    # other row writes, the re-commit after the event search, restore exactly the committed row: a state read from the cubic Hermite interpolant carries its O(h^4)
    # error, which no tolerance controls (1e-6..1e-3 for the long steps of the high-order pairs)
    from .c03 import restore
    from ..imodel import IntegrateModel
    restore(repo, run, IntegrateModel(repo), rule_id="C05.13")
    # 'run with tolerances (rtol, atol)': tolerances changed through the system's setters must reach every copy the integrators keep
    from .c13 import settings_reach_integrator
    from ..access import ClassModel
    from ..imodel import DS
    settings_reach_integrator(repo, run, ClassModel(repo, DS, "OdeSystem"), rule_id="C05.8")
    error_measure(repo, run)
    # 'run with tolerances (rtol, atol)': the controller must not write into the tolerance objects it was given (a per-component atol array accumulated in place
    # grows by rtol*|y| on every attempted step)
    from .c13 import no_inplace_on_aliases
    no_inplace_on_aliases(repo, run, rule_id="C05.12", files=["desolver/integrators/integrator_template.py"])
    tolerance_scale_is_current(repo, run)
    # the embedded estimate h*sum (b - b_hat) k is an estimate of THIS step's error only if every k_i is this step's stage (a first stage carried over from a cache
    # keyed by time and state alone belongs to other constants / another right-hand side, and the estimators of the high-order pairs give stage 0 weight zero)
    from .c02 import compute_step_part
    r11 = run.rule("C05.11", "the generic stage loop evaluates every stage of the table in this call (re-judged: the error estimate is built from these stages)", floor=4)
    compute_step_part(repo, run, r11, rule_id="C05.11")



def typestate(repo, run):
    rid = run.rule("C05.1", "typestate over RungeKuttaIntegrator.__call__: once the redo flag is set no `return` is reachable before a later "
                            "controller call clears it; exhausted retries raise FailedToMeetTolerances; the retry loop is bounded", floor=4)
    call = repo.get(ITY, extract.RK + ".__call__")
    run.analysed_fn(ITY, call)
    m, out, eng = rkcall.analyse(call)
    bad = [(s, n) for (s, n) in out.ret if s[3] is True]
    run.judged(rid, "%d return states explored over %d abstract steps; with redo pending: %d" % (len(out.ret), eng.visits, len(bad)), ok=not bad)
    for s, n in bad[:1]:
        run.report("C05.1", ITY, n, "a `return` is reachable while the redo flag is set (implicit=%s adaptive=%s): a step the controller rejected is "
                                    "handed back as accepted" % (s[0], s[1]), text="return reachable with redo pending")
    adaptive_ok = [s for (s, n) in out.ret if s[1] and s[3] is False]
    run.judged(rid, "adaptive methods can return an accepted step (%d states)" % len(adaptive_ok), ok=bool(adaptive_ok))
    if not adaptive_ok:
        run.report("C05.1", ITY, call, "no path returns an accepted step for an adaptive method (the controller is never consulted)", text="no accepting adaptive path")
    # the controller is consulted for adaptive methods: every adaptive return has redo False (not None)
    never = [(s, n) for (s, n) in out.ret if s[1] and s[3] is None]
    run.judged(rid, "every adaptive return passed through update_timestep", ok=not never)
    for s, n in never[:1]:
        run.report("C05.1", ITY, n, "an adaptive method can return without the controller having judged the step", text="adaptive return without controller")
    fail = [(s, t, n) for (s, t, n) in out.exc if t == "FailedToMeetTolerances"]
    okf = bool(fail) and all(s[3] is True for (s, t, n) in fail)
    run.judged(rid, "FailedToMeetTolerances raised exactly in redo-pending states (%d)" % len(fail), ok=okf)
    if not okf:
        run.report("C05.1", ITY, call, "exhausting the retries does not raise FailedToMeetTolerances (or it is raised when no redo is pending)", text="raise after retries")
    loops = [st for st in walk_no_nested(call) if isinstance(st, (ast.For, ast.While)) and any(
        isinstance(c, ast.Call) and dotted(c.func) == "self.step" for c in ast.walk(st))]
    okb = bool(loops) and all(isinstance(l, ast.For) and isinstance(l.iter, ast.Call) and dotted(l.iter.func) == "range" for l in loops)
    run.judged(rid, "retry loop bounded by range(...)", ok=okb)
    if not okb:
        run.report("C05.1", ITY, loops[0] if loops else call, "the retry loop is not a bounded `for ... in range(...)`", text="retry loop bound")
    return m


def retry_step(repo, run, rule_id="C05.2", strict=False):
    rid = run.rule(rule_id, "the step passed to step() on a retry is the controller's proposal bounded in MAGNITUDE by the requested step "
                            "(sign(h) * min(|proposal|, |h|) or the proposal itself), never a signed min/max", floor=1)
    call = repo.get(ITY, extract.RK + ".__call__")
    m = rkcall.CallModel(call)
    ke = KindEngine(call, seeds.integrator_seeds(), disciplines=("DIR",))
    loops = [st for st in walk_no_nested(call) if isinstance(st, ast.For)]
    for lp in loops:
        for c in [c for c in ast.walk(lp) if isinstance(c, ast.Call) and dotted(c.func) == "self.step"]:
            arg = m.step_arg(c)
            if arg is None:
                raise AnalysisError("retry self.step call has no step argument")
            k = ke.kind(arg)
            names = {n.id for n in ast.walk(arg) if isinstance(n, ast.Name)}
            has_max = any(isinstance(x, ast.Call) and fname(x) in ("maximum", "max", "fmax") for x in ast.walk(arg))
            bad_min = [x for x in ast.walk(arg) if isinstance(x, ast.Call) and fname(x) in ("minimum", "min", "fmin") and any(
                ke.kind(a) == "D" for a in x.args)]
            ok = k == "D" and m.ret_var in names and not has_max and not bad_min
            strict_fail = False
            if ok and strict:
                # 'no recorded step is longer than the requested one / overshoots the target': EVERY retry is bounded by the requested step at the call -- the proposal
                # alone is not (after a failed stage solve it is 0.8 x the controller's proposal, which may be a proposal to GROW); a clamp computed once before the loop
                # does not cover the proposals made inside it
                mins = [x for x in ast.walk(arg) if isinstance(x, ast.Call) and fname(x) in ("minimum", "min", "fmin")]
                ok = any(any(isinstance(n, ast.Name) and n.id in m.input_alias for n in ast.walk(x)) and any(
                    isinstance(n, ast.Name) and n.id == m.ret_var for n in ast.walk(x)) for x in mins)
                strict_fail = not ok
            run.judged(rid, "retry step: %s  [kind %s]" % (src(arg), k), ok=ok)
            if not ok:
                why = "is the proposal as it stands, not clamped to the requested step at the call (sign(h) * min(|proposal|, |h|)): after a failed stage solve the proposal is 0.8 x the controller's, which may exceed the requested step, so a retried step can be longer than the one asked for" if strict_fail else "does not contain the controller's proposal `%s`" % m.ret_var if m.ret_var not in names else (
                    "takes a maximum" if has_max else ("takes the minimum of signed steps (for backward integration that is the larger step)" if bad_min
                                                       else "is not a signed duration (kind %s)" % (k,)))
                run.report(rule_id, ITY, arg, "the step used for a retry %s: a rejected step is not retried with a strictly smaller magnitude in both "
                                              "directions of time" % why)


def controller(repo, run):
    rid = run.rule("C05.3", "update_timestep returns (corr * timestep, corr < c) with the same corr and a constant c < 1 (redo implies shrink); "
                            "the implicit-aware wrapper passes the redo flag through and multiplies by at most 1 + 0.1*pi/2, and c*(1+0.1*pi/2) < 1", floor=3)
    fn = repo.get(TPL, "IntegratorTemplate.update_timestep")
    run.analysed_fn(TPL, fn)
    rets = [st for st in ast.walk(fn) if isinstance(st, ast.Return) and isinstance(st.value, ast.Tuple) and len(st.value.elts) == 2]
    if len(rets) != 1:
        raise AnalysisError("update_timestep: expected one `return step, redo`")
    ret = rets[0]
    step_e, redo_e = ret.value.elts
    # redo expression: bool(corr < c)
    r = redo_e
    negated = False
    for _ in range(4):
        if isinstance(r, ast.Call) and fname(r) == "bool" and r.args:
            r = r.args[0]
        elif isinstance(r, ast.UnaryOp) and isinstance(r.op, ast.Not):
            r, negated = r.operand, not negated
    if negated and isinstance(r, ast.Compare) and len(r.ops) == 1:
        # not (corr >= c)  is the redo decision  corr < c  (and, unlike it, also rejects a NaN)
        flip = {ast.GtE: ast.Lt, ast.Gt: ast.LtE, ast.LtE: ast.Gt, ast.Lt: ast.GtE}.get(type(r.ops[0]))
        if flip is not None:
            r = ast.Compare(left=r.left, ops=[flip()], comparators=r.comparators)
    c_val = None
    corr_name = None
    if isinstance(r, ast.Compare) and len(r.ops) == 1:
        l, rr, op = r.left, r.comparators[0], r.ops[0]
        if isinstance(op, (ast.Gt, ast.GtE)):
            l, rr = rr, l
            op = ast.Lt()
        if isinstance(op, (ast.Lt, ast.LtE)) and isinstance(l, ast.Name):
            try:
                c_val = const_value(rr)
                corr_name = l.id
            except ValueError:
                pass
    ok = c_val is not None and 0 < c_val < 1
    run.judged(rid, "redo flag: %s (threshold %s)" % (src(redo_e), c_val), ok=ok)
    if not ok:
        run.report("C05.3", TPL, redo_e, "the redo flag is not `corr < c` with a constant 0 < c < 1: a step can be rejected without the proposal being smaller")
        return
    # step expression: corr * timestep where timestep is the step just tried (solver_dict['timestep'])
    # resolve the local `timestep` : last assignment before return in the same block
    blk = ret._parent.body if hasattr(ret._parent, "body") else []
    defs = {}
    for st in blk:
        if st is ret:
            break
        if isinstance(st, ast.Assign) and isinstance(st.targets[0], ast.Name):
            defs.setdefault(st.targets[0].id, []).append(st)
    c = Canon()
    expr = step_e
    if isinstance(expr, ast.Name) and expr.id in defs:
        expr = defs[expr.id][-1].value
    p = c.poly(expr)
    tried = None
    for nm, sts in defs.items():
        v = sts[0].value
        if isinstance(v, ast.Subscript) and is_self_attr(v.value, "solver_dict") and isinstance(v.slice, ast.Constant) and v.slice.value == "timestep":
            tried = nm
    ok2 = tried is not None and p == Poly.atom(corr_name) * Poly.atom(tried)
    run.judged(rid, "proposal: %s" % p.canon(), ok=ok2)
    if not ok2:
        run.report("C05.3", TPL, step_e, "the proposed step is not `corr * (step just tried)` with the same corr the redo flag tests: a redo does not "
                                         "imply a smaller step")
    # implicit-aware wrapper
    fn2 = repo.get(IUT, "implicit_aware_update_timestep")
    run.analysed_fn(IUT, fn2)
    base = None
    for st in fn2.body:
        if isinstance(st, ast.Assign) and isinstance(st.value, ast.Call) and (dotted(st.value.func) or "").endswith("update_timestep") and \
                isinstance(st.targets[0], ast.Tuple) and len(st.targets[0].elts) == 2:
            base = [e.id for e in st.targets[0].elts]
    if base is None:
        raise AnalysisError("implicit_aware_update_timestep: base controller call not found")
    okw = True
    lim = None
    for st in ast.walk(fn2):
        if isinstance(st, ast.Return) and isinstance(st.value, ast.Tuple):
            a, b = st.value.elts
            if not (isinstance(b, ast.Name) and b.id == base[1]):
                okw = False
                run.report("C05.3", IUT, st, "the implicit-aware controller does not pass the base controller's redo flag through unchanged")
            if isinstance(a, ast.BinOp) and isinstance(a.op, ast.Mult):
                fac = a.left if (isinstance(a.right, ast.Name) and a.right.id == base[0]) else (a.right if isinstance(a.left, ast.Name) and a.left.id == base[0] else None)
                if fac is None:
                    okw = False
                    run.report("C05.3", IUT, st, "the implicit-aware controller does not return (factor * base proposal, redo)")
                elif isinstance(fac, ast.Name):
                    # factor = 1 + k*arctan((tau - 1)/k)
                    d = sorted([s2 for s2 in ast.walk(fn2) if isinstance(s2, ast.Assign) and isinstance(s2.targets[0], ast.Name) and s2.targets[0].id == fac.id],
                               key=lambda x: (x.lineno, x.col_offset))
                    last = d[-1].value if d else None
                    lim = _arctan_limiter_bound(last)
                    if lim is None:
                        okw = False
                        run.report("C05.3", IUT, d[-1] if d else st, "the multiplier of the implicit-aware controller is not a bounded limiter 1 + k*arctan(./k)")
            elif not (isinstance(a, ast.Name) and a.id == base[0]):
                okw = False
                run.report("C05.3", IUT, st, "unexpected return of the implicit-aware controller")
    if lim is not None:
        okl = c_val * lim < 1
        run.judged(rid, "limiter bound %.4f, c*bound = %.4f < 1" % (lim, c_val * lim), ok=okl)
        if not okl:
            okw = False
            run.report("C05.3", IUT, fn2, "a rejected step (corr < %.3g) can be multiplied by up to %.4g by the implicit-aware limiter: the retried step need "
                                          "not be smaller" % (c_val, lim), text="limiter bound vs redo threshold")
    run.judged(rid, "implicit-aware wrapper passes redo through", ok=okw)


def _arctan_limiter_bound(expr):
    """1 + k * arctan(x / k)  ->  1 + k*pi/2"""
    if not (isinstance(expr, ast.BinOp) and isinstance(expr.op, ast.Add)):
        return None
    for one, rest in ((expr.left, expr.right), (expr.right, expr.left)):
        try:
            if const_value(one) != 1:
                continue
        except ValueError:
            continue
        if isinstance(rest, ast.BinOp) and isinstance(rest.op, ast.Mult):
            for k, at in ((rest.left, rest.right), (rest.right, rest.left)):
                try:
                    kv = const_value(k)
                except ValueError:
                    continue
                if isinstance(at, ast.Call) and fname(at) == "arctan" and kv > 0:
                    return 1 + kv * math.pi / 2
        if isinstance(rest, ast.Call) and fname(rest) == "arctan":
            return 1 + math.pi / 2
    return None


def estimate(repo, run):
    rid = run.rule("C05.4", "the error handed to the controller is timestep * get_error_estimate() at both places it is stored, and the estimate's "
                            "linear form is row0 - row1 of tableau_final over the stage values (or the class's own override)", floor=3)
    call = repo.get(ITY, extract.RK + ".__call__")
    sts = [st for st in walk_no_nested(call) if isinstance(st, ast.Assign) and any(
        isinstance(t, ast.Subscript) and is_self_attr(t.value, "solver_dict") and isinstance(t.slice, ast.Constant) and t.slice.value == "diff" for t in st.targets)]
    m = rkcall.CallModel(call)
    c = Canon()
    if len(sts) < 2:
        raise AnalysisError("anchor missing: the two stores of solver_dict['diff'] in RungeKuttaIntegrator.__call__")
    for st in sts:
        p = c.poly(st.value)
        ok = p == Poly.atom(m.ret_var) * Poly.atom("self.get_error_estimate()")
        run.judged(rid, "diff store: %s" % src(st), ok=ok)
        if not ok:
            run.report("C05.4", ITY, st, "the error estimate stored for the controller is %s, not (step) * get_error_estimate()" % p.canon())
    from .. import tab
    classes, exp, imp = tab.load_tables(repo)
    base = repo.get(ITY, extract.RK + ".get_error_estimate")
    run.analysed_fn(ITY, base)
    # a dummy folded class without override reads the base form
    class _Dummy:
        methods = {}
        rel = ITY
        name = extract.RK
    form, ret, rel_e, fn_e = extract.error_estimate_form(repo, _Dummy)
    prow, _ = extract.propagated_row(repo)
    other = 1 - prow if prow in (0, 1) else None
    ok = other is not None and form == {prow: 1, other: -1}
    run.judged(rid, "base estimate linear form: %s" % {k: str(v) for k, v in form.items()}, ok=ok)
    if not ok:
        run.report("C05.4", ITY, ret, "the embedded error estimate is not (propagated weights - embedded weights) . k: got %s" % {k: str(v) for k, v in form.items()})
    # guard: estimate only when the table has two rows
    okg = any(isinstance(n, ast.Compare) and "tableau_final.shape[0]" in src(n) and "2" in src(n) for n in ast.walk(base))
    run.judged(rid, "estimate guarded by `tableau_final.shape[0] == 2`", ok=okg)
    if not okg:
        run.report("C05.4", ITY, base, "get_error_estimate no longer checks that an embedded row exists", text="two-row guard")


def richardson_retry(repo, run):
    """Richardson wrappers: a rejected step is retried (recursive call) with the controller's proposal or a halved step, never returned."""
    rid = run.rule("C05.5", "Richardson wrapper __call__: when the controller rejects the step the wrapper calls itself again with the next (smaller) step and "
                            "returns that call's result; the step handed to the retry is the controller's proposal or obtained from it by halving; the error "
                            "fed to the controller is the difference of the last two diagonal entries of the tableau", floor=4)
    fn = repo.get(ITY, extract.RICH + ".__call__")
    run.analysed_fn(ITY, fn)
    upd = [st for st in walk_no_nested(fn) if isinstance(st, ast.Assign) and isinstance(st.value, ast.Call) and dotted(st.value.func) == "self.update_timestep"
           and isinstance(st.targets[0], ast.Tuple) and len(st.targets[0].elts) == 2]
    if len(upd) > 1:
        # the controller is consulted again for a retried step: its verdict (the second slot) has to be acted upon like the first one
        from ..imodel import path_key
        upd.sort(key=lambda st: path_key(st, fn))
        for st in upd[1:]:
            flag = st.targets[0].elts[1]
            tested = isinstance(flag, ast.Name) and flag.id != "_" and any(
                isinstance(t_, (ast.If, ast.While)) and any(isinstance(x, ast.Name) and x.id == flag.id for x in ast.walk(t_.test)) and path_key(t_, fn) > path_key(st, fn)
                for t_ in walk_no_nested(fn))
            run.judged(rid, "verdict of the repeated controller call `%s` is acted upon" % src(st)[:70], ok=tested)
            if not tested:
                run.report("C05.5", ITY, st, "the retried step is recorded whatever the controller says about it: the rejection flag of this second consultation is discarded, so a step "
                                             "that has to be rejected twice in a row (initial dt far beyond the problem's time scale) is accepted after ONE reduction with an error "
                                             "orders of magnitude above atol + rtol*|y|", text="retry verdict discarded")
        if any(f.rule == "C05.5" for f in run.findings):
            return
    if len(upd) != 1:
        raise AnalysisError("Richardson __call__: controller call not found")
    prop_name, redo_name = [e.id for e in upd[0].targets[0].elts]
    rec = [c for c in ast.walk(fn) if isinstance(c, ast.Call) and isinstance(c.func, ast.Name) and c.func.id == "self"]
    ok = len(rec) == 1
    guard = None
    if ok:
        st = rec[0]
        while not isinstance(st, ast.stmt):
            st = st._parent
        guard = st._parent
        # the retry executes exactly when the redo flag is set (if/else or early-return arrangement)
        from ..sym import path_condition, equivalent, tree_atoms
        pc, _bt = path_condition(st, fn, guards=True)
        ok = [a.split("@")[0] for a in tree_atoms(pc)] == [redo_name] and equivalent(pc, lambda asg: asg[redo_name])[0]
        # result of the retry replaces (timestep, (dTime, dState))
        ok = ok and isinstance(st, ast.Assign) and "self.dTime" in src(st.targets[0]) and "self.dState" in src(st.targets[0])
    run.judged(rid, "retry: %s executes iff `%s`" % (src(rec[0])[:80] if rec else None, redo_name), ok=ok)
    if not ok:
        run.report("C05.5", ITY, rec[0] if rec else fn, "a step rejected by the controller is not retried by a recursive call whose result replaces the rejected one", text="Richardson retry structure")
        return
    arg = rec[0].args[4] if len(rec[0].args) > 4 else None
    # provenance of the retry step: assigned from the proposal, possibly halved in a loop
    okp = isinstance(arg, ast.Name)
    if okp:
        defs = [s2 for s2 in walk_no_nested(fn) if isinstance(s2, (ast.Assign, ast.AugAssign)) and any(
            isinstance(x, ast.Name) and x.id == arg.id and isinstance(x.ctx, ast.Store) for x in ast.walk(s2))]
        for d in defs:
            if isinstance(d, ast.Assign):
                v = d.value
                if isinstance(v, ast.Call) and fname(v) == "copy" and v.args:
                    v = v.args[0]
                if not (isinstance(v, ast.Name)):
                    okp = False
            else:
                try:
                    cst = const_value(d.value)
                except ValueError:
                    okp = False
                    continue
                if not (isinstance(d.op, (ast.Div, ast.Mult)) and cst in (2, 2.0, 0.5)):
                    okp = False
        okp = okp and any(isinstance(d, ast.Assign) and isinstance(d.value, ast.Name) and d.value.id == prop_name for d in defs)
    run.judged(rid, "retry step `%s` derives from the controller's proposal `%s`" % (src(arg) if arg is not None else None, prop_name), ok=okp)
    if not okp:
        run.report("C05.5", ITY, rec[0], "the step used for the retry is not the controller's proposal (or a power-of-two multiple of the attempted step chosen against it)")
    # redo may only be cleared explicitly in the branch that grows the step
    clears = [s2 for s2 in walk_no_nested(fn) if isinstance(s2, ast.Assign) and isinstance(s2.targets[0], ast.Name) and s2.targets[0].id == redo_name
              and isinstance(s2.value, ast.Constant)]
    def in_symplectic_body(n):
        # the statement must be unreachable when self.symplectic is false (any arrangement of the branches)
        from ..sym import path_condition, tree_atoms, eval_bool
        import itertools
        pc, _ = path_condition(n, fn)
        ats = tree_atoms(pc)
        sym_atoms = [a for a in ats if a.split("@")[0] == "self.symplectic"]
        if not sym_atoms:
            return False
        for vals in itertools.product((False, True), repeat=len(ats)):
            asg = dict(zip(ats, vals))
            if not asg[sym_atoms[0]] and eval_bool(pc, asg):
                return False
        return True
    okc = all(s2.value.value is False and in_symplectic_body(s2) for s2 in clears)
    run.judged(rid, "redo flag overridden only in the symplectic step-doubling branch (%d place(s))" % len(clears), ok=okc)
    if not okc:
        run.report("C05.5", ITY, clears[0], "the controller's redo flag is overridden outside the symplectic step-selection branch: a rejected step is handed back as accepted")
    # error estimate fed to the controller
    diff_st = [s2 for s2 in walk_no_nested(fn) if isinstance(s2, ast.Assign) and any(
        isinstance(t, ast.Subscript) and is_self_attr(t.value, "solver_dict") and isinstance(t.slice, ast.Constant) and t.slice.value == "diff" for t in s2.targets)]
    ar = repo.get(ITY, extract.RICH + ".adaptive_richardson")
    rets = [s2 for s2 in walk_no_nested(ar) if isinstance(s2, ast.Return)]
    oke = len(diff_st) == 1 and len(rets) == 1 and isinstance(rets[0].value, ast.Tuple) and len(rets[0].value.elts) == 3
    if oke:
        third = rets[0].value.elts[2]
        c = Canon(env=inline_locals(ar))       # `error_estimate = <difference>` named just before the return is the same expression
        oke = c.poly(third) in (c.poly(ast.parse("self.stage_values[m - 1, m - 1] - self.stage_values[m, m]", mode="eval").body),
                                c.poly(ast.parse("self.stage_values[m, m] - self.stage_values[m - 1, m - 1]", mode="eval").body))
    run.judged(rid, "error estimate = difference of the last two diagonal tableau entries", ok=oke)
    if not oke:
        run.report("C05.5", ITY, rets[0] if rets else ar, "the error estimate handed to the controller is not the difference of the last two diagonal entries of the extrapolation tableau",
                   text="Richardson error estimate")


def ancestors_of(node):
    p = getattr(node, "_parent", None)
    while p is not None:
        yield p
        p = getattr(p, "_parent", None)


def recorded_pairing(repo, run):
    """the controller accepts (dTime, dState) of the LAST attempt (a rejected step is retried with a shorter one): what integrate() records for the step must be
    exactly that pair -- the state for the time it belongs to -- or a tolerance-satisfying step is stored under the label of a time it was not computed for"""
    from ..imodel import IntegrateModel, DS
    from ..sym import Poly
    rid = run.rule("C05.6", "integrate() records the accepted attempt as it is: time row = t[counter] + dTime and state row = y[counter] + dState with (dTime, dState) "
                            "the pair returned by this iteration's integrator call (never the requested step or the target time)", floor=2)
    m = IntegrateModel(repo)
    c = m.canon
    wy, wt = c.poly(m.commit_y.value), c.poly(m.commit_t.value)
    oky = wy == Poly.atom("self.__y[self.counter]") + Poly.atom(m.dState)
    okt = wt == Poly.atom("self.__t[self.counter]") + Poly.atom(m.dTime)
    run.judged(rid, "state row: %s" % src(m.commit_y)[:100], ok=oky)
    run.judged(rid, "time row: %s" % src(m.commit_t)[:100], ok=okt)
    if not oky:
        run.report("C05.6", DS, m.commit_y, "the recorded state is %s, not y[counter] + the increment of the accepted attempt (%s)" % (wy.canon(), m.dState))
    if not okt:
        run.report("C05.6", DS, m.commit_t, "the recorded time is not t[counter] + the step the accepted attempt actually took (%s): when the controller rejected the requested "
                                            "step and accepted a shorter one, the state of the shorter step is stored under another time (e.g. the target), an error far "
                                            "above the tolerances that nothing reports" % (m.dTime,))


# ------------------------------------------------------------------------------------------------
def nan_rejection(repo, run, rule_id="C05.7"):
    """'if the tolerances cannot be met an error is raised instead of an inaccurate state being recorded': a step whose error estimate is not a number (the
    right-hand side returned nan/inf) must be REJECTED by the controller.  Every ordering comparison with a NaN is False, so a redo flag of the form
    `corr < c` rejects only if NaN cannot reach `corr`.  NaN-taint is propagated from the error estimate (and the stored earlier estimates) through
    update_timestep; `where(x > 0, f(x), const)` is the sanitiser the code uses (NaN > 0 is False, so the constant is taken)."""
    rid = run.rule(rule_id, "NaN-taint analysis of update_timestep: the redo flag evaluates to True (reject) when the error estimate is NaN -- either NaN cannot reach the "
                            "compared quantity (sanitised by `where(x > 0, f(x), const)` on every branch) or the comparison is of the negated form", floor=2)
    fn = repo.get(TPL, "IntegratorTemplate.update_timestep")
    run.analysed_fn(TPL, fn)
    SOURCES = {"diff", "dState", "epsilon_last", "epsilon_last_last", "system_scaling"}

    def names_in(n):
        return {x.id for x in ast.walk(n) if isinstance(x, ast.Name)}

    def taint(n, env):
        if isinstance(n, ast.Name):
            return set(env.get(n.id, ()))
        if isinstance(n, ast.Constant):
            return set()
        if isinstance(n, ast.Subscript) and isinstance(n.slice, ast.Constant) and isinstance(n.slice.value, str) and is_self_attr(n.value, "solver_dict"):
            return {n.slice.value} if n.slice.value in SOURCES else set()
        if isinstance(n, ast.Call) and fname(n) == "where" and len(n.args) == 3:
            cond, a, b = n.args
            ta = taint(a, env)
            cmps = [c for c in ast.walk(cond) if isinstance(c, ast.Compare) and all(isinstance(o, (ast.Lt, ast.LtE, ast.Gt, ast.GtE)) for o in c.ops)]
            tested = set()
            for c in cmps:
                for side in [c.left] + list(c.comparators):
                    tested |= taint(side, env)
            # with a NaN among the tested quantities the condition is False and `b` is selected
            if ta and ta <= tested:
                return taint(b, env)
            return ta | taint(b, env) | taint(cond, env)
        if isinstance(n, ast.Call) and fname(n) in ("nan_to_num",):
            return set()
        if isinstance(n, ast.Call) and isinstance(n.func, ast.Attribute) and n.func.attr == "get" and is_self_attr(n.func.value, "solver_dict") and n.args and \
                isinstance(n.args[0], ast.Constant):
            return {n.args[0].value} if n.args[0].value in SOURCES else set()
        out = set()
        for ch in ast.iter_child_nodes(n):
            if isinstance(ch, (ast.expr, ast.keyword)):
                out |= taint(ch.value if isinstance(ch, ast.keyword) else ch, env)
        return out
    results = []

    def walk(stmts, env):
        """returns list of envs at fall-through"""
        envs = [env]
        for st in stmts:
            nxt = []
            for e in envs:
                if isinstance(st, ast.Assign):
                    e2 = dict(e)
                    if len(st.targets) == 1 and isinstance(st.targets[0], ast.Tuple) and isinstance(st.value, ast.Tuple) and len(st.targets[0].elts) == len(st.value.elts):
                        vals = [taint(v, e) for v in st.value.elts]
                        for t, v in zip(st.targets[0].elts, vals):
                            if isinstance(t, ast.Name):
                                e2[t.id] = v
                    else:
                        v = taint(st.value, e)
                        for t in st.targets:
                            for x in ast.walk(t):
                                if isinstance(x, ast.Name) and isinstance(x.ctx, ast.Store):
                                    e2[x.id] = v
                    nxt.append(e2)
                elif isinstance(st, ast.AugAssign) and isinstance(st.target, ast.Name):
                    e2 = dict(e)
                    e2[st.target.id] = set(e.get(st.target.id, ())) | taint(st.value, e)
                    nxt.append(e2)
                elif isinstance(st, ast.If):
                    nxt += walk(st.body, dict(e)) + walk(st.orelse, dict(e))
                elif isinstance(st, ast.With):
                    nxt += walk(st.body, dict(e))
                elif isinstance(st, ast.Return):
                    if isinstance(st.value, ast.Tuple) and len(st.value.elts) == 2:
                        results.append((st, st.value.elts[1], dict(e)))
                else:
                    nxt.append(e)
            envs = nxt
        return envs
    walk(fn.body, {})
    if not results:
        raise AnalysisError("update_timestep: no `return step, redo` reached by the taint walk")

    def nan_value(n, env):
        """value of a boolean expression when every tainted operand is NaN: True / False / None (not decided)"""
        if isinstance(n, ast.Call) and fname(n) == "bool" and n.args:
            return nan_value(n.args[0], env)
        if isinstance(n, ast.UnaryOp) and isinstance(n.op, ast.Not):
            v = nan_value(n.operand, env)
            return None if v is None else (not v)
        if isinstance(n, ast.Compare) and len(n.ops) == 1:
            if taint(n.left, env) or taint(n.comparators[0], env):
                return isinstance(n.ops[0], ast.NotEq)
            return None
        if isinstance(n, ast.Name):
            return None
        return None
    seen = set()
    for st, redo, env in results:
        t = taint(redo, env)
        key = (src(redo), tuple(sorted(t)))
        if key in seen:
            continue
        seen.add(key)
        ok = not t or nan_value(redo, env) is True
        run.judged(rid, "redo flag `%s`: NaN can reach it from %s" % (src(redo), sorted(t) or "nothing"), ok=ok)
        if not ok:
            run.report(rule_id, TPL, redo, "a NaN error estimate (from %s) reaches the quantity compared in the redo flag `%s`; the comparison is then False, i.e. 'do not redo': a step "
                                           "computed from non-finite right-hand-side values is accepted and recorded, the proposed next step is NaN, and integrate() ends 'successfully' "
                                           "instead of raising the integration-failure error" % (sorted(t), src(redo)))
    run.judged(rid, "return sites of update_timestep analysed: %d" % len(results), ok=True)


# ------------------------------------------------------------------------------------------------
def error_measure(repo, run, rule_id="C05.9"):
    """'error bounded by a constant times (atol + rtol*|y|)' for EVERY component of the state, whatever its shape: the number the controller accepts or
    rejects a step on has to grow when the scaled error of ANY component grows.  The measure is abstracted by (sense, coverage): sense says whether the
    value increases (+) or decreases (-) when errors increase, coverage whether it still depends on every element (all), on each element / row separately
    (each), or only on the best row (best).  reciprocal flips the sense; norm/sum/max of a '+' value keep all elements in play; max of a '-' value (or min
    of a '+' value) keeps only the most ACCURATE row."""
    rid = run.rule(rule_id, "update_timestep: the scalar the step controller works with is an order-reversing function of the scaled error of EVERY component "
                            "(abstract interpretation over (sense, coverage): full reductions of |error/tolerance| and reciprocals of them; a max over "
                            "reciprocals / min over errors of rows is reported)", floor=1)
    TPL = "desolver/integrators/integrator_template.py"
    fn = repo.get(TPL, "IntegratorTemplate.update_timestep")
    run.analysed_fn(TPL, fn)
    env = inline_locals(fn)
    # the error estimate: the local bound from solver_dict['diff']
    diffs = [n for n, v in env.items() if isinstance(v, ast.Subscript) and isinstance(v.slice, ast.Constant) and v.slice.value == "diff"]
    if not diffs:
        raise AnalysisError("update_timestep: the local holding solver_dict['diff'] was not found")
    dname = diffs[0]

    class Unknown(Exception):
        pass

    def absval(e, depth=0):
        """-> (sense, coverage) or None when the expression does not depend on the error estimate"""
        if depth > 12:
            raise Unknown(src(e)[:60])
        if isinstance(e, ast.Name):
            if e.id == dname:
                return ("+", "each")
            if e.id in env:
                return absval(env[e.id], depth + 1)
            return None
        if isinstance(e, (ast.Constant, ast.Attribute)):
            return None
        if isinstance(e, ast.Subscript):
            return absval(e.value, depth + 1) if not isinstance(e.value, ast.Attribute) else None
        if isinstance(e, ast.BinOp):
            l, r = absval(e.left, depth + 1), absval(e.right, depth + 1)
            if l is None and r is None:
                return None
            if isinstance(e.op, ast.Div):
                if r is None:
                    return l
                if l is None:
                    return ("-" if r[0] == "+" else "+", r[1])
            if isinstance(e.op, ast.Mult) and (l is None or r is None):
                return l or r
            if isinstance(e.op, ast.Pow) and r is None:
                c = None
                try:
                    c = const_value(e.right)
                except Exception:
                    pass
                if c is not None and c > 0:
                    return l
                if c is not None and c < 0:
                    return ("-" if l[0] == "+" else "+", l[1])
            raise Unknown(src(e)[:60])
        if isinstance(e, ast.UnaryOp):
            return absval(e.operand, depth + 1)
        if isinstance(e, ast.Call):
            f = (fname(e) or "").split(".")[-1]
            args = [absval(a, depth + 1) for a in e.args]
            a0 = args[0] if args else None
            if a0 is None and not any(args):
                return None
            axis = next((k.value for k in e.keywords if k.arg in ("axis", "dim")), None)
            if axis is None and f in ("norm", "sum", "max", "amax", "min", "amin", "mean") and len(e.args) > 1 and not (isinstance(e.args[1], ast.Constant) and e.args[1].value is None):
                axis = e.args[1] if f != "norm" else (e.args[2] if len(e.args) > 2 else None)
            partial = axis is not None and not (isinstance(axis, ast.Constant) and axis.value is None)
            if f in ("abs", "absolute", "atleast_1d", "asarray", "ravel", "reshape", "flatten", "sqrt", "square", "nan_to_num", "astype", "to_float", "float", "copy"):
                return a0
            if f in ("reciprocal",):
                return ("-" if a0[0] == "+" else "+", a0[1])
            if f in ("norm", "sum", "mean"):
                if a0[0] != "+":
                    raise Unknown("a sum/norm of reciprocals: " + src(e)[:60])
                return ("+", "each" if partial else ("all" if a0[1] in ("each", "all") else a0[1]))
            if f in ("max", "amax", "min", "amin"):
                keeps_worst = (f in ("max", "amax")) == (a0[0] == "+")
                if partial:
                    return (a0[0], "each" if keeps_worst and a0[1] in ("each", "all") else "best")
                return (a0[0], ("all" if a0[1] in ("each", "all") else a0[1]) if keeps_worst else "best")
            if f in ("maximum", "minimum", "where"):
                vals = [a for a in args if a is not None]
                if len(vals) == 1:
                    return vals[0]
            raise Unknown("call %s" % src(e)[:60])
        raise Unknown(type(e).__name__)

    # the measure: every local that the correction factor `corr` is computed from and that depends on the error estimate
    targets = [st for st in walk_no_nested(fn) if isinstance(st, ast.Assign) and isinstance(st.targets[0], ast.Name) and st.targets[0].id.startswith("epsilon_current")]
    if not targets:
        raise AnalysisError("update_timestep: the error measure (epsilon_current) was not found")
    for st in targets:
        try:
            v = absval(st.value)
        except Unknown as e:
            raise AnalysisError("update_timestep: the error measure `%s` is outside the (sense, coverage) domain (%s)" % (src(st)[:80], e))
        ok = v is not None and v[1] == "all"
        run.judged(rid, "`%s`: %s" % (src(st)[:110], "does not depend on the error estimate" if v is None else "sense %s, coverage %s" % v), ok=ok)
        if not ok:
            why = "does not depend on the error estimate at all" if v is None else (
                "depends only on the most ACCURATE row / element of the state (a max over reciprocals of row errors, or a min over row errors): a step is accepted and the next "
                "one sized by the easiest component, the harder components are recorded with errors orders of magnitude above the tolerances, and no step is rejected"
                if v[1] == "best" else "is not reduced to one number over the whole state (coverage: %s)" % v[1])
            run.report(rule_id, TPL, st, "the error measure of the step controller %s" % why)


# ------------------------------------------------------------------------------------------------
def tolerance_scale_is_current(repo, run, rule_id="C05.10"):
    """'error bounded by a modest constant times (atol + rtol*|y|)': the quantity that multiplies rtol in the controller has to follow the CURRENT state.  A scale
    that carries a memory of earlier steps (a running average stored in solver_dict and read back) lags behind a decaying solution by a factor 0.8^-n: with
    atol << rtol*|y| the accepted error exceeds the tolerance by orders of magnitude, for every integrator whose solver_dict survives from step to step."""
    from ..extract import _subst
    rid = run.rule(rule_id, "update_timestep: the error tolerance (`atol + rtol * scale`) is computed from the current step's data only -- every solver_dict entry it reads that "
                            "update_timestep itself writes is written earlier in the same call from values that read none of those entries (no running average over past steps)", floor=1)
    TPL_ = "desolver/integrators/integrator_template.py"
    fn = repo.get(TPL_, "IntegratorTemplate.update_timestep")
    env = inline_locals(fn)
    tol = env.get("total_error_tolerance")
    if tol is None:
        raise AnalysisError("update_timestep: the error tolerance (total_error_tolerance) was not found")

    def keys_read(e):
        e = _subst(e, {k: v for k, v in env.items() if k != "total_error_tolerance"})
        return {x.slice.value for x in ast.walk(e) if isinstance(x, ast.Subscript) and is_self_attr(x.value, "solver_dict") and isinstance(x.slice, ast.Constant) and
                isinstance(x.ctx, ast.Load)}
    stores = {}
    for st in walk_no_nested(fn):
        if isinstance(st, ast.Assign):
            for t in st.targets:
                for x in ([t] if not isinstance(t, (ast.Tuple, ast.List)) else t.elts):
                    if isinstance(x, ast.Subscript) and is_self_attr(x.value, "solver_dict") and isinstance(x.slice, ast.Constant):
                        stores.setdefault(x.slice.value, []).append(st)
    written = set(stores)
    hist = keys_read(tol) & written
    if not hist:
        run.judged(rid, "the tolerance reads no solver_dict entry that update_timestep writes: %s" % sorted(keys_read(tol)))
        return
    for k in sorted(hist):
        for st in stores[k]:
            if st.lineno > [d for d in walk_no_nested(fn) if isinstance(d, ast.Assign) and any(isinstance(t, ast.Name) and t.id == "total_error_tolerance" for t in d.targets)][0].lineno:
                continue
            back = sorted(keys_read(st.value) & written) if isinstance(st.targets[0], ast.Subscript) else sorted(written & {k})
            # ... written on EVERY path that reaches the tolerance: a store nested under a test of its own (first attempt only, key missing, ...) leaves the entry of an
            # earlier attempt or step in place on the other path
            tol_st = [d for d in walk_no_nested(fn) if isinstance(d, ast.Assign) and any(isinstance(t, ast.Name) and t.id == "total_error_tolerance" for t in d.targets)][0]
            tol_anc = [a for a in ancestors(tol_st)]
            extra = [a for a in ancestors(st) if isinstance(a, (ast.If, ast.For, ast.While, ast.Try)) and a not in tol_anc]
            run.judged(rid, "`%s` is stored on every path to the tolerance" % src(st)[:80], ok=not extra)
            if extra:
                run.report(rule_id, TPL_, st, "the scale of the relative tolerance is stored only under `%s`; on the other path the tolerance is computed from the entry an earlier attempt or "
                                              "step left in solver_dict: after a rejected attempt with a step far beyond the problem's time scale the blown-up |dState/dt| of that attempt "
                                              "inflates rtol*scale, and a retry whose error is orders of magnitude above atol + rtol*|y| is accepted" % src(extra[0].test if isinstance(extra[0], (ast.If, ast.While)) else extra[0])[:90],
                           text="tolerance scale stored conditionally")
            run.judged(rid, "`%s`%s" % (src(st)[:100], " reads back %s" % back if back else ""), ok=not back)
            if back:
                run.report(rule_id, TPL_, st, "the scale of the relative tolerance is stored as a function of its own earlier value (%s): it is a running average over past steps, "
                           "which lags behind a solution that shrinks along the run; for every integrator whose solver_dict persists between steps the controller then works "
                           "with atol + rtol*(stale, too large scale) and accepts errors far above atol + rtol*|y|" % ", ".join("solver_dict[%r]" % b for b in back))
