"""C04 — fixed-step methods take the requested step: direction-symmetric step arithmetic in the integrators,
provenance of the step handed back by non-adaptive methods, recorded dTime, and the single guarded store of
the integrator's proposal in integrate()."""
import ast

from .. import seeds, extract, rkcall
from ..front import AnalysisError, dotted, fname, is_self_attr, src, walk_no_nested, ancestors
from ..imodel import IntegrateModel, DS, path_key
from ..sym import Canon, Poly
from .c03 import kinds

LEVEL = "other"
ITY = seeds.ITY
KIND_FUNCS = [
    (ITY, extract.RK + ".__call__"), (ITY, extract.RK + ".step"),
    (ITY, extract.SPLIT + ".__call__"), (ITY, extract.SPLIT + ".step"),
    (seeds.TPL, "IntegratorTemplate.update_timestep"), (seeds.IUT, "implicit_aware_update_timestep"),
    (ITY, extract.RICH + ".__call__"), (ITY, extract.RICH + ".adaptive_richardson"), (ITY, extract.RICH + ".subdiv_step"),
]


def run(repo, run, tier):
    run.assumptions += ["kinds of integrator parameters/attributes/solver_dict keys are the declared seeds of DESIGN.md Appendix A",
                        "the shift/reflection relation of computed states (rounding/tolerance level) is not decided; its necessary "
                        "condition (well-kinded time arithmetic) is"]
    kind_rules(repo, run)
    provenance(repo, run)
    dtime(repo, run)
    proposal_store(repo, run)
    final_step(repo, run)
    preloop_store(repo, run)
    guard(repo, run)
    setter_keeps_magnitude(repo, run)
    # the step a system takes is ITS OWN object: orientation rebinds `-self.__dt` (an in-place `*= -1` writes into an array another system built from the same dt shares)
    from .c03 import orientation_preserves_magnitude
    orientation_preserves_magnitude(repo, run, IntegrateModel(repo), rule_id="C04.9")
    # 'every recorded step has the requested size': nothing but the constructor, the dt setter, reset(), integrate() and the orientation helper stores the step
    # (a change of method must not put the constructor's step back over one assigned later)
    from ..report import Rejudged
    from .c20 import who_stores_dt
    rj = Rejudged(run, {"C20.10": "C04.11"}, note="re-judged for C04")
    who_stores_dt(repo, rj)
    rj.finish_rejudge()


def kind_rules(repo, run, rid="C04.1"):
    first = True
    for rel, q in KIND_FUNCS:
        kinds(repo, run, funcs=[q], rid=rid, disciplines=("AFF", "DIR", "UNIT"), seed=seeds.integrator_seeds(), floor=60, rel=rel)


def provenance(repo, run):
    rid = run.rule("C04.2", "provenance of the step a non-adaptive method hands back, on every path: the input step for explicit methods; for "
                            "implicit ones the input step, or one shrunk from it after a failed stage solve; step()/symplectic __call__ return "
                            "their parameter unmodified", floor=5)
    call = repo.get(ITY, extract.RK + ".__call__")
    run.analysed_fn(ITY, call)
    m, out, eng = rkcall.analyse(call)
    seen = set()
    for (s, node) in sorted(out.ret, key=lambda x: str(x[0])):
        impl, adp, newton, redo, prov, failed, pdt = s
        if adp:
            continue
        if not impl:
            ok = prov == "INPUT"
        else:
            ok = prov == "INPUT" or (prov == "SHRUNK" and failed)
        key = (impl, prov)
        run.judged(rid, "return state implicit=%s adaptive=%s newton=%s step-provenance=%s solve-failed-earlier=%s" % (impl, adp, newton, prov, failed), ok=ok)
        if not ok and key not in seen:
            seen.add(key)
            run.report("C04.2", ITY, node, "a non-adaptive %s method can hand back a step that is %s: every recorded step except the last must have the requested "
                                           "magnitude%s" % ("implicit" if impl else "explicit",
                                                            {"CONTROLLER": "the step controller's proposal (update_timestep applied with a zero error estimate can grow it)",
                                                             "SHRUNK": "shrunk although no stage solve failed"}.get(prov, prov),
                                                            " (an implicit one may only shorten a step whose stage equations failed)" if impl else ""),
                       text="non-adaptive %s method returns a step of provenance %s" % ("implicit" if impl else "explicit", prov))
    # step() returns its parameter, unmodified
    for q in (extract.RK + ".step",):
        fn = repo.get(ITY, q)
        p = [a.arg for a in fn.args.args][5]
        stores = [n for n in walk_no_nested(fn) if isinstance(n, ast.Name) and n.id == p and isinstance(n.ctx, ast.Store)]
        rets = [st for st in walk_no_nested(fn) if isinstance(st, ast.Return)]
        ok = not stores and len(rets) == 1 and isinstance(rets[0].value, ast.Tuple) and isinstance(rets[0].value.elts[0], ast.Name) and rets[0].value.elts[0].id == p
        run.judged(rid, "%s returns its step parameter `%s` unmodified" % (q, p), ok=ok)
        if not ok:
            run.report("C04.2", ITY, rets[0] if rets else fn, "step() modifies or replaces the step it was given before handing it back")
    sc = repo.get(ITY, extract.SPLIT + ".__call__")
    run.analysed_fn(ITY, sc)
    p = [a.arg for a in sc.args.args][5]
    stores = [n for n in walk_no_nested(sc) if isinstance(n, ast.Name) and n.id == p and isinstance(n.ctx, ast.Store)]
    rets = [st for st in walk_no_nested(sc) if isinstance(st, ast.Return)]
    ok = not stores and len(rets) == 1 and isinstance(rets[0].value, ast.Tuple) and isinstance(rets[0].value.elts[0], ast.Name) and rets[0].value.elts[0].id == p
    run.judged(rid, "splitting __call__ returns its step parameter `%s` unmodified" % p, ok=ok)
    if not ok:
        run.report("C04.2", ITY, rets[0] if rets else sc, "the splitting integrator hands back a step other than the one it was given")
    # and passes it on to step()
    stepcalls = [c for c in ast.walk(sc) if isinstance(c, ast.Call) and dotted(c.func) == "self.step"]
    okp = len(stepcalls) == 1 and any((k.arg == "timestep" and isinstance(k.value, ast.Name) and k.value.id == p) for k in stepcalls[0].keywords) or (
        len(stepcalls) == 1 and len(stepcalls[0].args) >= 5 and isinstance(stepcalls[0].args[4], ast.Name) and stepcalls[0].args[4].id == p)
    run.judged(rid, "splitting __call__ passes the requested step to step()", ok=okp)
    if not okp:
        run.report("C04.2", ITY, sc, "the splitting __call__ does not pass the requested step on to step()", text="splitting step argument")


def dtime(repo, run):
    rid = run.rule("C04.3", "the recorded step length dTime is the step the stages were computed with (both step() implementations)", floor=2)
    for q in (extract.RK + ".step", extract.SPLIT + ".step"):
        fn = repo.get(ITY, q)
        run.analysed_fn(ITY, fn)
        p = [a.arg for a in fn.args.args][5]
        c = Canon(rename={p: "h"})
        sts = [st for st in walk_no_nested(fn) if isinstance(st, ast.Assign) and any(is_self_attr(t, "dTime") for t in st.targets)]
        ok = bool(sts)
        for st in sts:
            v = st.value
            if isinstance(v, ast.Call) and fname(v) in ("copy", "clone", "asarray") and v.args:
                v = v.args[0]
            ok = ok and c.poly(v) == Poly.atom("h")
        run.judged(rid, "%s: %s" % (q, [src(s) for s in sts]), ok=ok)
        if not ok:
            run.report("C04.3", ITY, sts[0] if sts else fn, "self.dTime is not the requested step: the recorded time would advance by something other than "
                                                            "the step the state increment was computed for")


def proposal_store(repo, run):
    rid = run.rule("C04.4", "in integrate(): the integrator's proposal is stored into dt only when the step was not the clamped last one, and "
                            "nothing else stores dt between the integrator call and the callbacks", floor=2)
    m = IntegrateModel(repo)
    run.analysed_fn(DS, m.fn)
    stores = []
    for st in walk_no_nested(m.loop):
        if isinstance(st, (ast.Assign, ast.AugAssign)):
            tg = st.targets if isinstance(st, ast.Assign) else [st.target]
            if any(is_self_attr(t, "dt") or is_self_attr(t, "__dt") for t in tg):
                stores.append(st)
    fs = m.final_step()
    flag = fs["flag"] if fs and fs.get("flag_ok") else None
    prop = [st for st in stores if isinstance(st, ast.Assign) and isinstance(st.value, ast.Name) and st.value.id == m.new_dt]
    if flag is None:
        # no flag records whether the step was the clamped one: decidable only when the proposal is stored unconditionally (then it is also stored
        # after a clamped last step, whenever the clamp exists)
        from ..sym import path_condition, tree_atoms
        uncond = [p_ for p_ in prop if not tree_atoms(path_condition(p_, m.loop)[0])]
        if uncond and fs and fs.get("clamp") is not None:
            run.judged(rid, "proposal store `%s` is unconditional although the last step is clamped" % src(uncond[0]), ok=False)
            run.report("C04.4", DS, uncond[0], "the integrator's proposal is stored into dt on every iteration, also after the last step was clamped to `tf - t`: for a fixed-step "
                                               "method the proposal IS the clamped remainder, so the next integrate() call takes steps of that remainder instead of the requested dt",
                       text="proposal store unconditional")
            return
        raise AnalysisError("anchor missing: the final-step flag of integrate")
    ok = len(prop) == 1
    if ok:
        from ..sym import path_condition, equivalent
        pc, _ = path_condition(prop[0], m.loop)
        ok = equivalent(pc, ("not", [("atom", flag)]))[0]
        par = prop[0]._parent
    run.judged(rid, "proposal store: %s under `%s`" % ([src(p) for p in prop], src(prop[0]._parent.test) if prop and isinstance(prop[0]._parent, ast.If) else "<no guard>"), ok=ok)
    if not ok:
        run.report("C04.4", DS, prop[0] if prop else m.loop, "the integrator's proposed step is not stored exactly once under `not %s`: after a clamped last step "
                                                             "the (short) remainder would replace the user's step, or the proposal is lost" % flag,
                   text="proposal store guard")
    # ... and the proposal is stored AFTER the nested integrate() call that lands on a terminal event: that call halves / clamps dt for its own short span, and it is
    # the proposal store that puts the requested step back for the continued run
    if prop and m.recursive:
        from ..imodel import path_key
        def stmt_of(n):
            while not isinstance(n, ast.stmt):
                n = n._parent
            return n
        late = all(path_key(stmt_of(c), m.fn) < path_key(prop[0], m.fn) for c in m.recursive)
        run.judged(rid, "the proposal store follows the nested integrate() call(s) of the iteration", ok=late)
        if not late:
            run.report("C04.4", DS, prop[0], "the integrator's proposal is stored into dt BEFORE the nested `self.integrate(root)` call of a terminal event: that call shortens dt to "
                                             "(half) the distance to the root and nothing restores it, so a run continued after the event takes steps of |root - t|/2 instead of the "
                                             "requested dt", text="proposal store precedes the nested integrate call")
    others = [st for st in stores if st not in prop]
    run.judged(rid, "other stores to dt in the step loop: %d" % len(others), ok=not others)
    for st in others:
        run.report("C04.4", DS, st, "self.dt is overwritten inside the step loop by something other than the integrator's proposal")


def final_step(repo, run):
    """a step other than the last is the requested dt: the clamp `dt = tf - t` may only be taken when |dt| > |tf - t| (shared with C03.2)"""
    from .c03 import _final_predicate, _is_remaining
    rid = run.rule("C04.5", "the clamped step `tf - t[counter]` replaces the requested step exactly when |self.dt| > |tf - t[counter]|: otherwise a recorded step other "
                            "than the last is longer (or shorter) than the requested one", floor=1)
    m = IntegrateModel(repo)
    c = m.canon
    fs = m.final_step()
    if fs is None or fs["clamp"] is None or "cond" not in fs:
        run.judged(rid, "clamp statement", ok=False)
        run.report("C04.5", DS, m.loop, "the clamp of the last step to `tf - t[counter]` was not found under a test", text="missing clamp")
        return
    _final_predicate(run, rid, m, c, fs, rule_id="C04.5")


def preloop_store(repo, run):
    """'every recorded step except possibly the last has exactly the requested magnitude': before the loop integrate() may shorten the requested step only when it
    is longer than the whole remaining span, in magnitude"""
    from .c03 import _abs_arg, _is_remaining
    from ..sym import path_condition, tree_atoms, equivalent, BoolTracker
    from ..imodel import path_key
    rid = run.rule("C04.6", "before the step loop integrate() overwrites the requested step only under |self.dt| > |tf - t[counter]| (magnitudes on both sides): a "
                            "signed comparison shortens every backward run's step to half the span", floor=1)
    m = IntegrateModel(repo)
    from ..sym import inline_locals
    c = m.canon
    env_loc = inline_locals(m.fn)
    kl = path_key(m.loop, m.fn)
    stores = [st for st in walk_no_nested(m.fn) if isinstance(st, (ast.Assign, ast.AugAssign)) and path_key(st, m.fn) < kl and
              any(is_self_attr(t, "dt") or is_self_attr(t, "__dt") for t in (st.targets if isinstance(st, ast.Assign) else [st.target]))]
    if not stores:
        run.judged(rid, "no store to the step before the loop", nontrivial=False)
        return
    for st in stores:
        bt = BoolTracker(canon=c)
        pc, _ = path_condition(st, m.fn, tracker=bt, guards=False)
        atoms = tree_atoms(pc)
        good = []
        for a in atoms:
            leaf = bt.leaves.get(a)
            if isinstance(leaf, tuple):
                left, op, right = leaf
                def res(n):
                    k = 0
                    while isinstance(n, ast.Name) and n.id in env_loc and n.id != m.tf and k < 8:
                        n, k = env_loc[n.id], k + 1
                    return n
                for x, y, ops in ((res(left), res(right), (ast.Gt,)), (res(right), res(left), (ast.Lt,))):     # strict: |dt| == |span| is a legal single requested step
                    ax, ay = _abs_arg(x), _abs_arg(y)
                    if ax is not None and ay is not None and isinstance(op, ops) and is_self_attr(res(ax)) and res(ax).attr in ("dt", "__dt") and _is_remaining(m, c, ay):
                        good.append(a)
        others = [a for a in atoms if a not in good and not a.split("@")[0].startswith(("t Is None", "None Is t"))]
        ok = len(good) == 1 and not others and equivalent(pc, lambda asg: asg[good[0].split("@")[0]])[0] if len(good) == 1 and not others else False
        # value stored: a fraction (0 < k <= 1) of the remaining span in magnitude is not judged here (C03 kinds do); only WHEN it is stored
        run.judged(rid, "pre-loop store `%s` under %s" % (src(st)[:60], [a.split("@")[0] for a in atoms]), ok=ok)
        if not ok:
            run.report("C04.6", DS, st, "the requested step is overwritten before the loop under a condition that is not `|self.dt| > |tf - t[counter]|` (atoms: %s): "
                                        "for some sign of the times or direction a run with |dt| <= |span| no longer takes steps of the requested size (the comparison must be strict: a requested "
                                        "step exactly equal to the span is taken as it is)" % (
                                            [a.split("@")[0] for a in atoms],))


def guard(repo, run):
    """whatever the direction of integration: the number of steps a call takes is decided by the loop guard, which must not depend on how dt happens to be
    oriented when it is evaluated (the dt setter orients by the system's own span, not by the call's target)"""
    from .c03 import loop_guard
    rid = run.rule("C04.7", "the step loop's guard is the magnitude test |tf - t[counter]| >= epsilon (no sign of dt, no signed remaining time)", floor=1)
    m = IntegrateModel(repo)
    loop_guard(run, rid, m, m.canon, "C04.7")


# ------------------------------------------------------------------------------------------------
def setter_keeps_magnitude(repo, run):
    """'every recorded step except possibly the last has exactly the requested magnitude dt': the requested step reaches the loop through the dt setter (also on every
    iteration: integrate() stores the integrator's proposal -- for a fixed-step method the step just taken -- back through it).  The setter may convert the value and
    orient it; it must not bound, halve or otherwise rescale it (the only place a step is shortened is integrate()'s own clamp against the target of THAT call)."""
    rid = run.rule("C04.8", "the dt setter stores the value it is given (a dtype conversion of it) and orients it: no other store to the step, no arithmetic on its magnitude, "
                            "no comparison of it with the configured span", floor=1)
    fn = repo.get(DS, "OdeSystem.dt@setter")
    run.analysed_fn(DS, fn)
    p = [a.arg for a in fn.args.args][1]
    stores = [st for st in walk_no_nested(fn) if isinstance(st, (ast.Assign, ast.AugAssign)) and any(
        is_self_attr(t, "__dt") for t in (st.targets if isinstance(st, ast.Assign) else [st.target]))]
    item_stores = [st for st in walk_no_nested(fn) if isinstance(st, (ast.Assign, ast.AugAssign)) and any(
        isinstance(t, ast.Subscript) and is_self_attr(t.value, "__dt") for t in (st.targets if isinstance(st, ast.Assign) else [st.target]))]
    for st in item_stores:
        run.judged(rid, "dt setter: `%s`" % src(st)[:80], ok=False)
        run.report("C04.8", DS, st, "the dt setter writes INTO the existing step array (`%s`) instead of binding a new one: the constructor's asarray(dt) does not copy a 0-d array of the "
                   "system's dtype, so two systems built from one dt object share that array, and every step-size change of one (each adaptive step, the halving for a short "
                   "span) silently changes the step the other -- a fixed-step run -- takes" % src(st)[:50])
    if not stores and item_stores:
        return
    if not stores:
        raise AnalysisError("dt setter: no store to the step found")
    # the setter is also how integrate() stores the step it is working with, on every iteration: it must write nothing else (the value reset() restores, settings...)
    others = [st for st in walk_no_nested(fn) if isinstance(st, (ast.Assign, ast.AugAssign)) and st not in stores and any(
        isinstance(x, ast.Attribute) and isinstance(x.ctx, ast.Store) and is_self_attr(x) for t in (st.targets if isinstance(st, ast.Assign) else [st.target]) for x in ast.walk(t))]
    run.judged(rid, "dt setter: other attribute stores: %s" % [src(o)[:40] for o in others], ok=not others)
    for o in others:
        run.report("C04.8", DS, o, "the dt setter also stores `%s`: integrate() assigns the step through this setter on every iteration (and when it halves a step longer than the span), "
                   "so what is stored here follows the run -- e.g. the step that reset() restores becomes the last internal step instead of the requested one, and a "
                   "fixed-step run after reset() no longer takes the requested step" % src(o.targets[0] if isinstance(o, ast.Assign) else o.target))
    for st in stores:
        v = st.value if isinstance(st, ast.Assign) else None
        while isinstance(v, ast.Call) and (fname(v) or "").split(".")[-1] in ("asarray", "array", "copy", "clone", "astype", "to_float", "float") and v.args:
            v = v.args[0]
        ok = isinstance(v, ast.Name) and v.id == p and not [a for a in ancestors(st) if isinstance(a, (ast.If, ast.While, ast.For))]
        run.judged(rid, "dt setter: `%s`" % src(st)[:90], ok=ok)
        if not ok:
            run.report("C04.8", DS, st, "the dt setter stores `%s`, not (a conversion of) the value it was given%s: a requested fixed step is silently replaced -- e.g. bounded by the span "
                       "the system was CONSTRUCTED with, although integrate(t) may target any time -- so recorded steps other than the last no longer have the requested magnitude" % (
                           src(st.value)[:60] if isinstance(st, ast.Assign) else src(st)[:60], " (conditionally)" if [a for a in ancestors(st) if isinstance(a, ast.If)] else ""))
