"""C15 — nonlinear solvers claim success only at a solution: every way the success flag can become true passes a residual
test; all return sites of a solver agree on what each slot of the result means; the root is returned in the caller's shape."""
import ast
import itertools

from ..flow import Client, Engine
from ..front import AnalysisError, dotted, fname, is_self_attr, src, walk_no_nested, ancestors
from ..kind import KindEngine, Seeds
from ..sym import BoolTracker, eval_bool, tree_atoms, Canon, Poly

LEVEL = "other"
OPT = "desolver/utilities/optimizer.py"

NAMES = {"F0": "G", "F1": "G", "__f": "G", "F": "G", "__f0": "G", "Fn0": "G", "Fn1": "G", "__fn": "G",
         "x": "X", "__x": "X", "dx": "X", "__dx": "X", "dxn": "X", "trust_region": "X", "xtol": "X", "dx_gn": "X", "dx_sd": "X",
         "tol": "M"}


def seeds_for(fn):
    return Seeds(names=NAMES, calls={"fun": "G", "f": "G", "D.epsilon": "M", "D.tol_epsilon": "M"},
                 attrs={"res.fun": "G", "res.x": "X"})


def callee_slot_kind(repo, fn, name, at_node):
    """kind of ``name`` at ``at_node`` when it was bound by unpacking the result of hybrj / newtontrustregion: the binding that
    dominates at_node and is closest to it in source order"""
    from ..imodel import path_key, dominates
    best = None
    for st in walk_no_nested(fn):
        if isinstance(st, ast.Assign) and isinstance(st.value, ast.Call) and dotted(st.value.func) in ("hybrj", "newtontrustregion") and \
                isinstance(st.targets[0], ast.Tuple) and len(st.targets[0].elts) == 2 and isinstance(st.targets[0].elts[1], ast.Tuple):
            inner = st.targets[0].elts[1]
            pos = None
            for i, e in enumerate(inner.elts):
                if isinstance(e, ast.Name) and e.id == name:
                    pos = i
            if pos is None:
                continue
            at_stmt = at_node
            while not isinstance(at_stmt, ast.stmt):
                at_stmt = at_stmt._parent
            if st is at_stmt or not dominates(st, at_stmt, fn):
                continue
            if best is None or path_key(st, fn) > path_key(best[0], fn):
                star = [i for i, x in enumerate(inner.elts) if isinstance(x, ast.Starred)]
                idx = pos if not star or pos < star[0] else pos - len(inner.elts)
                best = (st, dotted(st.value.func), idx)
    if best is None:
        return None
    cfn = repo.get(OPT, best[1])
    cke = KindEngine(cfn, seeds_for(cfn), disciplines=())
    kinds = set()
    for r in walk_no_nested(cfn):
        if isinstance(r, ast.Return) and isinstance(r.value, ast.Tuple) and len(r.value.elts) == 2 and isinstance(r.value.elts[1], ast.Tuple):
            try:
                kinds.add(cke.kind(r.value.elts[1].elts[best[2]]))
            except IndexError:
                pass
    return kinds.pop() if len(kinds) == 1 else None


def run(repo, run, tier):
    from .common import readonly
    readonly(repo, run, "C15.6", OPT, ["hybrj", "newtontrustregion", "nonlinear_roots"], "the nonlinear solvers")
    run.assumptions += ["NOT decided: the 'modest multiple' constant of the residual bound",
                        "scipy.optimize.root's own success flag is taken as given (external contract)",
                        "kinds: x, dx, dxn, trust_region, xtol are in the unit of the unknown (X); F*, Fn*, fun(.) are residuals (G)"]
    success(repo, run)
    slots(repo, run)
    shape(repo, run)
    acceptance(repo, run)
    step_norm_freshness(repo, run)
    residual_bounds(repo, run)
    linear_solve_failures_surface(repo, run)
    jacobian_layout(repo, run)
    # a finite-difference Jacobian kept between calls differentiates the residual of the call that built it (its additional_args): keyed by everything it depends on, or not kept
    from .common import memo_discipline
    memo_discipline(repo, run, "C15.9", [OPT, "desolver/utilities/utilities.py"], "the solver modules")


def jacobian_layout(repo, run):
    """a reported success means the iteration worked with the Jacobian of the residual: every solver flattens a user Jacobian given as a tensor (shape f.shape + x.shape)
    to the matrix J[i, j] = dF_i/dx_j by ONE reshape to (fdim, xdim), rows = residual components.  Siblings must agree: a reshape to (xdim, fdim), or a transposition
    after it, hands the dogleg J^T; on a non-symmetric system the trust region then shrinks below xtol far from any root, and the run ends as a 'success'."""
    rid = run.rule("C15.10", "the tensor form of a user Jacobian is flattened by reshape(., (fdim, xdim)) with no transposition, in every solver alike (sibling agreement)", floor=3)
    n = 0
    for q in ("newtontrustregion", "hybrj", "nonlinear_roots"):
        fn = repo.get(OPT, q)
        for inner in [x for x in ast.walk(fn) if isinstance(x, ast.FunctionDef) and x.name == "fun_jac"]:
            for st in [x for x in ast.walk(inner) if isinstance(x, (ast.Assign, ast.Return)) and x.value is not None]:
                calls = [c for c in ast.walk(st.value) if isinstance(c, ast.Call) and fname(c) == "reshape" and len(c.args) == 2 and isinstance(c.args[1], ast.Tuple) and len(c.args[1].elts) == 2]
                for c in calls:
                    if not isinstance(c.args[0], ast.Call):       # role: reshape(<the user's Jacobian evaluated at the point>, (rows, columns))
                        continue
                    n += 1
                    dims = [src(e) for e in c.args[1].elts]
                    transposed = any((isinstance(y, ast.Attribute) and y.attr in ("T", "mT", "H")) or
                                     (isinstance(y, ast.Call) and fname(y) in ("transpose", "swapaxes", "moveaxis", "permute", "einsum")) for y in ast.walk(st.value))
                    ok = dims == ["fdim", "xdim"] and not transposed
                    run.judged(rid, "%s.fun_jac: `%s`" % (q, src(st.value)[:90]), ok=ok)
                    if not ok:
                        run.report("C15.10", OPT, st, "%s flattens a tensor-shaped user Jacobian as `%s` (dims %s%s), not reshape(., (fdim, xdim)): the solver iterates with the transpose of "
                                                      "the Jacobian; on a coupled non-symmetric system with a multi-dimensional unknown the gain ratios are poor, the trust region collapses "
                                                      "below xtol and success is reported far from any root" % (q, src(st.value)[:80], dims, ", transposed" if transposed else ""),
                                   text="%s: tensor Jacobian flattened as %s%s" % (q, dims, " transposed" if transposed else ""))
    if n == 0:
        raise AnalysisError("nonlinear solvers: the tensor-Jacobian branch of fun_jac was not found")


# ------------------------------------------------------------------------------------------------
def _success_tree(fn, name="success"):
    """boolean tree of the final value of `success`, with earlier values of `success` substituted"""
    bt = BoolTracker(tracked={name})
    # run over the whole body in source order (loops once)
    bt.run(fn.body)
    return bt



def _classify_atom(atom_key, leaf, ke, resolve=None):
    """'residual' | 'external' | 'other'"""
    if isinstance(leaf, tuple):
        left, op, right = leaf
        kl, kr = ke.kind(left), ke.kind(right)
        if resolve is not None:
            if isinstance(left, ast.Name):
                kl = resolve(left) or kl
            if isinstance(right, ast.Name):
                kr = resolve(right) or kr
        if isinstance(op, (ast.Lt, ast.LtE)) and kl == "G" and kr in ("M", "X", "U"):
            return "residual"
        if isinstance(op, (ast.Gt, ast.GtE)) and kr == "G" and kl in ("M", "X", "U"):
            return "residual"
        return "other"
    t = src(leaf) if isinstance(leaf, ast.AST) else str(leaf)
    if t in ("res.success",):
        return "external"
    if "in res.message" in t:
        return "external"
    return "other"


def success(repo, run):
    rid = run.rule("C15.1", "for each solver the value handed back in the success slot cannot be true unless a residual test (norm of F against the "
                            "tolerance) or the external MINPACK flag is true: truth table over the atoms of the success expression, with earlier "
                            "assignments substituted", floor=3)
    for q in ("hybrj", "newtontrustregion", "nonlinear_roots"):
        fn = repo.get(OPT, q)
        run.analysed_fn(OPT, fn)
        ke = KindEngine(fn, seeds_for(fn), disciplines=())
        # every assignment `success = ...` in order, substituting the previous tree; callee flags unpacked from results are atoms
        bt = BoolTracker(tracked={"success"})
        stmts = []

        def collect(body):
            for st in body:
                if isinstance(st, ast.Assign) and any(isinstance(t, ast.Name) and t.id == "success" for t in st.targets):
                    stmts.append(st)
                for fld in ("body", "orelse", "finalbody"):
                    sub = getattr(st, fld, None)
                    if isinstance(sub, list) and not isinstance(st, (ast.FunctionDef, ast.ClassDef)):
                        collect(sub)
        collect(fn.body)
        callee_flag = 0
        findings = {}
        trees = []
        for st in stmts:
            bt.run([st])
            tree = bt.trees.get("success")
            if tree is None:
                continue
            trees.append((st, tree))
        # tuple-unpacked `success` (from a callee) resets the tree: handled by BoolTracker (name dropped -> atom `success@k`)
        judged_any = False
        for st, tree in trees:
            atoms = tree_atoms(tree)
            if len(atoms) > 12:
                raise AnalysisError("%s: success expression has too many atoms" % q)
            cls = {}
            for a in atoms:
                leaf = bt.leaves.get(a)
                base = a.split("@")[0]
                if base == "success":
                    cls[a] = "callee"        # flag handed up by a callee / previous external value
                else:
                    cls[a] = _classify_atom(a, leaf, ke, resolve=lambda n, st=st: callee_slot_kind(repo, fn, n.id, st))
            bad = None
            for vals in itertools.product((False, True), repeat=len(atoms)):
                asg = dict(zip(atoms, vals))
                if eval_bool(tree, asg) and not any(asg[a] for a in atoms if cls[a] in ("residual", "external", "callee")):
                    bad = [a for a in atoms if asg[a]]
                    break
            judged_any = True
            run.judged(rid, "%s: %s   atoms %s" % (q, src(st)[:100], {a.split('@')[0]: c for a, c in cls.items()}), ok=bad is None)
            if bad is not None:
                for a in bad:
                    key = a.split("@")[0]
                    if key in findings:
                        continue
                    findings[key] = st
                    leaf = bt.leaves.get(a)
                    node = st
                    run.report("C15.1", OPT, st, "%s can report success through `%s` alone, which tests the size of the step / trust region, not the residual: the "
                                                 "point returned need not solve F(x) = 0" % (q, key), text="%s success via `%s`" % (q, key))
        if not judged_any:
            raise AnalysisError("%s: no assignment to `success` found" % q)
        # the flag that is returned is the tracked one (possibly conjoined with `not failure`)
        rets = [st for st in walk_no_nested(fn) if isinstance(st, ast.Return) and isinstance(st.value, ast.Tuple) and len(st.value.elts) == 2 and isinstance(st.value.elts[1], ast.Tuple)]
        for r in rets:
            flag = r.value.elts[1].elts[0]
            t2 = BoolTracker().tree(flag)
            at = tree_atoms(t2)
            ok = "success" in at
            if ok:
                for vals in itertools.product((False, True), repeat=len(at)):
                    asg = dict(zip(at, vals))
                    if eval_bool(t2, asg) and not asg["success"]:
                        ok = False
            if isinstance(flag, ast.Constant):
                ok = flag.value is False
            run.judged(rid, "%s returns flag `%s`" % (q, src(flag)), ok=ok)
            if not ok:
                run.report("C15.1", OPT, r, "%s hands back `%s` in the success slot, which can be true without the tracked success condition" % (q, src(flag)))


# ------------------------------------------------------------------------------------------------
def slots(repo, run, rule_id="C15.2"):
    rid = run.rule(rule_id, "all return sites of nonlinear_roots give the last slot the same meaning (the residual norm the consumer compares with its tolerance); "
                            "newtontrustregion and hybrj return tuples of fixed arity", floor=3)
    fn = repo.get(OPT, "nonlinear_roots")
    ke = KindEngine(fn, seeds_for(fn), disciplines=())
    rets = [r for r in walk_no_nested(fn) if isinstance(r, ast.Return) and isinstance(r.value, ast.Tuple) and len(r.value.elts) == 2 and isinstance(r.value.elts[1], ast.Tuple)]
    kinds = []
    for r in rets:
        last = r.value.elts[1].elts[-1]
        k = ke.kind(last)
        if isinstance(last, ast.Name):
            k = callee_slot_kind(repo, fn, last.id, r) or k
        kinds.append((k, r, last))
    arities = {len(r.value.elts[1].elts) for r in rets}
    oka = arities == {5}
    run.judged(rid, "nonlinear_roots result tuples have arity %s" % sorted(arities), ok=oka)
    if not oka:
        run.report(rule_id, OPT, rets[0], "nonlinear_roots returns result tuples of different lengths %s: the consumer unpacks (success, iterations, nfev, njev, residual)" % sorted(arities),
                   text="result arity %s" % sorted(arities))
    for k, r, last in kinds:
        ok = k == "G"
        run.judged(rid, "return at line-independent site `%s`: last slot `%s` kind %s" % (src(r)[:60], src(last), k), ok=ok)
        if not ok and k in ("X", "M"):
            # name the branch: which solver call dominates this return
            from ..imodel import path_key
            prev = [c for c in ast.walk(fn) if isinstance(c, ast.Call) and dotted(c.func) in ("hybrj", "newtontrustregion", "scipy.optimize.root") and path_key(c, fn) < path_key(r, fn)]
            branch = dotted(sorted(prev, key=lambda c: path_key(c, fn))[-1].func) if prev else "?"
            run.report(rule_id, OPT, r, text="%s [after %s]" % (src(r), branch), why="this return site puts `%s` (kind %s: %s) in the slot where the other sites return the residual norm ||F||; the implicit "
                                        "integrator accepts a stage solve iff that slot is below its tolerance" % (src(last), k, "a step norm" if k == "X" else "a pure number"))
    for q, n in (("hybrj", 4), ("newtontrustregion", 5)):
        cfn = repo.get(OPT, q)
        run.analysed_fn(OPT, cfn)
        crets = [r for r in walk_no_nested(cfn) if isinstance(r, ast.Return) and isinstance(r.value, ast.Tuple) and len(r.value.elts) == 2 and isinstance(r.value.elts[1], ast.Tuple)]
        ok = bool(crets) and all(len(r.value.elts[1].elts) == n for r in crets)
        run.judged(rid, "%s returns (root, %d-tuple)" % (q, n), ok=ok)
        if not ok:
            run.report(rule_id, OPT, crets[0] if crets else cfn, "%s no longer returns (root, %d-tuple): nonlinear_roots unpacks that shape" % (q, n), text="%s result arity" % q)


# ------------------------------------------------------------------------------------------------
class ShapeClient(Client):
    """state: is the variable holding the root currently in the caller's shape (xshape)?"""

    def __init__(self, names):
        self.names = names

    def transfer(self, st, state):
        state = dict(state)
        if isinstance(st, ast.Assign) and len(st.targets) == 1 and isinstance(st.targets[0], ast.Name):
            v = st.value
            nm = st.targets[0].id
            if isinstance(v, ast.Call) and fname(v) == "reshape" and len(v.args) == 2:
                state[nm] = src(v.args[1]) == "xshape"
            elif isinstance(v, ast.Call) and (dotted(v.func) or "").startswith("transform_to_") and v.args and isinstance(v.args[0], ast.Name):
                state[nm] = state.get(v.args[0].id, False)
            elif isinstance(v, ast.Name):
                state[nm] = state.get(v.id, False)          # a plain copy keeps the shape
            else:
                state[nm] = False
        elif isinstance(st, (ast.Assign, ast.AugAssign, ast.For)):
            tgs = st.targets if isinstance(st, ast.Assign) else [st.target]
            for t in tgs:
                for x in ast.walk(t):
                    if isinstance(x, ast.Name) and isinstance(x.ctx, ast.Store):
                        state[x.id] = False
        state = {k: v for k, v in state.items() if v}          # only the names known to be shaped are kept (finite, canonical)
        return [tuple(sorted(state.items()))]

    def branch(self, test, state):
        return [state], [state]


def shape(repo, run):
    rid = run.rule("C15.3", "on every return path of the three solvers the first element of the result has the shape of the initial guess (reshape(., xshape))", floor=3)
    for q in ("hybrj", "newtontrustregion", "nonlinear_roots"):
        fn = repo.get(OPT, q)
        names = {"x", "root", "__x"}

        class C(ShapeClient):
            def transfer(self, st, state):
                return super().transfer(st, dict(state))
        cl = C(names)
        eng = Engine(cl)
        out = eng.run(fn, [tuple()])
        nret = 0
        for (s, node) in out.ret:
            if node.value is None:
                continue
            if not isinstance(node.value, ast.Tuple):
                # a result passed through from another solver call: it has the shape of THAT call's initial guess, which must be this function's own x0
                v = node.value
                if isinstance(v, ast.Name):
                    blk = getattr(node._parent, "body", [])
                    for fld in ("body", "orelse", "finalbody"):
                        if any(node is b for b in getattr(node._parent, fld, []) or []):
                            blk = getattr(node._parent, fld)
                    prev = [w for w in blk[:[i for i, b in enumerate(blk) if b is node][0]] if isinstance(w, ast.Assign) and any(
                        isinstance(t, ast.Name) and t.id == v.id for t in w.targets)] if any(node is b for b in blk) else []
                    if prev:
                        v = prev[-1].value
                if isinstance(v, ast.Call) and (dotted(v.func) or "") in ("hybrj", "newtontrustregion", "nonlinear_roots"):
                    x0 = fn.args.args[1].arg
                    a1 = v.args[1] if len(v.args) > 1 else next((k.value for k in v.keywords if k.arg == "x0"), None)
                    ok = isinstance(a1, ast.Name) and a1.id == x0 and not any(
                        isinstance(w, (ast.Assign, ast.AugAssign)) and any(isinstance(t, ast.Name) and t.id == x0 for t in ast.walk(w)) for w in walk_no_nested(fn))
                    nret += 1
                    run.judged(rid, "%s: `%s` passes a solver result through (guess given: %s)" % (q, src(node)[:50], src(a1)[:30] if a1 is not None else None), ok=ok)
                    if not ok:
                        run.report("C15.3", OPT, node, "%s returns the result of `%s` as it is although that call was given `%s`, not the caller's own initial guess: the root "
                                                       "comes back with the shape of the transformed guess" % (q, dotted(v.func), src(a1)[:40] if a1 is not None else "?"))
                continue
            first = node.value.elts[0]
            nret += 1
            sd = dict(s)
            if isinstance(first, ast.Name):
                ok = sd.get(first.id, False)
            else:
                ok = isinstance(first, ast.Call) and fname(first) == "reshape" and len(first.args) == 2 and src(first.args[1]) == "xshape"
            run.judged(rid, "%s: `%s` returns `%s` shaped=%s" % (q, src(node)[:50], src(first)[:40], ok), ok=ok)
            if not ok:
                run.report("C15.3", OPT, node, "%s can return the root without reshaping it to the shape of the initial guess (it is kept as a (n, 1) column internally)" % q)
        if nret == 0:
            raise AnalysisError("%s: no tuple return found" % q)


# ------------------------------------------------------------------------------------------------
def _nnf_negated_orderings(tree, neg=False, out=None):
    """collect comparison atoms that occur under an odd number of negations (NaN makes `not (a > b)` true while `a <= b` is false)"""
    out = out if out is not None else []
    k = tree[0]
    if k == "atom":
        if neg and any(" %s " % o in tree[1] for o in ("Lt", "LtE")):
            out.append(tree[1])
    elif k == "not":
        _nnf_negated_orderings(tree[1][0], not neg, out)
    elif k in ("and", "or"):
        for t in tree[1]:
            _nnf_negated_orderings(t, neg, out)
    return out


def acceptance(repo, run):
    rid = run.rule("C15.4", "a trial point replaces the iterate only under a POSITIVELY established progress test (no negated ordering comparison on floating-point data "
                            "in the acceptance condition: with a NaN gain `not (gain <= 0)` accepts a zero step, which the step-size success test then certifies)", floor=2)
    for q, trial in (("hybrj", "__x"), ("newtontrustregion", "__x")):
        fn = repo.get(OPT, q)
        loops = [st for st in fn.body if isinstance(st, ast.For)]
        if not loops:
            raise AnalysisError("%s: iteration loop not found" % q)
        lp = loops[-1]
        # trial points: locals bound in the loop to `x + <step>` (whatever they are called)
        trials = {s2.targets[0].id for s2 in ast.walk(lp) if isinstance(s2, ast.Assign) and isinstance(s2.targets[0], ast.Name) and isinstance(s2.value, ast.BinOp)
                  and isinstance(s2.value.op, ast.Add) and isinstance(s2.value.left, ast.Name) and s2.value.left.id == "x"} | {trial}
        accs = [s2 for s2 in ast.walk(lp) if isinstance(s2, ast.Assign) and src(s2.targets[0]) == "x" and src(s2.value) in trials]
        if not accs:
            raise AnalysisError("%s: acceptance of the trial point (`x = <x + step>`) not found" % (q,))
        acc_st = accs[-1]
        top = acc_st
        while top._parent is not lp:
            top = top._parent
        bt = BoolTracker()
        # boolean locals defined before the acceptance test in the same loop body
        bt.run(lp.body[:lp.body.index(top)])
        from ..sym import path_condition
        tree, _ = path_condition(acc_st, lp, tracker=bt)
        acc = next((a for a in ancestors(acc_st) if isinstance(a, ast.If)), acc_st)
        bad = _nnf_negated_orderings(tree)
        run.judged(rid, "%s accepts the trial point under `%s`" % (q, src(getattr(acc, "test", acc))), ok=not bad)
        if bad:
            run.report("C15.4", OPT, acc, "%s accepts the trial point under a NEGATED ordering test (%s): when the quantity is NaN (0/0 for a zero step) the point is accepted, "
                                          "the step norm is 0 and the step-size criterion reports success at the unchanged initial guess" % (q, bad[0].split("@")[0]),
                       text="%s acceptance under negated comparison `%s`" % (q, bad[0].split("@")[0]))


# ------------------------------------------------------------------------------------------------
def step_norm_freshness(repo, run):
    """the step norm that enters the success expression must be the norm of THIS iteration's step: computed unconditionally in every iteration, after the last
    place where the step is (re)bound and before the success expression.  A norm computed only when a trial point is accepted is, on an iteration without
    progress, the value of an earlier iteration -- or the zero it was initialised with, which the step-size test then certifies as convergence at the initial guess."""
    from ..imodel import path_key
    from ..sym import path_condition, tree_atoms
    rid = run.rule("C15.5", "in each iteration of hybrj / newtontrustregion every step-norm name read by the success expression is (re)computed unconditionally at the "
                            "top level of the loop body from the step name, after the last rebinding of the step and before the success expression", floor=2)
    for q in ("hybrj", "newtontrustregion"):
        fn = repo.get(OPT, q)
        loops = [st for st in fn.body if isinstance(st, ast.For)]
        if not loops:
            raise AnalysisError("%s: iteration loop not found" % q)
        lp = loops[-1]
        succ = [st for st in ast.walk(lp) if isinstance(st, ast.Assign) and src(st.targets[0]) == "success"]
        if not succ:
            raise AnalysisError("%s: success assignment not found in the iteration loop" % q)
        names = {x.id for st in succ for x in ast.walk(st.value) if isinstance(x, ast.Name)}
        # step-norm names: assigned from norm(<step>) somewhere in the function
        norm_defs = {}
        for st in ast.walk(fn):
            if isinstance(st, ast.Assign) and isinstance(st.targets[0], ast.Name) and st.targets[0].id in names:
                calls = [c for c in ast.walk(st.value) if isinstance(c, ast.Call) and (fname(c) or "").split(".")[-1] == "norm" and c.args and isinstance(c.args[0], ast.Name)]
                if calls and calls[0].args[0].id in ("dx", "__dx", "step", "delta"):
                    norm_defs.setdefault(st.targets[0].id, []).append((st, calls[0].args[0].id))
        if not norm_defs:
            raise AnalysisError("%s: no step-norm name is read by the success expression" % q)
        first_succ = min(succ, key=lambda s_: path_key(s_, fn))
        for nm, defs in sorted(norm_defs.items()):
            in_loop = [(st, stepname) for st, stepname in defs if any(a is lp for a in ancestors(st))]
            ok = False
            why = "it is not recomputed inside the iteration loop"
            for st, stepname in in_loop:
                top = st._parent is lp
                before = path_key(st, fn) < path_key(first_succ, fn)
                rebinds = [w for w in ast.walk(lp) if isinstance(w, (ast.Assign, ast.AugAssign)) and any(
                    isinstance(t, ast.Name) and t.id == stepname for tg in (w.targets if isinstance(w, ast.Assign) else [w.target]) for t in ast.walk(tg))
                    and path_key(w, fn) < path_key(first_succ, fn)]
                after_all = all(path_key(w, fn) < path_key(st, fn) for w in rebinds)
                if top and before and after_all:
                    ok = True
                elif not top:
                    why = "it is computed only under a condition (`%s`), so on other iterations the success test reads a stale value" % src(st._parent.test)[:50] if isinstance(
                        st._parent, ast.If) else "it is computed inside a nested block, not on every iteration"
                elif not after_all:
                    why = "the step `%s` is rebound after the norm was taken" % stepname
            run.judged(rid, "%s: step norm `%s` feeding the success test is fresh in every iteration" % (q, nm), ok=ok)
            if not ok:
                run.report("C15.5", OPT, (in_loop[0][0] if in_loop else defs[0][0]), "%s: the step norm `%s` read by the success expression is not the norm of the current iteration's step: %s; "
                                                                                    "success by step size can then be claimed at a point that was never moved (e.g. the initial guess)" % (q, nm, why))


# ------------------------------------------------------------------------------------------------
def residual_bounds(repo, run):
    """'at which the function is small (within a modest multiple of the tolerance)': the residual tests that establish success compare a residual norm with a bound
    that depends on the TOLERANCE only -- c*tol with a modest constant, or the dtype's tolerance epsilon -- never on run-time quantities such as the residual at
    the initial guess (then any point counts as a solution if the start was bad enough)"""
    from ..sym import inline_locals
    from .. import extract
    rid = run.rule("C15.7", "every residual test in a success expression of hybrj / newtontrustregion / nonlinear_roots has the form ||F|| < c*tol (0 < c <= 32) or "
                            "||F|| <= tol_epsilon(dtype): the bound contains no run-time quantity", floor=4)
    n = 0
    for q in ("hybrj", "newtontrustregion", "nonlinear_roots"):
        fn = repo.get(OPT, q)
        env = inline_locals(fn)
        c = Canon(env={})
        for st in ast.walk(fn):
            if not (isinstance(st, ast.Assign) and src(st.targets[0]) == "success"):
                continue
            for cmp_ in [x for x in ast.walk(st.value) if isinstance(x, ast.Compare) and len(x.ops) == 1]:
                l, r, op = cmp_.left, cmp_.comparators[0], cmp_.ops[0]
                if isinstance(op, (ast.Gt, ast.GtE)):
                    l, r = r, l
                elif not isinstance(op, (ast.Lt, ast.LtE)):
                    continue
                lt = src(l)
                is_res = (isinstance(l, ast.Name) and (l.id.startswith("Fn") or l.id in ("prec", "res_norm"))) or (
                    isinstance(l, ast.Call) and (fname(l) or "").split(".")[-1] == "norm" and l.args and ("F" in src(l.args[0]) or "fun" in src(l.args[0])))
                if not is_res:
                    continue
                n += 1
                bound = extract._subst(r, env)
                ok = False
                if isinstance(bound, ast.Call) and fname(bound) in ("tol_epsilon", "epsilon"):
                    ok = True
                else:
                    p = c.poly(bound)
                    tol = Poly.atom("tol")
                    if set(p) == {("tol",)}:
                        k = p[("tol",)]
                        ok = 0 < k <= 32
                run.judged(rid, "%s: %s  [bound %s]" % (q, src(cmp_)[:70], src(bound)[:50]), ok=ok)
                if not ok:
                    run.report("C15.7", OPT, cmp_, "%s: the residual test `%s` compares with `%s`, which is not a modest constant multiple of the tolerance: with a run-time factor "
                                                   "(e.g. the residual at the initial guess) success is claimed at points whose residual is far above the tolerance, including "
                                                   "systems that have no solution" % (q, src(cmp_)[:60], src(bound)[:60]))
    if n == 0:
        raise AnalysisError("nonlinear solvers: no residual test found in a success expression")


# ------------------------------------------------------------------------------------------------
def linear_solve_failures_surface(repo, run):
    """'When it cannot converge it reports failure rather than presenting an arbitrary point as a solution': the dogleg solver obtains its Newton step from the backend's
    linear solve; at an exactly singular Jacobian that solve RAISES, and the exception is the failure report.  A backend that answers a failed solve with some other
    vector (a least-squares / pseudo-inverse step) lets the iteration stall at a stationary point of |F|, where the next step is round-off sized and the step-size
    success tests of the solvers fire."""
    rid = run.rule("C15.8", "the backend's linear-solve helpers (solve_linear_system implementations) let a failed solve propagate: no `except` handler in them returns a value", floor=1)
    n = 0
    for rel, mod in repo.modules.items():
        if not rel.startswith("desolver/backend/"):
            continue
        for fn in [x for x in ast.walk(mod.tree) if isinstance(x, ast.FunctionDef) and "solve" in x.name]:
            n += 1
            run.analysed_fn(rel, fn)
            bad = [r for h in ast.walk(fn) if isinstance(h, ast.ExceptHandler) for b in h.body for r in ast.walk(b) if isinstance(r, ast.Return) and r.value is not None]
            run.judged(rid, "%s::%s: handlers that return a value: %d" % (rel.split("/")[-1], fn.name, len(bad)), ok=not bad)
            for r in bad:
                run.report("C15.8", rel, r, "`%s` answers a failed linear solve with `%s` instead of letting the exception propagate: at an exactly singular Jacobian the built-in dogleg "
                           "solver then receives a least-squares step, stalls at a stationary point of |F| (not a root), and its step-size tests report success there" % (fn.name, src(r.value)[:60]))
    if n == 0:
        raise AnalysisError("no linear-solve helper found in desolver/backend")
