"""C03 — the time span is covered exactly, in order: translation/direction kinds of OdeSystem's time
arithmetic, the commit of one paired row per iteration from the integrator's own increments, the clamp of the
last step, capacity before writes, row 0 immutable, dt oriented toward the call's target."""
import ast

from .. import seeds
from ..flow import Engine, Client
from ..front import AnalysisError, dotted, fname, is_self_attr, src, walk_no_nested, const_value, ancestors, positional, bind_call
from ..imodel import IntegrateModel, DS, dominates, path_key, is_t_buf, is_y_buf
from ..kind import KindEngine
from ..sym import Canon, Poly

LEVEL = "other"
KIND_FUNCS = ["OdeSystem.integrate", "OdeSystem.__fix_dt_dir", "OdeSystem.__alloc_space_steps", "OdeSystem.dt@setter",
              "OdeSystem.t0@setter", "OdeSystem.tf@setter"]


def run(repo, run, tier):
    run.assumptions += ["kinds of parameters/attributes are the declared seeds of DESIGN.md Appendix A",
                        "finiteness of stored values and closeness of the last time to tf in rounding units are not decided"]
    m = IntegrateModel(repo)
    run.analysed_fn(DS, m.fn)
    kinds(repo, run)
    commit(repo, run, m)
    capacity(repo, run, m)
    stores(repo, run, m)
    orientation(repo, run, m)
    restore(repo, run, m)
    exits(repo, run, m)
    at_target(repo, run, m)
    orientation_preserves_magnitude(repo, run, m)
    # 'no recorded step overshoots the target': integrate() bounds only the step it REQUESTS (|dt| <= |tf - t|) and records t + dTime unchecked, so the
    # integrator must never take a step longer than the one it was given -- in particular on the retries of a rejected step
    from .c05 import retry_step
    retry_step(repo, run, rule_id="C03.10", strict=True)
    target_as_given(repo, run, m)
    committed_row_is_written(repo, run, m)
    # 'times and states stay paired ... in one call or several': every exit of integrate() leaves buffers of exactly the recorded rows (trimmed in `finally`): spare rows
    # kept between calls are written in place by the next call, also through a shallow copy of the system that still shares them
    from .c12 import trim
    trim(repo, run, m, rule_id="C03.14")
    # 'times and states stay paired one-to-one': len(system) counts exactly those pairs at every moment (a fresh system, inside a callback), not the allocated rows
    from .c19 import length
    length(repo, run, rule_id="C03.15")
    # 'ends at the target', also through the facade and for decreasing spans: the step-clipping callback of solve_ivp keeps the SIGN of the step (a signed clip into
    # [min_step, max_step] turns a negative step into 0, and integrate()'s `dt != 0` guard then ends the run one step after t0, reporting success)
    from .c18 import clipping
    clipping(repo, run, repo.get(DS, "solve_ivp"), rule_id="C03.13")


# ------------------------------------------------------------------------------------------------
def kinds(repo, run, funcs=KIND_FUNCS, rid="C03.1", disciplines=("AFF", "DIR"), seed=None, floor=60, rel=DS):
    run.rule(rid, "time arithmetic is well-kinded: no abs/sign/scaling/constant-ordering of absolute times (translation "
                  "invariance), no ordering/min/max of absolute times or signed durations outside a direction guard (reflection)", floor=floor)
    for q in funcs:
        fn = repo.get(rel, q)
        run.analysed_fn(rel, fn)
        ke = KindEngine(fn, seed or seeds.ode_seeds(), disciplines=disciplines)
        vs = ke.check()
        bad = {id(v.node) for v in vs}
        for node, ktxt in ke.judged:
            if id(node) not in bad:
                run.judged(rid, "%s: %s  [%s]" % (q, src(node)[:90], ktxt))
        for v in vs:
            run.judged(rid, "%s: %s" % (q, src(v.node)[:90]), ok=False)
            run.report(rid, rel, v.node, "%s discipline: %s (operand kinds %s)" % (v.disc, v.why, "/".join(str(k) for k in (v.kinds or ()))))


# ------------------------------------------------------------------------------------------------
def _abs_arg(node):
    if isinstance(node, ast.Call) and fname(node) in ("abs", "absolute") and len(node.args) == 1:
        return node.args[0]
    return None


def _is_remaining(m, canon, node, sign_free=True):
    """is node == tf - self.__t[self.counter] (or its negative when sign_free)"""
    p = canon.poly(node)
    want = Poly.atom(m.tf) - Poly.atom("self.__t[self.counter]")
    return p == want or (sign_free and p == -want)


def commit(repo, run, m):
    rid = run.rule("C03.2", "each iteration: integrator called at (t[counter], y[counter]) with step in {self.dt, tf - t[counter]}; rows "
                            "[counter+1] = row[counter] + that call's own (dTime, dState); both writes precede counter += 1 with no "
                            "user-code call in between; the final-step test is |dt| > |tf - t|; the loop runs while |tf - t| >= eps", floor=9)
    c = m.canon
    call = m.step_assign.value
    # (a) arguments
    args = [c.text(a) for a in call.args]
    kw = {k.arg: k.value for k in call.keywords}
    step_arg = kw.get("timestep", call.args[4] if len(call.args) > 4 else None)
    ok = args[:4] == ["self.equ_rhs", "self.__t[self.counter]", "self.__y[self.counter]", "self.constants"] and isinstance(step_arg, ast.Name)
    run.judged(rid, "integrator call: %s" % src(call)[:120], ok=ok)
    if not ok:
        run.report("C03.2", DS, call, "the integrator is not called with (rhs, t[counter], y[counter], constants, timestep=<local step>): the step "
                                      "would not start from the last committed row")
        return
    fs = m.final_step()
    okdefs = fs is not None and fs["clamp"] is not None and fs["free"] is not None and len(fs["defs"]) == 2
    run.judged(rid, "local step is `tf - t[counter]` on the final step and `self.dt` otherwise", ok=okdefs)
    if not okdefs:
        defs = fs["defs"] if fs else []
        run.report("C03.2", DS, defs[0] if defs else m.loop, "the step handed to the integrator is not exactly one of {self.dt, tf - t[counter]}: %s" % (
            [src(d) for d in defs]), text="local step definitions: %s" % [src(d.value) for d in defs])
    else:
        okif = fs["complementary"] and fs["flag_ok"]
        run.judged(rid, "clamp and final-step flag are set together under complementary conditions", ok=okif)
        if not okif:
            run.report("C03.2", DS, fs["clamp"], "the clamp `tf - t` and the final-step flag are not set together under one test and its negation",
                       text="final-step if/else structure")
        else:
            m.final_flag = fs["flag"]
            m.final_if = fs["clamp"]._parent
            _final_predicate(run, rid, m, c, fs)
    # (b) row writes
    wy = c.poly(m.commit_y.value)
    wt = c.poly(m.commit_t.value)
    oky = wy == Poly.atom("self.__y[self.counter]") + Poly.atom(m.dState)
    okt = wt == Poly.atom("self.__t[self.counter]") + Poly.atom(m.dTime)
    run.judged(rid, "state row: %s" % src(m.commit_y), ok=oky)
    run.judged(rid, "time row: %s" % src(m.commit_t), ok=okt)
    if not oky:
        run.report("C03.2", DS, m.commit_y, "the new state row is %s, not y[counter] + the increment returned by this iteration's integrator call (%s)" % (wy.canon(), m.dState))
    if not okt:
        run.report("C03.2", DS, m.commit_t, "the new time row is %s, not t[counter] + the step actually taken by this iteration's integrator call (%s): "
                                            "recorded times and states would not pair up" % (wt.canon(), m.dTime))
    # (c) order / atomicity
    keys = {s: path_key(s, m.fn) for s in (m.step_assign, m.commit_y, m.commit_t, m.commit_inc)}
    okorder = keys[m.step_assign] < min(keys[m.commit_y], keys[m.commit_t]) and max(keys[m.commit_y], keys[m.commit_t]) < keys[m.commit_inc]
    run.judged(rid, "order: integrator call < row writes < counter += 1", ok=okorder)
    if not okorder:
        run.report("C03.2", DS, m.commit_inc, "the counter is advanced before both rows are written (or the rows are written before the integrator returned): "
                                              "a failure in between exposes an unwritten or unpaired row", text="commit order")
    top = m.loop.body
    i0 = min(top.index(m.commit_y), top.index(m.commit_t))
    i1 = top.index(m.commit_inc)
    between = top[min(i0, i1):max(i0, i1) + 1]
    bad = [cc for st in between for cc in ast.walk(st) if isinstance(cc, ast.Call) and m.user_call(cc)]
    run.judged(rid, "no user-code call between the first row write and the counter increment", ok=not bad)
    if bad:
        run.report("C03.2", DS, bad[0], "a call that can reach user code sits between the row writes and `counter += 1`: if it raises, times and "
                                        "states are no longer paired")
    # (e) loop guard
    loop_guard(run, rid, m, c, "C03.2")


def loop_guard(run, rid, m, c, rule_id):
    """the step loop continues while the DISTANCE to the target is at least epsilon: a magnitude test, independent of the sign of dt or of the times"""
    guard_ok = False
    for cmp_ in [n for n in ast.walk(m.loop.test) if isinstance(n, ast.Compare) and len(n.ops) == 1]:
        l, r, op = cmp_.left, cmp_.comparators[0], cmp_.ops[0]
        for a, b, ops in ((l, r, (ast.GtE, ast.Gt)), (r, l, (ast.LtE, ast.Lt))):
            aa = _abs_arg(a)
            if aa is not None and _is_remaining(m, c, aa) and isinstance(op, ops) and isinstance(b, ast.Call) and fname(b) in ("tol_epsilon", "epsilon"):
                guard_ok = True
    # ... and the only thing the guard may ask of the step itself is that it is not exactly zero: an absolute floor on |dt| (machine epsilon is a RELATIVE quantity)
    # keeps a legal tiny step - 0.5 fs on a problem posed in seconds - from ever running, and integrate() returns 'completed successfully' at the start time
    for cmp_ in [n for n in ast.walk(m.loop.test) if isinstance(n, ast.Compare) and len(n.ops) == 1]:
        sides = [cmp_.left, cmp_.comparators[0]]
        dts = [s_ for s_ in sides if any(is_self_attr(x, "dt") or is_self_attr(x, "__dt") for x in ast.walk(s_))]
        if not dts or any(_abs_arg(s_) is not None and _is_remaining(m, c, _abs_arg(s_)) for s_ in sides):
            continue
        other = [s_ for s_ in sides if s_ not in dts]
        try:
            zero = bool(other) and const_value(other[0]) == 0
        except ValueError:
            zero = False
        ok_dt = zero and isinstance(cmp_.ops[0], (ast.NotEq, ast.Eq)) and (is_self_attr(dts[0], "dt") or is_self_attr(dts[0], "__dt"))
        run.judged(rid, "step clause of the loop guard: `%s`" % src(cmp_)[:60], ok=ok_dt)
        if not ok_dt:
            run.report(rule_id, DS, cmp_, "the loop guard tests the step against something other than exact zero (`%s`): a floor that is not scaled to the times of the problem stops "
                                          "the loop before it starts for a legal small step (|dt| <= 8.9e-16 in float64: femtosecond steps on a problem posed in seconds), and the "
                                          "call returns with status 'completed successfully' and the grid stuck short of the target" % src(cmp_)[:70], text="loop guard floor on dt")
    run.judged(rid, "loop guard: %s" % src(m.loop.test)[:140], ok=guard_ok)
    if not guard_ok:
        run.report(rule_id, DS, m.loop.test, "the loop condition does not continue while |tf - t[counter]| >= epsilon (a magnitude test): the run can stop short of the "
                                             "target or never reach it, e.g. when dt is not oriented toward this call's target at the time the condition is evaluated")


def _final_predicate(run, rid, m, c, fs, rule_id="C03.2"):
    """the clamp must be taken exactly when the target is finite and |self.dt| > |tf - t| (>= also accepted), whatever the arrangement of
    the branches: the path condition of the clamp is compared by truth table with  not implicit_integration and <magnitude comparison>."""
    from ..sym import equivalent, tree_atoms
    cond, bt = fs["cond"], fs["tracker"]
    atoms = tree_atoms(cond)
    cmp_atoms = []
    for a in atoms:
        leaf = bt.leaves.get(a)
        if isinstance(leaf, tuple):
            left, op, right = leaf
            for x, y, ops in ((left, right, (ast.Gt, ast.GtE)), (right, left, (ast.Lt, ast.LtE))):
                ax, ay = _abs_arg(x), _abs_arg(y)
                if ax is not None and ay is not None and isinstance(op, ops):
                    pa = c.poly(ax)
                    if (pa == Poly.atom("self.dt") or pa == -Poly.atom("self.dt") or c.text(ax) == "self.__dt") and _is_remaining(m, c, ay):
                        cmp_atoms.append(a)
    inf_atoms = [a for a in atoms if a not in cmp_atoms]
    ok = len(cmp_atoms) == 1
    cex = None
    if ok:
        def expected(asg):
            # every other atom may only restrict the clamp to finite targets: the clamp is taken iff the comparison holds and they allow it
            return asg[cmp_atoms[0]]
        # project out the 'finite target' atoms: with the comparison true the clamp must be reachable, with it false it must not be
        import itertools
        from ..sym import eval_bool
        for cv in (False, True):
            reach = False
            for vals in itertools.product((False, True), repeat=len(inf_atoms)):
                asg = dict(zip(inf_atoms, vals))
                asg[cmp_atoms[0]] = cv
                if eval_bool(cond, asg):
                    reach = True
            if reach != cv:
                ok = False
                cex = cv
    test = fs["clamp"]._parent.test if isinstance(fs["clamp"]._parent, ast.If) else fs["clamp"]
    run.judged(rid, "final-step predicate (path condition of the clamp): %s" % src(test)[:140], ok=ok)
    if not ok:
        run.report(rule_id, DS, test, "the test that clamps the last step is not `|self.dt| > |tf - t[counter]|`: a step can overshoot the target, or a "
                                      "short step can be stretched to it")


# ------------------------------------------------------------------------------------------------
def _capacity_test(test, c):
    """recognise  self.counter + k [+ len(x)...] >= len(self.__y)   returns k or None"""
    for cmp_ in [n for n in ast.walk(test) if isinstance(n, ast.Compare) and len(n.ops) == 1]:
        l, r, op = cmp_.left, cmp_.comparators[0], cmp_.ops[0]
        if isinstance(op, (ast.Lt, ast.LtE)):
            l, r = r, l
            op = ast.Gt() if isinstance(op, ast.Lt) else ast.GtE()
        if not isinstance(op, (ast.Gt, ast.GtE)):
            continue
        if c.text(r) not in ("len(self.__y)", "len(self.__t)"):
            continue
        p = c.poly(l) - Poly.atom("self.counter")
        k = p.get((), 0)
        rest = {mm: cf for mm, cf in p.items() if mm != ()}
        if all(cf > 0 and len(mm) == 1 and mm[0].startswith("len(") for mm, cf in rest.items()):
            need = 1 if isinstance(op, ast.GtE) else 2
            if k >= need:
                return int(k)
    return None


def _helper_capacity(repo, call):
    """is ``call`` a call of an OdeSystem method whose body unconditionally runs `if counter + k >= len(buffer): ...allocate...`
    (parameters replaced by the actual arguments)?"""
    try:
        fn = repo.get(DS, "OdeSystem." + dotted(call.func).split(".", 1)[1])
    except (AnalysisError, KeyError):
        return False
    if not isinstance(fn, ast.FunctionDef):
        return False
    params = [a.arg for a in fn.args.args]
    if params and params[0] == "self":
        params = params[1:]
    env = dict(zip(params, call.args))
    for k in call.keywords:
        if k.arg:
            env[k.arg] = k.value
    c = Canon(env=env)
    for st in fn.body:
        if isinstance(st, ast.If) and _capacity_test(st.test, c) is not None and any(
                isinstance(x, ast.Call) and dotted(x.func) == "self.__allocate_soln_space" for x in ast.walk(st)):
            return True
        if any(isinstance(x, (ast.Return, ast.Raise)) for x in ast.walk(st)):
            return False
    return False


def capacity(repo, run, m):
    rid = run.rule("C03.3", "a capacity test `counter + k >= len(buffer)` that allocates dominates every row write", floor=2)
    c = m.canon
    checks = []
    for st in walk_no_nested(m.loop):
        if isinstance(st, ast.If) and _capacity_test(st.test, c) is not None and any(
                isinstance(x, ast.Call) and dotted(x.func) == "self.__allocate_soln_space" for x in ast.walk(st)):
            checks.append(st)
        # the same test moved into a helper method of the class: self.<helper>(args) whose body is the capacity test
        if isinstance(st, ast.Expr) and isinstance(st.value, ast.Call) and (dotted(st.value.func) or "").startswith("self.") and \
                (dotted(st.value.func) or "").count(".") == 1 and _helper_capacity(repo, st.value):
            checks.append(st)
    groups = {}
    for w in m.row_writes:
        groups.setdefault(id(w._parent), []).append(w)
    for w in m.row_writes:
        doms = [ch for ch in checks if dominates(ch, w, m.fn)]
        # no counter increment between the check and the write
        ok = False
        for ch in doms:
            k1, k2 = path_key(ch, m.fn), path_key(w, m.fn)
            inc_between = [i for i in m.counter_incs if isinstance(i.op, ast.Add) and k1 < path_key(i, m.fn) < k2]
            if not inc_between:
                ok = True
        run.judged(rid, "write %s guarded by a capacity test" % src(w.targets[0]), ok=ok)
        if not ok:
            run.report("C03.3", DS, w, "no capacity test `counter + k >= len(buffer)` (followed by an allocation) dominates this row write: "
                                       "step counts beyond the pre-allocated buffer write out of range")


# ------------------------------------------------------------------------------------------------
def stores(repo, run, m):
    rid = run.rule("C03.4", "row stores use index counter+1 only (row 0 = initial condition is never overwritten); buffers are "
                            "allocated with the pinned dtype kwargs of y0", floor=6)
    c = Canon()
    cls = repo.get(DS, "OdeSystem")
    for fn in [n for n in cls.body if isinstance(n, ast.FunctionDef)]:
        for st in ast.walk(fn):
            tgts = []
            if isinstance(st, ast.Assign):
                tgts = st.targets
            elif isinstance(st, ast.AugAssign):
                tgts = [st.target]
            for t in tgts:
                if isinstance(t, ast.Subscript) and (is_t_buf(t.value) or is_y_buf(t.value)):
                    idx = c.poly(t.slice) if not isinstance(t.slice, (ast.Slice, ast.Tuple)) else None
                    ok = idx is not None and idx == Poly.atom("self.counter") + Poly.const(1) and fn is m.fn
                    run.judged(rid, "%s: store %s" % (fn.name, src(t)), ok=ok)
                    if not ok:
                        run.report("C03.4", DS, st, "a trajectory row is stored at index `%s` (in %s): only row counter+1 may be written, so that the "
                                                    "initial condition and committed rows are immutable" % (src(t.slice), fn.name))
    alloc = repo.get(DS, "OdeSystem.__allocate_soln_space")
    run.analysed_fn(DS, alloc)
    zs = [x for x in ast.walk(alloc) if isinstance(x, ast.Call) and fname(x) in ("zeros", "empty", "ones", "full")]
    if not zs:
        raise AnalysisError("anchor missing: buffer constructors in __allocate_soln_space")
    for z in zs:
        ok = any(k.arg is None and src(k.value) == "self.__array_con_kwargs" for k in z.keywords)
        run.judged(rid, "allocation %s" % src(z)[:100], ok=ok)
        if not ok:
            run.report("C03.4", DS, z, "a buffer is allocated without **self.__array_con_kwargs: stored values would not keep the precision of the initial state")
    init = repo.get(DS, "OdeSystem.__init__")
    run.analysed_fn(DS, init)
    kw_ok = False
    for st in walk_no_nested(init):
        if isinstance(st, ast.Assign) and any(is_self_attr(t, "__array_con_kwargs") for t in st.targets):
            v = st.value
            if isinstance(v, ast.Call) and dotted(v.func) == "dict":
                kws = {k.arg: src(k.value) for k in v.keywords}
                kw_ok = kws.get("dtype") == "y0.dtype"
            if isinstance(v, ast.Dict):
                kws = {k.value: src(val) for k, val in zip(v.keys, v.values) if isinstance(k, ast.Constant)}
                kw_ok = kws.get("dtype") == "y0.dtype"
    run.judged(rid, "array kwargs pin dtype=y0.dtype", ok=kw_ok)
    if not kw_ok:
        run.report("C03.4", DS, init, "self.__array_con_kwargs does not pin dtype=y0.dtype", text="array kwargs dtype")
    for st in walk_no_nested(init):
        if isinstance(st, ast.Assign) and any(is_t_buf(t) for t in st.targets):
            ok = any(isinstance(x, ast.Call) and any(k.arg is None and src(k.value) == "self.__array_con_kwargs" for k in x.keywords) for x in ast.walk(st.value)) \
                and "t[0]" in src(st.value)
            run.judged(rid, "initial time row: %s" % src(st), ok=ok)
            if not ok:
                run.report("C03.4", DS, st, "the first time row is not t[0] converted with the pinned dtype kwargs")


# ------------------------------------------------------------------------------------------------
class OrientClient(Client):
    """state: True = self.dt is known to point from t[counter] toward the call's target"""

    def __init__(self, m):
        self.m = m
        self.seen = {}     # id(stmt) -> (node, set of states)
        self.watch = {}    # id(stmt) -> node

    def _orients(self, node):
        for c in ast.walk(node):
            if isinstance(c, ast.Call) and dotted(c.func) == "self.__fix_dt_dir":
                a = positional(c, self.m.fix_params, 2)
                if isinstance(a[0], ast.Name) and a[0].id == self.m.tf and a[1] is not None and src(a[1]) == "self.__t[self.counter]":
                    return True
        return False

    def _disorients(self, st):
        if isinstance(st, (ast.Assign, ast.AugAssign)):
            tg = st.targets if isinstance(st, ast.Assign) else [st.target]
            for t in tg:
                for x in ast.walk(t):
                    if is_self_attr(x, "dt") or is_self_attr(x, "__dt"):
                        return True
        for c in ast.walk(st):
            if isinstance(c, ast.Call):
                d = dotted(c.func) or ""
                if d == "self.integrate":
                    return True
                if isinstance(c.func, ast.Name) and self.m.cb_loop is not None and any(a is self.m.cb_loop for a in ancestors(c)):
                    return True       # a callback may assign ode.dt
        return False

    def transfer(self, st, state):
        if id(st) in self.watch:
            self.seen.setdefault(id(st), (st, set()))[1].add(state)
        if self._orients(st):
            return [True]
        if self._disorients(st):
            return [False]
        return [state]


def _direction_sensitive_dt_reads(m):
    """statements of the step loop that read self.dt in a way whose outcome depends on its sign: not under abs(),
    not compared with zero, not in the progress-bar bookkeeping."""
    out = []
    # the progress bar, by role: the local(s) bound to the result of a tqdm(...) call; stores into its attributes and calls on it are display only
    bars = {t.id for st in walk_no_nested(m.fn) if isinstance(st, ast.Assign) and isinstance(st.value, ast.Call) and (fname(st.value) or "").split(".")[-1] in ("tqdm", "trange")
            for t in st.targets if isinstance(t, ast.Name)}

    def bar_only(st):
        tg = st.targets if isinstance(st, ast.Assign) else ([st.target] if isinstance(st, ast.AugAssign) else [])
        if tg and all(isinstance(t, ast.Attribute) and isinstance(t.value, ast.Name) and t.value.id in bars for t in tg):
            return True
        return isinstance(st, ast.Expr) and isinstance(st.value, ast.Call) and isinstance(st.value.func, ast.Attribute) and \
            isinstance(st.value.func.value, ast.Name) and st.value.func.value.id in bars
    for st in walk_no_nested(m.loop):
        if not isinstance(st, (ast.Assign, ast.AugAssign, ast.Expr, ast.Return)):
            continue
        if bar_only(st):
            continue
        val = st.value if not isinstance(st, ast.Expr) else st.value
        for x in ast.walk(val):
            if (is_self_attr(x, "dt") or is_self_attr(x, "__dt")) and isinstance(x.ctx, ast.Load):
                par = x._parent
                if isinstance(par, ast.Call) and fname(par) in ("abs", "absolute"):
                    continue
                if isinstance(par, ast.Compare) and len(par.ops) == 1 and isinstance(par.ops[0], (ast.Eq, ast.NotEq)):
                    continue
                out.append(st)
                break
    return out


def orientation(repo, run, m):
    rid = run.rule("C03.5", "every direction-sensitive read of self.dt in the step loop (the step handed to the integrator) happens after dt "
                            "was oriented toward THIS call's target (`__fix_dt_dir(tf, t[counter])`) following the last store to dt / "
                            "callback / recursive call, on every path", floor=1)
    cl = OrientClient(m)
    reads = _direction_sensitive_dt_reads(m)
    if not reads:
        raise AnalysisError("anchor missing: no statement of the step loop reads self.dt as the step to take")
    for st in reads:
        cl.watch[id(st)] = st
    eng = Engine(cl)
    eng.run(m.fn, [False])
    setter = repo.get(DS, "OdeSystem.dt@setter")
    run.analysed_fn(DS, setter)
    setter_by_span = any(isinstance(c, ast.Call) and dotted(c.func) == "self.__fix_dt_dir" and
                         [src(a) if a is not None else None for a in positional(c, m.fix_params, 2)] == ["self.tf", "self.t0"] for c in ast.walk(setter))
    for sid, node in cl.watch.items():
        states = cl.seen.get(sid, (node, set()))[1]
        ok = states == {True}
        run.judged(rid, "at `%s`: oriented-toward-target states %s" % (src(node)[:80], sorted(states)), ok=ok)
        if not ok:
            run.report("C03.5", DS, node, "self.dt is read as a signed step on a path where it was last set through the dt setter (which orients it by "
                                          "the system's own span%s), by a callback or by a recursive call, without being re-oriented toward this "
                                          "call's target: integrate(t) against the direction of (t0, tf) steps the wrong way" % (
                                              " (tf, t0)" if setter_by_span else ""),
                       text="dt orientation at `%s`" % src(node)[:100])


def restore(repo, run, m, rule_id="C03.6"):
    """events branch: the step that was rolled back for the event search is re-committed with exactly the values it had"""
    rid = run.rule(rule_id, "when events are tracked the rolled-back step is re-committed with the time and state saved from the committed row "
                            "(next_time = t[counter], next_state = y[counter], read after the commit and before the rollback), followed by counter += 1", floor=2)
    from ..imodel import path_key
    restores = [w for w in m.row_writes if w is not m.commit_t and w is not m.commit_y]
    if not restores:
        run.judged(rid, "no re-commit writes (events branch absent)", nontrivial=False)
        run.judged(rid, "no re-commit writes (events branch absent)", nontrivial=False)
        return
    decs = [i for i in m.counter_incs if isinstance(i.op, ast.Sub)]
    for w in restores:
        buf = "__t" if is_t_buf(w.targets[0].value) else "__y"
        v = w.value
        ok = isinstance(v, ast.Name)
        if ok:
            defs = [st for st in walk_no_nested(m.loop) if isinstance(st, ast.Assign) and isinstance(st.targets[0], ast.Name) and st.targets[0].id == v.id]
            ok = len(defs) == 1 and src(defs[0].value) == "self.%s[self.counter]" % buf
            if ok:
                k = path_key(defs[0], m.fn)
                ok = path_key(m.commit_inc, m.fn) < k and all(k < path_key(d, m.fn) for d in decs) and k < path_key(w, m.fn)
        run.judged(rid, "re-commit %s from `%s`" % (src(w.targets[0]), src(v)), ok=ok)
        if not ok:
            run.report(rule_id, DS, w, "the row re-committed after the event search is not the saved committed row (self.%s[counter] read after the commit and before the "
                                       "rollback): times and states would no longer pair up when events are tracked" % buf)
    incs_after = [i for i in m.counter_incs if isinstance(i.op, ast.Add) and i is not m.commit_inc and any(
        i._parent is w._parent for w in restores)]
    ok = len(incs_after) == 1 and all(path_key(w, m.fn) < path_key(incs_after[0], m.fn) for w in restores)
    run.judged(rid, "re-commit followed by counter += 1 in the same block", ok=ok)
    if not ok:
        run.report(rule_id, DS, restores[0], "the re-committed row is not followed by `counter += 1` in the same block", text="re-commit increment")


def exits(repo, run, m, rule_id="C03.7"):
    """ends at the target: the step loop can be left only because the distance test fails (target reached) or a terminal event was found"""
    rid = run.rule(rule_id, "exit discipline of the step loop: the names its `while` test reads are rebound inside the loop only by the event handler's "
                            "result (terminal event); there is no `break`/`return` out of the step loop other than under that flag: the loop cannot "
                            "stop short of the target for any other reason (e.g. 'the clamped last step was requested', which the integrator may shorten)", floor=2)
    loop = m.loop
    test_names = {n.id for n in ast.walk(loop.test) if isinstance(n, ast.Name)}
    stop_flags = set()
    for st in walk_no_nested(loop):
        tg = st.targets if isinstance(st, ast.Assign) else ([st.target] if isinstance(st, (ast.AugAssign, ast.AnnAssign)) else [])
        if isinstance(st, ast.For):
            tg = [st.target]
        names = {x.id for t in tg for x in ast.walk(t) if isinstance(x, ast.Name) and isinstance(x.ctx, ast.Store)} & test_names
        if isinstance(st, (ast.For,)) and st is not loop:
            names = {x.id for x in ast.walk(st.target) if isinstance(x, ast.Name)} & test_names
        if not names or any(st is b for b in [loop]):
            continue
        from_handler = isinstance(st, ast.Assign) and isinstance(st.value, ast.Call) and dotted(st.value.func) == "handle_events"
        for nme in sorted(names):
            run.judged(rid, "loop-test name `%s` rebound by `%s`" % (nme, src(st)[:80]), ok=from_handler)
            if from_handler:
                stop_flags.add(nme)
            else:
                run.report(rule_id, DS, st, "`%s`, which the step loop's test reads, is rebound inside the loop by something other than the event handler's "
                                            "result: the loop can end although the target was not reached (the integrator may have shortened the step)" % nme)
    # break / return leaving the loop
    from ..sym import path_condition, tree_atoms
    for st in walk_no_nested(loop):
        if isinstance(st, (ast.Break, ast.Return)):
            inner = next((a for a in ancestors(st) if isinstance(a, (ast.For, ast.While))), None)
            if isinstance(st, ast.Break) and inner is not loop:
                continue
            pc, _ = path_condition(st, loop)
            ats = {a.split("@")[0] for a in tree_atoms(pc)}
            ok = bool(ats & stop_flags)
            run.judged(rid, "`%s` out of the step loop under %s" % (src(st)[:40], sorted(ats)), ok=ok)
            if not ok:
                run.report(rule_id, DS, st, "the step loop is left by `%s` under a condition that is not the terminal-event flag" % src(st)[:40])
    run.judged(rid, "stop flags of the step loop: %s" % sorted(stop_flags), ok=True)
    # each stop flag is initialised False before the loop
    for nme in sorted(stop_flags):
        init = [st for st in walk_no_nested(m.fn) if isinstance(st, ast.Assign) and any(isinstance(t, ast.Name) and t.id == nme for t in st.targets)
                and path_key(st, m.fn) < path_key(loop, m.fn)]
        ok = bool(init) and all(isinstance(st.value, ast.Constant) and st.value.value is False for st in init)
        run.judged(rid, "`%s` starts False" % nme, ok=ok)
        if not ok:
            run.report(rule_id, DS, init[0] if init else loop, "the stop flag `%s` is not initialised to False before the step loop" % nme, text="stop flag initial value")


def at_target(repo, run, m):
    """ends at the target to within a few rounding units: integrate() may decline to step only when it already IS at the target at rounding level"""
    rid = run.rule("C03.8", "every `return` of integrate() that precedes the step loop (no step taken, status untouched) is guarded by |tf - t[counter]| < k * machine epsilon "
                            "of the state's dtype (k a small constant): a looser or relative closeness test (allclose / isclose) leaves the grid short of the target silently", floor=1)
    c = m.canon
    kl = path_key(m.loop, m.fn)
    rets = [st for st in walk_no_nested(m.fn) if isinstance(st, ast.Return) and path_key(st, m.fn) < kl]
    if not rets:
        run.judged(rid, "no early return before the step loop", nontrivial=False)
        return
    from ..sym import path_condition, tree_atoms, BoolTracker
    for r in rets:
        bt = BoolTracker(canon=c)
        pc, _ = path_condition(r, m.fn, tracker=bt)
        atoms = tree_atoms(pc)
        good = []
        for a in atoms:
            leaf = bt.leaves.get(a)
            if isinstance(leaf, tuple):
                left, op, right = leaf
                for x, y, ops in ((left, right, (ast.Lt, ast.LtE)), (right, left, (ast.Gt, ast.GtE))):
                    ax = _abs_arg(x)
                    if ax is None or not isinstance(op, ops) or not _is_remaining(m, c, ax):
                        continue
                    # y: [k *] D.epsilon(...) / D.tol_epsilon(...)
                    eps_calls = [cc for cc in ast.walk(y) if isinstance(cc, ast.Call) and fname(cc) in ("epsilon", "tol_epsilon")]
                    others = [n for n in ast.walk(y) if isinstance(n, ast.Name) and not any(n is z for cc in eps_calls for z in ast.walk(cc))]
                    consts = []
                    for n in ast.walk(y):
                        if isinstance(n, ast.Constant) and isinstance(n.value, (int, float)) and not any(n is z for cc in eps_calls for z in ast.walk(cc)):
                            consts.append(n.value)
                    if len(eps_calls) == 1 and not others and all(0 < v <= 1024 for v in consts):
                        good.append(a)
        ok = len(atoms) == 1 and len(good) == 1
        run.judged(rid, "early return under %s" % [a.split("@")[0][:80] for a in atoms], ok=ok)
        if not ok:
            run.report("C03.8", DS, r, "integrate() returns without stepping under a condition that is not `|tf - t[counter]| < k*epsilon(dtype)` (atoms: %s): a target that is "
                                       "merely close to the current time is never reached, and the call still counts as successful" % ([a.split("@")[0][:70] for a in atoms],))


def orientation_preserves_magnitude(repo, run, m, rule_id="C03.9"):
    """ends at the target: the re-orientation of the step toward the target may only change the SIGN of dt.  `abs(dt) * sign(t1 - t0)` is a sign flip for t1 != t0
    but the ZERO step for t1 == t0 (sign(0) = 0): the loop guard `dt != 0` then ends the run where it stands, successfully."""
    rid = run.rule(rule_id, "__fix_dt_dir stores only `self.__dt` or `-self.__dt` (a sign flip that cannot produce a zero step from a non-zero one)", floor=1)
    fix = repo.get(DS, "OdeSystem.__fix_dt_dir")
    run.analysed_fn(DS, fix)
    sts = [st for st in ast.walk(fix) if isinstance(st, (ast.Assign, ast.AugAssign)) and any(
        is_self_attr(t, "__dt") or is_self_attr(t, "dt") for t in (st.targets if isinstance(st, ast.Assign) else [st.target]))]
    if not sts:
        raise AnalysisError("__fix_dt_dir does not store the step")
    for st in sts:
        ok = isinstance(st, ast.Assign) and src(st.value) in ("-self.__dt", "self.__dt", "-1 * self.__dt", "self.__dt * -1", "-1.0 * self.__dt")
        run.judged(rid, "__fix_dt_dir: %s" % src(st), ok=ok)
        if not ok:
            run.report(rule_id, DS, st, "__fix_dt_dir computes the oriented step as `%s` instead of flipping the sign of the stored one: when the two times coincide (the run is "
                                        "exactly at the constructor's tf, or t0 == tf) the factor sign(0) = 0 makes the step zero, the step loop's `dt != 0` guard ends the run "
                                        "short of the target and later calls divide by it" % src(st.value if isinstance(st, ast.Assign) else st))


# ------------------------------------------------------------------------------------------------
FIXED_PRECISION = {"float", "int", "float64", "float32", "float16", "double", "single", "half"}


def target_as_given(repo, run, m):
    """'ends at the target to within a few rounding units' in the precision of the initial state: the target handed to integrate(t) must reach the time
    arithmetic unchanged.  A conversion to a FIXED precision (float(t), numpy.float64(t), asarray(t, dtype='float64')) rounds a longdouble target to the
    nearest double: the run then ends hundreds of extended-precision rounding units away from the requested time, and reports success."""
    rid = run.rule("C03.11", "the local bound to the call's target is the parameter itself (or a conversion whose dtype is taken from the system's own arrays): "
                             "no conversion of the target to a fixed precision (float(), numpy.float64(), dtype='float64')", floor=1)
    for st, conv in m.tf_bindings:
        if conv is None:
            run.judged(rid, "`%s`: target used as given" % src(st)[:80])
            continue
        f = (fname(conv) or dotted(conv.func) or "").split(".")[-1]
        fixed = f in FIXED_PRECISION
        for k in conv.keywords:
            if k.arg == "dtype":
                tail = (src(k.value).strip("'\"").split(".")[-1])
                if isinstance(k.value, ast.Constant) or tail in FIXED_PRECISION:
                    fixed = True
        for a in conv.args[1:]:
            if isinstance(a, ast.Constant) and isinstance(a.value, str) and a.value in FIXED_PRECISION or src(a).split(".")[-1] in FIXED_PRECISION:
                fixed = True
        run.judged(rid, "`%s`: conversion %s" % (src(st)[:80], "to a fixed precision" if fixed else "with a dtype taken from the system"), ok=not fixed)
        if fixed:
            run.report("C03.11", DS, st, "the target of integrate(t) is converted with `%s`, a fixed precision: for a system whose state is wider than that (longdouble) the "
                       "target is rounded (e.g. 1/3 in longdouble -> the nearest double), the run ends ~1e2..1e3 rounding units of the state's precision away from "
                       "the requested time and still reports success; the recorded grid no longer 'ends at the target to within a few rounding units'" % src(conv)[:60])


# ------------------------------------------------------------------------------------------------
class RowClient(Client):
    """state (t_ok, y_ok): rows counter+1 of the time / state buffers hold the step that the next `counter += 1` commits"""

    def __init__(self, m, alloc_keeps_all):
        self.m = m
        self.alloc_keeps_all = alloc_keeps_all
        self.bad = {}

    def transfer(self, st, state):
        t_ok, y_ok = state
        if isinstance(st, ast.Assign):
            for tg in st.targets:
                if isinstance(tg, ast.Subscript) and (is_t_buf(tg.value) or is_y_buf(tg.value)):
                    idx = Canon().poly(tg.slice) if not isinstance(tg.slice, (ast.Slice, ast.Tuple)) else None
                    if idx is not None and idx == Poly.atom("self.counter") + Poly.const(1):
                        if is_t_buf(tg.value):
                            t_ok = True
                        else:
                            y_ok = True
        if isinstance(st, ast.AugAssign) and is_self_attr(st.target, "counter"):
            k = None
            try:
                k = const_value(st.value)
            except ValueError:
                pass
            if isinstance(st.op, ast.Add) and k == 1:
                if not (t_ok and y_ok):
                    self.bad.setdefault(id(st), (st, set()))[1].add((t_ok, y_ok))
                return [(False, False)]
            if isinstance(st.op, ast.Sub) and k == 1:
                return [(True, True)]          # the row above the new counter is the one that was just committed
            return [(False, False)]
        for c in ast.walk(st):
            if isinstance(c, ast.Call):
                d = dotted(c.func) or ""
                if d == "self.integrate":
                    return [(False, False)]
                if d in ("self.__allocate_soln_space", "self.__trim_soln_space") and not self.alloc_keeps_all.get(d.split(".")[-1], False):
                    t_ok = y_ok = False
        return [(t_ok, y_ok)]


def committed_row_is_written(repo, run, m):
    """'times and states stay paired one-to-one ... however many steps are taken' (steps beyond the pre-allocated buffer included): every `counter += 1` commits a row
    that holds this iteration's step.  The fact 'rows counter+1 are written' is established by the two row stores, survives a roll-back (`counter -= 1`: the row
    above is the one just committed), and survives a re-allocation only if the allocator carries over ALL rows of the old buffers (fact read from the allocator:
    `concatenate([old, new])` does, copying `[:counter + 1]` into a fresh array does not)."""
    rid = run.rule("C03.12", "every `counter += 1` of the step loop is reached with rows counter+1 of both buffers written in this iteration (flow analysis; a roll-back keeps "
                             "the fact, a buffer re-allocation keeps it only if the allocator preserves every row of the old buffer)", floor=2)
    keeps = {}
    for name in ("__allocate_soln_space", "__trim_soln_space"):
        fn = repo.maybe(DS, "OdeSystem." + name)
        if fn is None:
            continue
        run.analysed_fn(DS, fn)
        ok_all = True
        for st in walk_no_nested(fn):
            if isinstance(st, ast.Assign) and any(is_t_buf(t) or is_y_buf(t) for t in st.targets):
                v = st.value
                buf = src(st.targets[0])
                whole = False
                if isinstance(v, ast.Call) and fname(v) in ("concatenate", "cat", "vstack", "append") and v.args:
                    a0 = v.args[0]
                    first = a0.elts[0] if isinstance(a0, (ast.List, ast.Tuple)) and a0.elts else a0
                    whole = src(first) == buf
                if isinstance(v, ast.BinOp) and isinstance(v.op, ast.Add) and src(v.left) == buf:
                    whole = True
                if name == "__trim_soln_space":
                    whole = whole or (isinstance(v, ast.Subscript) and src(v.value) == buf)       # trimming happens at the exits of integrate(), after the last commit
                ok_all = ok_all and whole
        keeps[name] = ok_all
        run.judged(rid, "%s %s" % (name, "carries over every row of the old buffers" if ok_all else "does NOT carry over every row of the old buffers"), nontrivial=False)
    cl = RowClient(m, keeps)
    eng = Engine(cl)
    eng.run(m.fn, [(False, False)])
    incs = [st for st in walk_no_nested(m.loop) if isinstance(st, ast.AugAssign) and is_self_attr(st.target, "counter") and isinstance(st.op, ast.Add)]
    if not incs:
        raise AnalysisError("integrate(): no `counter += 1` in the step loop")
    for st in incs:
        states = cl.bad.get(id(st), (st, set()))[1]
        run.judged(rid, "`%s` at line %d: %s" % (src(st), st.lineno, "rows written on every path" if not states else "reached with (t row, y row) written = %s" % sorted(states)), ok=not states)
        if states:
            run.report("C03.12", DS, st, "`counter += 1` commits row counter+1 on a path where it is not known to hold this iteration's step (time row written: %s, state row written: "
                       "%s): after a roll-back the buffers may have been re-allocated by an allocator that copies only rows [0, counter], so the accepted step comes back as "
                       "zeros (t = 0, y = 0 in the middle of the grid) whenever an event is located in the step that fills the last pre-allocated row"
                       % tuple(sorted(states)[0]), text="commit without row writes at line-independent site `%s` in the %s branch" % (
                           src(st), "event" if any(isinstance(a, ast.If) and "events" in src(a.test) for a in ancestors(st)) else "main"))
