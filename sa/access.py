"""E-ACC: ownership and completeness helpers — transitive attribute write sets of the methods of one class."""
import ast

from .front import AnalysisError, dotted, fname, is_self_attr, src, walk_no_nested

MUTATORS = {"append", "insert", "pop", "extend", "clear", "update", "remove", "add_interpolant", "remove_interpolant", "sort", "reverse"}


class ClassModel:
    def __init__(self, repo, rel, cname):
        self.repo, self.rel, self.cname = repo, rel, cname
        self.cls = repo.get(rel, cname)
        self.methods = {}
        self.setters = {}
        self.getters = set()
        for n in self.cls.body:
            if isinstance(n, ast.FunctionDef):
                q = n._qualname[len(cname) + 1:]
                if q.endswith("@setter"):
                    self.setters[q[:-7]] = n
                elif q.endswith("@deleter"):
                    pass
                else:
                    if any((dotted(d) or "") == "property" for d in n.decorator_list):
                        self.getters.add(n.name)
                    self.methods[n.name] = n
        self._cache = {}

    def direct(self, fn):
        """(writes, calls) of one function body: writes = {(attr path, node)}, calls = [method or 'p@setter' names]"""
        writes, calls = [], []
        for n in walk_no_nested(fn):
            tg = []
            if isinstance(n, ast.Assign):
                tg = n.targets
            elif isinstance(n, (ast.AugAssign, ast.AnnAssign)):
                tg = [n.target]
            elif isinstance(n, ast.Delete):
                tg = n.targets
            for t in tg:
                for x in ([t] if not isinstance(t, (ast.Tuple, ast.List)) else t.elts):
                    base = x
                    while isinstance(base, ast.Subscript):
                        base = base.value
                    if is_self_attr(base):
                        if base.attr in self.setters and base is x:
                            calls.append(base.attr + "@setter")
                        else:
                            writes.append((base.attr, n))
                    elif isinstance(base, ast.Attribute) and is_self_attr(base.value):
                        writes.append((base.value.attr + "." + base.attr, n))
            if isinstance(n, ast.Call):
                f = n.func
                if isinstance(f, ast.Attribute) and is_self_attr(f.value) and f.attr in MUTATORS:
                    writes.append((f.value.attr, n))
                elif isinstance(f, ast.Attribute) and isinstance(f.value, ast.Name) and f.value.id == "self":
                    if f.attr in self.methods:
                        calls.append(f.attr)
                    else:
                        # call of an object held in an attribute: the object may be mutated
                        writes.append((f.attr + "()", n))
        return writes, calls

    def closure(self, name):
        """transitive write set {attr path: [(method, node)]} of method ``name`` ('x@setter' for setters)"""
        if name in self._cache:
            return self._cache[name]
        out = {}
        seen = set()
        stack = [name]
        while stack:
            m = stack.pop()
            if m in seen:
                continue
            seen.add(m)
            fn = self.setters.get(m[:-7]) if m.endswith("@setter") else self.methods.get(m)
            if fn is None:
                continue
            w, c = self.direct(fn)
            for attr, node in w:
                out.setdefault(attr, []).append((m, node))
            stack.extend(c)
        self._cache[name] = out
        return out
