"""E-FLOW: abstract interpretation of one function body over *sets of small abstract states*, following
Python's structured control flow exactly (if / while / for / try-except-else-finally / with / break /
continue / return / raise) with exceptional edges.  Loops are solved by fixpoint over the finite state
set, not by unrolling.

A client supplies a ``Client`` with:
    transfer(stmt, state)         -> iterable of successor states after a *simple* statement completes normally
    branch(test, state)           -> (states_if_true, states_if_false)
    raises(stmt_or_expr, state)   -> iterable of (exc_tag, state) describing exceptional exits of evaluating it
    enter_for(stmt, state)        -> (states_entering_body, states_skipping/exiting)   [default: both = {state}]
States must be hashable.  exc_tag is a string: 'Any' (unknown exception incl. KeyboardInterrupt), or a class
name such as 'FailedToMeetTolerances', 'ValueError'."""
import ast

from .front import AnalysisError, dotted, src


class Out:
    __slots__ = ("normal", "brk", "cont", "ret", "exc")

    def __init__(self):
        self.normal, self.brk, self.cont = set(), set(), set()
        self.ret = set()      # (state, node)
        self.exc = set()      # (state, tag, node)

    def absorb_abrupt(self, o):
        self.brk |= o.brk
        self.cont |= o.cont
        self.ret |= o.ret
        self.exc |= o.exc


class Client:
    def transfer(self, stmt, state):
        return [state]

    def branch(self, test, state):
        return [state], [state]

    def raises(self, node, state):
        return []

    def enter_for(self, stmt, state):
        return [state], [state]

    def on_return(self, stmt, state):
        return state

    def handler_matches(self, handler, tag):
        """Can an exception described by ``tag`` be caught by ``handler``?  returns (may_match, must_match)."""
        if handler.type is None:
            return True, True
        names = []
        t = handler.type
        elts = t.elts if isinstance(t, ast.Tuple) else [t]
        for e in elts:
            if isinstance(e, ast.Starred):
                names.append("?")
            else:
                d = dotted(e)
                names.append(d.split(".")[-1] if d else "?")
        if "BaseException" in names:
            return True, True
        if tag == "Any":
            return True, False
        if tag in names:
            return True, True
        if "Exception" in names and tag not in ("KeyboardInterrupt", "SystemExit", "GeneratorExit"):
            return True, True
        if "?" in names:
            return True, False
        return False, False


class Engine:
    def __init__(self, client, max_iter=200):
        self.c = client
        self.max_iter = max_iter
        self.visits = 0

    def run(self, func, init_states):
        out = self.block(func.body, set(init_states))
        return out

    # ------------------------------------------------------------------------------------------
    def block(self, stmts, states):
        out = Out()
        cur = set(states)
        for st in stmts:
            if not cur:
                break
            o = self.stmt(st, cur)
            out.absorb_abrupt(o)
            cur = o.normal
        out.normal = cur
        return out

    def _simple(self, st, states, out):
        for s in states:
            self.visits += 1
            for tag, es in self.c.raises(st, s):
                out.exc.add((es, tag, st))
            for ns in self.c.transfer(st, s):
                out.normal.add(ns)

    def _cond(self, test, states, out, node):
        t, f = set(), set()
        for s in states:
            self.visits += 1
            for tag, es in self.c.raises(test, s):
                out.exc.add((es, tag, node))
            a, b = self.c.branch(test, s)
            t |= set(a)
            f |= set(b)
        return t, f

    def stmt(self, st, states):
        out = Out()
        if hasattr(self.c, "summarize") and isinstance(st, (ast.For, ast.While, ast.If, ast.With, ast.Try)):
            rest = set()
            for s in states:
                r = self.c.summarize(st, s)
                if r is None:
                    rest.add(s)
                else:
                    self.visits += 1
                    for tag, es in self.c.raises(st, s) if getattr(self.c, "summary_raises", False) else []:
                        out.exc.add((es, tag, st))
                    out.normal |= set(r)
            if not rest:
                return out
            states = rest
            o2 = self._stmt(st, states)
            o2.normal |= out.normal
            o2.exc |= out.exc
            return o2
        return self._stmt(st, states)

    def _stmt(self, st, states):
        out = Out()
        if isinstance(st, (ast.Assign, ast.AugAssign, ast.AnnAssign, ast.Expr, ast.Delete, ast.Assert, ast.Pass,
                           ast.Import, ast.ImportFrom, ast.Global, ast.Nonlocal)):
            self._simple(st, states, out)
        elif isinstance(st, (ast.FunctionDef, ast.ClassDef)):
            out.normal = set(states)
        elif isinstance(st, ast.Return):
            for s in states:
                if st.value is not None:
                    for tag, es in self.c.raises(st.value, s):
                        out.exc.add((es, tag, st))
                out.ret.add((self.c.on_return(st, s), st))
        elif isinstance(st, ast.Raise):
            for s in states:
                tag = "Any"
                if st.exc is not None:
                    e = st.exc.func if isinstance(st.exc, ast.Call) else st.exc
                    d = dotted(e)
                    if d:
                        tag = d.split(".")[-1]
                    # `raise e` re-raising a caught name keeps the tag of the caught exception if known
                    if isinstance(st.exc, ast.Name):
                        tag = "reraise:" + st.exc.id
                elif st.exc is None:
                    tag = "reraise"
                out.exc.add((s, tag, st))
        elif isinstance(st, ast.Break):
            out.brk = set(states)
        elif isinstance(st, ast.Continue):
            out.cont = set(states)
        elif isinstance(st, ast.If):
            t, f = self._cond(st.test, states, out, st)
            ob = self.block(st.body, t)
            oe = self.block(st.orelse, f)
            out.absorb_abrupt(ob)
            out.absorb_abrupt(oe)
            out.normal = ob.normal | oe.normal
        elif isinstance(st, ast.While):
            seen = set()
            work = set(states)
            exits = set()
            it = 0
            while work:
                it += 1
                if it > self.max_iter:
                    raise AnalysisError("fixpoint iteration limit in while loop at line %d" % st.lineno)
                new = work - seen
                seen |= new
                if not new:
                    break
                t, f = self._cond(st.test, new, out, st)
                exits |= f
                ob = self.block(st.body, t)
                out.ret |= ob.ret
                out.exc |= ob.exc
                out.normal |= ob.brk          # break leaves without running else
                work = ob.normal | ob.cont
            oe = self.block(st.orelse, exits)
            out.absorb_abrupt(oe)
            out.normal |= oe.normal
        elif isinstance(st, ast.For):
            for s in states:
                for tag, es in self.c.raises(st.iter, s):
                    out.exc.add((es, tag, st))
            seen = set()
            work = set(states)
            exits = set()
            it = 0
            while work:
                it += 1
                if it > self.max_iter:
                    raise AnalysisError("fixpoint iteration limit in for loop at line %d" % st.lineno)
                new = work - seen
                seen |= new
                if not new:
                    break
                t, f = set(), set()
                for s in new:
                    a, b = self.c.enter_for(st, s)
                    t |= set(a)
                    f |= set(b)
                exits |= f
                ob = self.block(st.body, t)
                out.ret |= ob.ret
                out.exc |= ob.exc
                out.normal |= ob.brk
                work = ob.normal | ob.cont
            oe = self.block(st.orelse, exits)
            out.absorb_abrupt(oe)
            out.normal |= oe.normal
        elif isinstance(st, ast.With):
            cur = set(states)
            for item in st.items:
                for s in cur:
                    for tag, es in self.c.raises(item.context_expr, s):
                        out.exc.add((es, tag, st))
            ob = self.block(st.body, cur)
            out.absorb_abrupt(ob)
            out.normal = ob.normal
        elif isinstance(st, ast.Try):
            body = self.block(st.body, states)
            after = Out()
            after.brk, after.cont, after.ret = set(body.brk), set(body.cont), set(body.ret)
            # else clause runs after a normal body
            oe = self.block(st.orelse, body.normal)
            after.absorb_abrupt(oe)
            after.normal = oe.normal
            # handlers
            for (es, tag, node) in body.exc:
                remaining = True
                for h in st.handlers:
                    may, must = self.c.handler_matches(h, tag if not tag.startswith("reraise") else "Any")
                    if may:
                        hs = self.c.enter_handler(h, es, tag) if hasattr(self.c, "enter_handler") else es
                        oh = self.block(h.body, {hs})
                        # a bare `raise` / `raise e` of the caught name re-raises the caught exception
                        fixed = set()
                        for (s2, t2, n2) in oh.exc:
                            # keep the ORIGIN (the statement of the try body that raised) as the reported node
                            if t2 == "reraise" or (h.name and t2 == "reraise:" + h.name):
                                fixed.add((s2, tag, node))
                            else:
                                fixed.add((s2, t2, node))
                        oh.exc = fixed
                        after.absorb_abrupt(oh)
                        after.normal |= oh.normal
                    if must:
                        remaining = False
                        break
                if remaining:
                    after.exc.add((es, tag, node))
            if st.finalbody:
                # every way out passes through the finally block
                res = Out()
                fn = self.block(st.finalbody, after.normal)
                res.absorb_abrupt(fn)
                res.normal = fn.normal
                for kind in ("brk", "cont"):
                    ss = getattr(after, kind)
                    if ss:
                        fo = self.block(st.finalbody, ss)
                        res.absorb_abrupt(fo)
                        setattr(res, kind, getattr(res, kind) | fo.normal)
                for (s, node) in after.ret:
                    fo = self.block(st.finalbody, {s})
                    res.absorb_abrupt(fo)
                    res.ret |= {(s2, node) for s2 in fo.normal}
                for (s, tag, node) in after.exc:
                    fo = self.block(st.finalbody, {s})
                    res.absorb_abrupt(fo)
                    res.exc |= {(s2, tag, node) for s2 in fo.normal}
                return res
            return after
        else:
            raise AnalysisError("statement kind %s not supported by the flow engine (line %d)" % (type(st).__name__, getattr(st, "lineno", 0)))
        return out


# ------------------------------------------------------------------------------------------------
def tri_eval(test, valuation):
    """Three-valued evaluation of a boolean expression.  ``valuation(node)`` returns True/False/None for
    an atomic sub-expression (anything that is not and/or/not).  Returns a subset of {True, False}."""
    if isinstance(test, ast.BoolOp):
        vals = [tri_eval(v, valuation) for v in test.values]
        if isinstance(test.op, ast.And):
            out = set()
            if all(True in v for v in vals):
                out.add(True)
            if any(False in v for v in vals):
                out.add(False)
            return out
        out = set()
        if any(True in v for v in vals):
            out.add(True)
        if all(False in v for v in vals):
            out.add(False)
        return out
    if isinstance(test, ast.UnaryOp) and isinstance(test.op, ast.Not):
        return {not x for x in tri_eval(test.operand, valuation)}
    if isinstance(test, ast.Constant):
        return {bool(test.value)}
    v = valuation(test)
    if v is None:
        return {True, False}
    return {bool(v)}


def fork(test, state, valuation_for):
    """branch() helper: evaluate ``test`` in ``state`` with valuation_for(state) and return (true_states, false_states)."""
    r = tri_eval(test, valuation_for(state))
    return ([state] if True in r else []), ([state] if False in r else [])


def contains_call(node, pred):
    for n in ast.walk(node):
        if isinstance(n, ast.Call) and pred(n):
            return n
    return None
