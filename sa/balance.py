"""Commit / interpolant balance of OdeSystem.integrate (shared by C06.5, C09.3, C12.4).

With dense output on, every committed step owns the interpolant piece(s) added for it.  The analysis tracks, per
loop iteration,   delta = (pieces added since `pre_length` was read) - (net advance of `counter`)   over all paths of
the function, including the exceptional exits of calls that can reach user code and the recursive call made for a
terminal event (assumed balanced itself: induction on the recursion depth).  delta must be 0 at the end of every
iteration and at every exit.

state = (events_present, added, adv, end_int)"""
import ast

from .flow import Client, Engine, tri_eval
from .front import AnalysisError, dotted, fname, is_self_attr, src, ancestors
from .imodel import IntegrateModel


class BalanceClient(Client):
    def __init__(self, m):
        self.m = m
        self.iter_end = []       # (state, delta) seen at the loop test after an iteration
        self.single_removals = []
        self.pre_name = None
        for st in ast.walk(m.loop):
            if isinstance(st, ast.Assign) and isinstance(st.targets[0], ast.Name) and isinstance(st.value, ast.Call) and \
                    fname(st.value) == "len" and st.value.args and src(st.value.args[0]) == "self.__sol":
                self.pre_name = st.targets[0].id
        self.end_name = None
        if m.handle_call is not None:
            par = m.handle_call._parent
            if isinstance(par, ast.Assign) and isinstance(par.targets[0], ast.Tuple) and len(par.targets[0].elts) == 4:
                e = par.targets[0].elts[2]
                if isinstance(e, ast.Name):
                    self.end_name = e.id
        if self.end_name is None:
            raise AnalysisError("anchor missing: `active, roots, end_int, evs = handle_events(...)` in integrate")

    # -- helpers -------------------------------------------------------------------------------
    def _user_calls(self, node):
        return [c for c in ast.walk(node) if isinstance(c, ast.Call) and self.m.user_call(c) and not (
            (dotted(c.func) or "").endswith("add_interpolant") or (dotted(c.func) or "").endswith("remove_interpolant") or
            dotted(c.func) in ("self.get_step_interpolant", "self.__sol"))]

    def raises(self, node, state):
        if self._user_calls(node):
            return [("Any", state)]
        return []

    def is_removal_loop(self, st):
        """for _ in range(len(self.__sol) - pre): self.__sol.remove_interpolant(..)   -> removes what was added since pre"""
        if not isinstance(st, ast.For) or self.pre_name is None:
            return False
        it = st.iter
        if not (isinstance(it, ast.Call) and dotted(it.func) == "range" and len(it.args) == 1):
            return False
        a = it.args[0]
        if isinstance(a, ast.BinOp) and isinstance(a.op, ast.Sub) and src(a.left) == "len(self.__sol)" and isinstance(a.right, ast.Name) and a.right.id == self.pre_name:
            body_calls = [c for c in ast.walk(st) if isinstance(c, ast.Call)]
            return any((dotted(c.func) or "").endswith("__sol.remove_interpolant") for c in body_calls)
        return False

    def summarize(self, st, state):
        ev, added, adv, end = state
        if self.is_removal_loop(st):
            return [(ev, 0, adv, end)]
        # interpolant bookkeeping only happens when events or dense output are on: with dense output on the branch is taken
        return None

    def transfer(self, st, state):
        ev, added, adv, end = state
        if isinstance(st, ast.AugAssign) and is_self_attr(st.target, "counter"):
            try:
                k = int(ast.literal_eval(st.value))
            except Exception:
                raise AnalysisError("counter changed by a non-constant amount: %s" % src(st))
            adv = adv + k if isinstance(st.op, ast.Add) else adv - k
            if not -2 <= adv <= 3:
                raise AnalysisError("counter advance out of the modelled range")
            return [(ev, added, adv, end)]
        if isinstance(st, ast.Assign):
            if isinstance(st.targets[0], ast.Name) and st.targets[0].id == self.pre_name:
                return [(ev, 0, adv, end)]
            if any(isinstance(c, ast.Call) and dotted(c.func) == "handle_events" for c in ast.walk(st.value)):
                return [(ev, added, adv, True), (ev, added, adv, False)]
            for t in st.targets:
                if isinstance(t, ast.Name) and t.id == self.end_name and isinstance(st.value, ast.Constant):
                    return [(ev, added, adv, bool(st.value.value))]
            if any(is_self_attr(t, "counter") for t in st.targets):
                raise AnalysisError("counter assigned directly in integrate: %s" % src(st))
        if isinstance(st, ast.Expr) and isinstance(st.value, ast.Call):
            d = dotted(st.value.func) or ""
            if d.endswith("__sol.add_interpolant"):
                return [(ev, min(added + 1, 3), adv, end)]
            if d.endswith("__sol.remove_interpolant"):
                # ONE piece is removed.  A step owns one piece for plain methods but several for Richardson-extrapolated ones (dense_output() returns a
                # list), so a single removal does not undo a step's add_interpolant: `added` (in units of steps) is left as it is and the removal
                # is remembered for the report.  Only the counted loop `for _ in range(len(sol) - pre)` removes everything a step added.
                self.single_removals.append(st)
                return [(ev, added, adv, end)]
        return [state]

    def branch(self, test, state):
        ev, added, adv, end = state

        def val(n):
            t = src(n)
            if t == "events is not None":
                return ev
            if t == "events is None":
                return not ev
            if t in ("self.__dense_output",):
                return True
            if isinstance(n, ast.Name) and n.id == self.end_name:
                return end
            return None
        if test is self.m.loop.test:
            # end of an iteration (or first entry): record and normalise
            self.iter_end.append((state, added - adv))
            state = (ev, 0, 0, end)
        r = tri_eval(test, val)
        return ([state] if True in r else []), ([state] if False in r else [])

    def enter_for(self, st, state):
        return [state], [state]


def analyse(repo):
    m = IntegrateModel(repo)
    cl = BalanceClient(m)
    eng = Engine(cl)
    init = [(ev, 0, 0, False) for ev in (False, True)]
    # analyse only the try statement onwards with the loop inside: run the whole function
    out = eng.run(m.fn, init)
    return m, cl, out, eng
