"""Run context: collects judged rule instances and findings, applies the known-findings file,
writes evidence / replay files and prints the interface lines."""
import hashlib
import json
import os
import time

from .front import AnalysisError, norm, qualname_of, src

VERIF = os.path.dirname(os.path.dirname(os.path.abspath(__file__)))
KNOWN_FILE = os.path.join(VERIF, "known_findings.json")


class Finding:
    def __init__(self, prop, rule, file, qual, line, node, why, facts=None):
        self.prop, self.rule, self.file, self.qual = prop, rule, file, qual
        self.line, self.node, self.why, self.facts = line, norm(node), why, facts or {}

    @property
    def key(self):
        return "%s|%s::%s|%s" % (self.rule, self.file, self.qual, self.node)

    def as_dict(self):
        return dict(property=self.prop, rule=self.rule, file=self.file, qualname=self.qual, line=self.line,
                    node=self.node, why=self.why, engine_facts=self.facts)


def load_known():
    if not os.path.exists(KNOWN_FILE):
        return []
    with open(KNOWN_FILE) as fh:
        return json.load(fh)


class Run:
    def __init__(self, prop, tier, level, seed=0):
        self.prop, self.tier, self.level, self.seed = prop, tier, level, seed
        self.t0 = time.time()
        self.findings = []
        self.rules = {}          # rule id -> dict(desc, judged, nontrivial, samples, floor)
        self.analysed = []       # list of "file::qualname"
        self.assumptions = []
        self.trusted = []
        self.notes = []
        self.extra = {}
        self.obligations = 0
        self.discharged = 0

    # -- bookkeeping -------------------------------------------------------------------------
    def rule(self, rid, desc, floor=1):
        self.rules.setdefault(rid, dict(desc=desc, judged=0, nontrivial=0, samples=[], floor=floor, distinct=set()))
        return rid

    def judged(self, rid, what, nontrivial=True, ok=True):
        r = self.rules[rid]
        r["judged"] += 1
        self.obligations += 1
        if ok:
            self.discharged += 1
        text = what if isinstance(what, str) else norm(what)
        if nontrivial and text not in r["distinct"]:
            r["distinct"].add(text)
            r["nontrivial"] += 1
        if len(r["samples"]) < 6:
            r["samples"].append(text[:300])

    def analysed_fn(self, rel, node_or_qual):
        q = node_or_qual if isinstance(node_or_qual, str) else qualname_of(node_or_qual)
        s = "%s::%s" % (rel, q)
        if s not in self.analysed:
            self.analysed.append(s)

    def report(self, rule, rel, node, why, qual=None, text=None, facts=None):
        """Record a violation of ``rule`` at ``node``.  The obligation counted by the matching
        ``judged`` call must have been passed ok=False by the caller."""
        q = qual or qualname_of(node)
        f = Finding(self.prop, rule, rel, q, getattr(node, "lineno", 0), text if text is not None else src(node), why, facts)
        if f.key not in [g.key for g in self.findings]:
            self.findings.append(f)
        return f

    # -- finish ------------------------------------------------------------------------------
    def new_violations(self):
        known_active = set()
        for k in load_known():
            if k.get("property") == self.prop and k.get("status") == "known":
                known_active.add("%s|%s|%s" % (k["rule"], k["where"], norm(k["node"])))
        return [f for f in self.findings if f.key not in known_active]

    def finish(self, partial=False):
        hook = getattr(self, "post_hook", None)
        if hook is not None:
            self.post_hook = None
            hook()
        reported_rules = {f.rule for f in self.findings}
        for rid, r in self.rules.items():
            if partial:
                break           # the rule modules stopped early (see run_rules): floors say nothing about rules that never ran
            # a rule that already reports a violation may have stopped judging early: its floor is not applicable
            if r["judged"] < r["floor"] and rid not in reported_rules:
                msg = "rule %s judged %d instance(s), below its floor of %d (%s): the anchors it looks for have changed shape" % (rid, r["judged"], r["floor"], r["desc"])
                if self.new_violations():
                    # a violation another rule has established stays a violation; this rule's verdict is simply missing
                    self.notes.append("not decided: " + msg[:300])
                    continue
                raise AnalysisError(msg)
        known = [k for k in load_known() if k.get("property") == self.prop]
        known_active = {}
        for k in known:
            if k.get("status") == "known":
                kk = "%s|%s|%s" % (k["rule"], k["where"], norm(k["node"]))
                known_active[kk] = k
        violations, knowns = [], []
        for f in self.findings:
            if f.key in known_active:
                knowns.append((f, known_active[f.key]))
            else:
                violations.append(f)
        os.makedirs(os.path.join(VERIF, "replay"), exist_ok=True)
        lines = []
        for f, k in knowns:
            lines.append("KNOWN-FINDING: property=%s rule=%s %s::%s `%s` -- %s" % (
                self.prop, f.rule, f.file, f.qual, f.node[:160], k.get("what_fails", f.why)))
        for f in violations:
            h = hashlib.sha1(f.key.encode()).hexdigest()[:10]
            path = os.path.join(VERIF, "replay", "%s-%s.json" % (self.prop, h))
            with open(path, "w") as fh:
                json.dump(f.as_dict(), fh, indent=1)
            lines.append("%s:%s %s rule %s: `%s` -- %s" % (f.file, f.line, f.qual, f.rule, f.node[:200], f.why))
            lines.append("VIOLATION property=%s replay=%s" % (self.prop, path))
        self._write_evidence(violations, knowns)
        for ln in lines:
            print(ln)
        tot_j = sum(r["judged"] for r in self.rules.values())
        print("[%s %s] rules=%d instances=%d findings=%d (known=%d, new=%d) functions=%d wall=%.2fs" % (
            self.prop, self.tier, len(self.rules), tot_j, len(self.findings), len(knowns), len(violations),
            len(self.analysed), time.time() - self.t0))
        return 1 if violations else 0

    def _write_evidence(self, violations, knowns):
        rules_out = {}
        samples = []
        evaluations = 0
        nontrivial = 0
        for rid, r in sorted(self.rules.items()):
            rules_out[rid] = dict(rule=r["desc"], instances_judged=r["judged"], distinct_nontrivial=r["nontrivial"],
                                  floor=r["floor"], samples=r["samples"])
            evaluations += r["judged"]
            nontrivial += r["nontrivial"]
            for s in r["samples"][:2]:
                samples.append({"rule": rid, "instance": s})
        undischarged = len(self.findings)
        level = self.level
        if level == "proof" and (undischarged or self.discharged != self.obligations):
            level = "other"      # a known finding is an undischarged obligation: do not call it a proof
        cov = dict(
            evaluations=max(evaluations, 0),
            distinct_nontrivial=nontrivial,
            rule="one evaluation = one rule instance (a folded table and condition, a call site, a kinded operation, "
                 "an abstract path state) judged on this run's parse of /repo; distinct_nontrivial counts instances "
                 "with distinct normalised text whose judgement needed definite facts (not 'unknown')",
            samples=samples[:24] or [{"note": "no instance"}],
            obligations=self.obligations,
            discharged=self.discharged,
            checker_cmd="./check %s --tier %s" % (self.prop, self.tier),
            trusted_base=self.trusted or ["python ast module", "the analyser in /verif/sa"],
            explanation="Static analysis of /repo's working tree (stdlib ast; nothing imported or executed). "
                        "Rules applied: " + "; ".join("%s = %s" % (k, v["rule"]) for k, v in rules_out.items()),
            rules=rules_out,
            analysed_functions=self.analysed,
            known_findings=[dict(rule=f.rule, where="%s::%s" % (f.file, f.qual), node=f.node) for f, _ in knowns],
            new_violations=[f.as_dict() for f in violations],
            notes=self.notes,
        )
        cov.update(self.extra)
        ev = dict(property_id=self.prop, tier=self.tier, seed=int(self.seed), level=level, coverage=cov,
                  assumptions=self.assumptions, wall_s=round(time.time() - self.t0, 3), violations=len(violations))
        os.makedirs(os.path.join(VERIF, "evidence"), exist_ok=True)
        with open(os.path.join(VERIF, "evidence", "%s.json" % self.prop), "w") as fh:
            json.dump(ev, fh, indent=1, default=str)


def run_rules(mod, repo, run, tier):
    """Run a property's rule module.  A violation that a rule has already established stays a violation when a LATER rule of the same property cannot be
    decided (an anchor it needs has changed shape): the run then ends with the VIOLATION line(s) and exit 1, and the undecided remainder is recorded as a
    note.  With no violation established, the analysis error propagates (exit 2): nothing is claimed."""
    from .front import AnalysisError
    try:
        mod.run(repo, run, tier)
    except AnalysisError as e:
        if not run.new_violations():
            raise
        run.notes.append("analysis incomplete after the violation(s) reported: %s" % e)
        print("NOTE property=%s the remaining rules could not be decided on this tree (%s); the violation(s) already established are reported" % (run.prop, str(e)[:200]))
        return run.finish(partial=True)
    return run.finish()


class Rejudged:
    """Proxy around a Run that re-labels the rules of another property's rule function: a clause several properties share is judged by one rule function, and each
    property reports it under its own rule id (``Rejudged(run, {"C17.1": "C07.14"})``); rules not in the map are judged under a private id and dropped, so only the
    shared clause counts for the borrowing property."""

    def __init__(self, run, mapping, note=None):
        object.__setattr__(self, "_run", run)
        object.__setattr__(self, "_map", dict(mapping))
        object.__setattr__(self, "_note", note)
        object.__setattr__(self, "_dropped", set())

    def _id(self, rid):
        if rid in self._map:
            return self._map[rid]
        hidden = "~" + rid
        self._dropped.add(hidden)
        return hidden

    def rule(self, rid, desc, floor=1):
        new = self._id(rid)
        self._run.rule(new, (desc + (" -- " + self._note if self._note else "")), floor=floor if rid in self._map else 0)
        return rid

    def judged(self, rid, what, nontrivial=True, ok=True):
        return self._run.judged(self._id(rid), what, nontrivial=nontrivial, ok=ok)

    def report(self, rule, rel, node, why, qual=None, text=None, facts=None):
        if rule not in self._map:
            return None
        return self._run.report(self._map[rule], rel, node, why, qual=qual, text=text, facts=facts)

    def finish_rejudge(self):
        for h in self._dropped:
            self._run.rules.pop(h, None)

    def __getattr__(self, name):
        return getattr(self._run, name)

    def __setattr__(self, name, value):
        setattr(self._run, name, value)
