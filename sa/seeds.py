"""Kind seeds (DESIGN.md Appendix A): declared kinds of parameters, attributes, call results and dict keys.
Each entry was confirmed by reading the code; locals are never seeded by name."""
from .kind import Seeds

DS = "desolver/differential_system.py"
ITY = "desolver/integrators/integrator_types.py"
TPL = "desolver/integrators/integrator_template.py"
IUT = "desolver/integrators/utilities.py"
OPT = "desolver/utilities/optimizer.py"

STEP_RESULT = ("D", ("D", "dY"))       # integrator protocol: (next step, (dTime, dState))

ODE_ATTRS = {
    "self.__t": "Seq(T)",            # rows in history order
    "self.__y": "Seq(Y)",
    "self.t": "Seq(T)", "self.y": "Seq(Y)",
    "self.__t0": "T", "self.__tf": "T", "self.t0": "T", "self.tf": "T",
    "self.__dt": "D", "self.__dt0": "D", "self.dt": "D",
    "self.counter": "N:step",
    "self.__rtol": "M", "self.__atol": "M",
    "np.inf": "M", "numpy.inf": "M",
}

ODE_CALLS = {
    "self.integrator": STEP_RESULT,
    "self.__alloc_space_steps": "M",
    "len": "M",
    "D.epsilon": "M", "D.tol_epsilon": "M",
}


def ode_seeds(extra_params=None, extra_names=None):
    p = {"t": "T", "tf": "T", "new_dt": "D", "new_t0": "T", "new_tf": "T", "t1": "T", "t0": "T"}
    p.update(extra_params or {})
    return Seeds(params=p, attrs=ODE_ATTRS, calls=ODE_CALLS, names=extra_names or {})


INTEGRATOR_ATTRS = {
    "*.dTime": "D", "*.dState": "dY", "*.initial_time": "T", "*.initial_state": "Y",
    "*.initial_rhs": "F", "*.final_rhs": "F", "*.stage_values": "F",
    "*.tableau_intermediate": "M", "*.tableau_final": "M", "*.rtol": "M", "*.atol": "M",
    "*.final_time": "T", "*.final_state": "Y",
}
SOLVER_DICT = {"timestep": "D", "tau0": "D", "tau1": "D", "diff": "dY", "dState": "dY", "initial_state": "Y",
               "initial_time": "T", "atol": "M", "rtol": "M", "safety_factor": "M", "order": "M",
               "epsilon_last": "M", "epsilon_last_last": "M", "newton_prec0": "M", "newton_prec1": "M",
               "niter0": "M", "niter1": "M", "system_scaling": "U"}
INTEGRATOR_PARAMS = {"initial_time": "T", "initial_state": "Y", "timestep": "D", "t": "T", "y": "Y"}
INTEGRATOR_CALLS = {
    "self.step": STEP_RESULT, "self.update_timestep": ("D", "B"), "self.subdiv_step": STEP_RESULT,
    "self.adaptive_richardson": ("D", ("D", "dY"), "dY"), "self": STEP_RESULT,
    "integrator.update_timestep": ("D", "B"), "self.basis_integrators[]": STEP_RESULT,
    "D.epsilon": "M", "D.tol_epsilon": "M",
}


def integrator_seeds(extra_params=None):
    p = dict(INTEGRATOR_PARAMS)
    p.update(extra_params or {})
    return Seeds(params=p, attrs=INTEGRATOR_ATTRS, calls=INTEGRATOR_CALLS,
                 dictkeys={"solver_dict": SOLVER_DICT})
