"""Front end: load /repo's working tree with the stdlib ``ast`` module, index every class and
function by qualified name, give parent pointers and small resolution helpers.

Nothing here imports or executes the analysed package."""
import ast
import os

REPO = os.environ.get("VERIF_REPO", "/repo")
PKG = "desolver"


class AnalysisError(Exception):
    """The analyser could not do its job (missing anchor, unsupported construct, floor not met).
    Always reported as ANALYSIS-ERROR / exit 2, never as a violation."""


# ------------------------------------------------------------------------------------------------
class Module:
    def __init__(self, rel, path, source):
        self.rel = rel
        self.path = path
        self.source = source
        self.tree = ast.parse(source, filename=path)
        self.index = {}
        self.aliases = {}
        _annotate(self.tree, None)
        self._index(self.tree, "")
        self._collect_aliases()

    def _index(self, node, prefix):
        for child in ast.iter_child_nodes(node):
            if isinstance(child, (ast.FunctionDef, ast.AsyncFunctionDef, ast.ClassDef)):
                name = child.name
                if isinstance(child, ast.FunctionDef):
                    for dec in child.decorator_list:
                        d = dotted(dec)
                        if d and d.endswith(".setter"):
                            name = name + "@setter"
                        elif d and d.endswith(".deleter"):
                            name = name + "@deleter"
                qual = prefix + name
                child._qualname = qual
                child._module = self
                # first definition wins only if same qualname is re-defined identically named (rare)
                self.index.setdefault(qual, child)
                self._index(child, qual + ".")
            else:
                self._index(child, prefix)

    def _collect_aliases(self):
        """module-level ``import x as y`` / ``from a import b as c`` / ``name = dotted.path``."""
        for st in self.tree.body:
            if isinstance(st, ast.Import):
                for a in st.names:
                    self.aliases[a.asname or a.name.split(".")[0]] = a.name if a.asname else a.name.split(".")[0]
            elif isinstance(st, ast.ImportFrom):
                base = ("." * st.level) + (st.module or "")
                for a in st.names:
                    self.aliases[a.asname or a.name] = base + "." + a.name
            elif isinstance(st, ast.Assign) and len(st.targets) == 1 and isinstance(st.targets[0], ast.Name):
                d = dotted(st.value)
                if d:
                    self.aliases[st.targets[0].id] = d


def clone(node):
    """structural copy of an AST (fields and positions only: the analyser's parent / module back-pointers are NOT followed, a
    copy.deepcopy would drag the whole module along through them)"""
    if isinstance(node, list):
        return [clone(x) for x in node]
    if not isinstance(node, ast.AST):
        return node
    new = type(node)()
    for f in node._fields:
        if hasattr(node, f):
            setattr(new, f, clone(getattr(node, f)))
    for a in ("lineno", "col_offset", "end_lineno", "end_col_offset"):
        if hasattr(node, a):
            setattr(new, a, getattr(node, a))
    return new


def _annotate(node, parent):
    node._parent = parent
    for ch in ast.iter_child_nodes(node):
        _annotate(ch, node)


class Repo:
    def __init__(self, root=None):
        self.root = root or REPO
        self.modules = {}
        pkg = os.path.join(self.root, PKG)
        if not os.path.isdir(pkg):
            raise AnalysisError("package directory %s not found" % pkg)
        for dirpath, dirnames, filenames in os.walk(pkg):
            dirnames[:] = sorted(d for d in dirnames if d not in ("tests", "__pycache__"))
            for fn in sorted(filenames):
                if fn.endswith(".py"):
                    path = os.path.join(dirpath, fn)
                    rel = os.path.relpath(path, self.root)
                    with open(path, encoding="utf-8") as fh:
                        src = fh.read()
                    try:
                        self.modules[rel] = Module(rel, path, src)
                    except SyntaxError as e:
                        raise AnalysisError("cannot parse %s: %s" % (rel, e))
        from . import inline
        self.tuple_splits = split_independent_tuple_assignments(self)
        self.aliases_expanded = inline.expand_module_aliases(self)
        self.attr_aliases = inline.expand_attr_aliases(self)
        self.inlined = inline.apply(self)
        self.local_aliases = inline.expand_local_object_aliases(self)
        self.zip_peeled = inline.peel_zip_loops(self)
        self.named_conditions = inline.expand_named_conditions(self)

    def module(self, rel):
        if rel not in self.modules:
            raise AnalysisError("anchor module missing: %s" % rel)
        return self.modules[rel]

    def get(self, rel, qualname):
        m = self.module(rel)
        if qualname not in m.index:
            raise AnalysisError("anchor missing: %s::%s" % (rel, qualname))
        return m.index[qualname]

    def maybe(self, rel, qualname):
        m = self.modules.get(rel)
        return None if m is None else m.index.get(qualname)

    def functions(self, rel):
        m = self.module(rel)
        return [(q, n) for q, n in m.index.items() if isinstance(n, ast.FunctionDef)]


# ------------------------------------------------------------------------------------------------
def dotted(node):
    """'a.b.c' for Name/Attribute chains, else None."""
    parts = []
    while isinstance(node, ast.Attribute):
        parts.append(node.attr)
        node = node.value
    if isinstance(node, ast.Name):
        parts.append(node.id)
        return ".".join(reversed(parts))
    return None


_FACADES = ("D.ar_numpy.", "numpy.", "np.", "D.numpy.", "D.", "math.", "ar_numpy.", "D.autoray.", "torch.")


def fname(call_or_func):
    """Canonical name of the function a call invokes: the numpy-facade prefix is stripped, so
    ``D.ar_numpy.abs``, ``numpy.abs``, ``np.abs`` and ``abs`` all give 'abs';
    ``D.ar_numpy.linalg.norm`` gives 'linalg.norm'; ``self.step`` gives 'self.step'."""
    f = call_or_func.func if isinstance(call_or_func, ast.Call) else call_or_func
    d = dotted(f)
    if d is None:
        if isinstance(f, ast.Attribute):
            return "?." + f.attr
        return None
    for p in _FACADES:
        if d.startswith(p) and len(d) > len(p):
            return d[len(p):]
    return d


def src(node):
    try:
        return ast.unparse(node)
    except Exception:  # pragma: no cover
        return "<%s>" % type(node).__name__


def norm(node_or_text):
    t = node_or_text if isinstance(node_or_text, str) else src(node_or_text)
    return " ".join(t.split())


def enclosing(node, types):
    p = getattr(node, "_parent", None)
    while p is not None and not isinstance(p, types):
        p = getattr(p, "_parent", None)
    return p


def enclosing_function(node):
    return enclosing(node, (ast.FunctionDef, ast.AsyncFunctionDef, ast.Lambda))


def qualname_of(node):
    """Qualified name of the nearest enclosing def/class (or the node itself)."""
    n = node
    while n is not None and not hasattr(n, "_qualname"):
        n = getattr(n, "_parent", None)
    return getattr(n, "_qualname", "<module>")


def walk_no_nested(node, include_lambdas=True):
    """ast.walk that does not descend into nested function/class definitions (the node itself is
    entered even when it is a def)."""
    stack = list(ast.iter_child_nodes(node))
    while stack:
        n = stack.pop()
        yield n
        if isinstance(n, (ast.FunctionDef, ast.AsyncFunctionDef, ast.ClassDef)):
            continue
        if isinstance(n, ast.Lambda) and not include_lambdas:
            continue
        stack.extend(ast.iter_child_nodes(n))


def calls_in(node, nested=True):
    it = ast.walk(node) if nested else walk_no_nested(node)
    return [n for n in it if isinstance(n, ast.Call)]


def is_self_attr(node, attr=None):
    return (isinstance(node, ast.Attribute) and isinstance(node.value, ast.Name) and node.value.id == "self"
            and (attr is None or node.attr == attr))


def const_value(node):
    """Python value of a numeric constant expression (+,-,*,/,**, unary minus) or raise ValueError."""
    if isinstance(node, ast.Constant) and isinstance(node.value, (int, float)) and not isinstance(node.value, bool):
        return node.value
    if isinstance(node, ast.UnaryOp) and isinstance(node.op, ast.USub):
        return -const_value(node.operand)
    if isinstance(node, ast.UnaryOp) and isinstance(node.op, ast.UAdd):
        return const_value(node.operand)
    if isinstance(node, ast.BinOp):
        a, b = const_value(node.left), const_value(node.right)
        if isinstance(node.op, ast.Add):
            return a + b
        if isinstance(node.op, ast.Sub):
            return a - b
        if isinstance(node.op, ast.Mult):
            return a * b
        if isinstance(node.op, ast.Div):
            return a / b
        if isinstance(node.op, ast.Pow):
            return a ** b
        if isinstance(node.op, ast.FloorDiv):
            return a // b
    raise ValueError("not a constant: %s" % src(node))


def stmt_of(node):
    n = node
    while n is not None and not isinstance(n, ast.stmt):
        n = getattr(n, "_parent", None)
    return n


def ancestors(node):
    p = getattr(node, "_parent", None)
    while p is not None:
        yield p
        p = getattr(p, "_parent", None)


def class_mro(repo, rel, cname, _seen=None):
    """Linearised ancestors of a class, resolved by name over the repo's modules (single inheritance
    chains only, which is all the repository uses apart from abc.ABC mix-ins)."""
    out = []
    cur = (rel, cname)
    seen = set()
    while cur and cur not in seen:
        seen.add(cur)
        rel_, c_ = cur
        node = repo.maybe(rel_, c_)
        if node is None:
            break
        out.append((rel_, node))
        nxt = None
        for b in node.bases:
            d = dotted(b)
            if not d or d.endswith("ABC") or d == "object":
                continue
            bname = d.split(".")[-1]
            for r2, m2 in repo.modules.items():
                if bname in m2.index and isinstance(m2.index[bname], ast.ClassDef):
                    nxt = (r2, bname)
                    break
            if nxt:
                break
        cur = nxt
    return out


def resolve_method(repo, rel, cname, meth):
    for r, c in class_mro(repo, rel, cname):
        q = c._qualname + "." + meth
        n = repo.maybe(r, q)
        if n is not None:
            return r, n
    return None, None


def append_loop_as_listcomp(fn, name):
    """``name = []`` followed by ``for T in IT: ...; name.append(E)`` (append unconditional, last statement of the loop body, no
    break/continue/else) is the list comprehension ``[E for T in IT]``: returns that synthetic ListComp (E is the original node),
    else None."""
    defs = [st for st in walk_no_nested(fn) if isinstance(st, ast.Assign) and len(st.targets) == 1 and isinstance(st.targets[0], ast.Name) and st.targets[0].id == name]
    if len(defs) != 1:
        return None
    v = defs[0].value
    if not ((isinstance(v, ast.List) and not v.elts) or (isinstance(v, ast.Call) and dotted(v.func) == "list" and not v.args)):
        return None
    apps = [st for st in walk_no_nested(fn) if isinstance(st, ast.Expr) and isinstance(st.value, ast.Call) and dotted(st.value.func) == name + ".append"]
    other = [x for x in walk_no_nested(fn) if isinstance(x, ast.Attribute) and isinstance(x.value, ast.Name) and x.value.id == name and x.attr != "append"]
    if len(apps) != 1 or other or len(apps[0].value.args) != 1:
        return None
    loop = apps[0]._parent
    if not isinstance(loop, ast.For) or loop.orelse or loop.body[-1] is not apps[0]:
        return None
    if any(isinstance(x, (ast.Break, ast.Continue, ast.Return)) for st in loop.body for x in ast.walk(st)):
        return None
    blk = defs[0]._parent
    body = getattr(blk, "body", [])
    if loop._parent is not blk or defs[0] not in body or loop not in body or body.index(defs[0]) > body.index(loop):
        return None
    lc = ast.ListComp(elt=apps[0].value.args[0], generators=[ast.comprehension(target=loop.target, iter=loop.iter, ifs=[], is_async=0)])
    ast.copy_location(lc, loop)
    lc._parent = loop
    lc._from_loop = loop
    return lc


def bind_call(call, params, skip_self=True):
    """{parameter name: argument node} for ``call`` against the parameter list ``params`` (names, or a FunctionDef): positional and keyword
    arguments are treated alike, so `f(a, b)` and `f(x=a, y=b)` and `f(a, y=b)` bind the same way.  Starred arguments end the positional part.
    Unknown keywords are kept under their own name."""
    if isinstance(params, (ast.FunctionDef, ast.AsyncFunctionDef)):
        names = [a.arg for a in params.args.posonlyargs + params.args.args]
        if skip_self and names and names[0] in ("self", "cls"):
            names = names[1:]
        names += [a.arg for a in params.args.kwonlyargs]
    else:
        names = list(params)
    out = {}
    for i, a in enumerate(call.args):
        if isinstance(a, ast.Starred) or i >= len(names):
            break
        out[names[i]] = a
    for k in call.keywords:
        if k.arg is not None:
            out[k.arg] = k.value
    return out


def positional(call, params, n=None, skip_self=True):
    """the first n arguments of ``call`` in parameter order (None where not given), whether passed by position or by keyword"""
    b = bind_call(call, params, skip_self)
    names = [a.arg for a in params.args.posonlyargs + params.args.args] if isinstance(params, (ast.FunctionDef, ast.AsyncFunctionDef)) else list(params)
    if isinstance(params, (ast.FunctionDef, ast.AsyncFunctionDef)) and skip_self and names and names[0] in ("self", "cls"):
        names = names[1:]
    names = names[:n] if n is not None else names
    return [b.get(nm) for nm in names]


def split_independent_tuple_assignments(repo):
    """`a, b = x, y` where neither x nor y reads a or b (and a, b are plain names) is the two statements `a = x; b = y` in either order: split it, so that
    rules written for single assignments see through the one-line form.  Swaps and dependent forms (`a, b = b, a + b`) are left alone."""
    n = 0
    for rel, m in repo.modules.items():
        changed = False
        for node in ast.walk(m.tree):
            for field in ("body", "orelse", "finalbody"):
                blk = getattr(node, field, None)
                if not (isinstance(blk, list) and blk and isinstance(blk[0], ast.stmt)):
                    continue
                out = []
                for st in blk:
                    if isinstance(st, ast.Assign) and len(st.targets) == 1 and isinstance(st.targets[0], ast.Tuple) and isinstance(st.value, ast.Tuple) and \
                            len(st.targets[0].elts) == len(st.value.elts) and all(isinstance(t, ast.Name) for t in st.targets[0].elts) and \
                            not any(isinstance(v, ast.Starred) for v in st.value.elts):
                        tnames = {t.id for t in st.targets[0].elts}
                        # sequential form a = va; b = vb equals the tuple form iff no later value reads an earlier target (earlier values may read anything:
                        # nothing has been rebound yet when they are evaluated); evaluation order of the values is the same in both forms
                        safe = True
                        seen_t = set()
                        for t, v in zip(st.targets[0].elts, st.value.elts):
                            if {x.id for x in ast.walk(v) if isinstance(x, ast.Name)} & seen_t or any(isinstance(x, (ast.NamedExpr, ast.Await, ast.Yield)) for x in ast.walk(v)):
                                safe = False
                            seen_t.add(t.id)
                        if safe and len(tnames) == len(st.targets[0].elts):
                            for t, v in zip(st.targets[0].elts, st.value.elts):
                                new = ast.Assign(targets=[t], value=v, lineno=st.lineno)
                                ast.copy_location(new, st)
                                out.append(new)
                            changed = True
                            n += 1
                            continue
                    out.append(st)
                setattr(node, field, out)
        if changed:
            _annotate(m.tree, None)
    return n


def semantic_text(repo, node):
    """source text of an expression after spelling-level normalisation: arguments of calls to a function/class defined (uniquely named) in the package are
    written `param=value` in parameter order whether they were passed by position or by keyword; `dict()`/`dict(k=v)`, `list()`, `tuple()` are written as
    literals; `d.get(k, None)` as `d.get(k)`.  Two expressions with the same semantic_text denote the same computation."""
    defs = getattr(repo, "_defs_by_name", None)
    if defs is None:
        defs = {}
        for rel, m in repo.modules.items():
            for q, n in m.index.items():
                if isinstance(n, (ast.FunctionDef, ast.ClassDef)) and "." not in q:
                    defs.setdefault(q, []).append(n)
        repo._defs_by_name = defs

    class T(ast.NodeTransformer):
        def visit_Call(self, c):
            self.generic_visit(c)
            d = dotted(c.func)
            last = d.split(".")[-1] if d else None
            if last == "dict" and d == "dict" and not c.args and all(k.arg for k in c.keywords):
                return ast.Dict(keys=[ast.Constant(value=k.arg) for k in c.keywords], values=[k.value for k in c.keywords])
            if d == "list" and not c.args and not c.keywords:
                return ast.List(elts=[], ctx=ast.Load())
            if d == "tuple" and not c.args and not c.keywords:
                return ast.Tuple(elts=[], ctx=ast.Load())
            if isinstance(c.func, ast.Attribute) and c.func.attr == "get" and len(c.args) == 2 and isinstance(c.args[1], ast.Constant) and c.args[1].value is None and not c.keywords:
                return ast.Call(func=c.func, args=[c.args[0]], keywords=[])
            if last in defs and len(defs[last]) == 1 and not any(isinstance(a, ast.Starred) for a in c.args) and all(k.arg for k in c.keywords):
                tgt = defs[last][0]
                fn = tgt
                if isinstance(tgt, ast.ClassDef):
                    fn = next((x for x in tgt.body if isinstance(x, ast.FunctionDef) and x.name == "__init__"), None)
                if fn is not None and not fn.args.vararg:
                    names = [a.arg for a in fn.args.posonlyargs + fn.args.args]
                    if names and names[0] in ("self", "cls") and isinstance(tgt, ast.ClassDef):
                        names = names[1:]
                    if len(c.args) <= len(names):
                        b = bind_call(c, names)
                        order = {nm: i for i, nm in enumerate(names + [a.arg for a in fn.args.kwonlyargs])}
                        kws = sorted(b.items(), key=lambda kv: order.get(kv[0], 10 ** 6))
                        return ast.Call(func=c.func, args=[], keywords=[ast.keyword(arg=k, value=v) for k, v in kws])
            return c
    new = T().visit(clone(node))
    ast.fix_missing_locations(new)
    return src(new)
