"""E-EIN -- abstract interpretation of array expressions over tensors whose STAGE axes are concrete (a small fixed number of stages) and whose STATE axes are
one abstract block.

A value is a tensor  (axes, data):  `axes` is a tuple of tags -- "D" (the axes of the state, in order), "Dr" (the same axes in REVERSED order; equal to "D" only
for states with at most one axis) or ("S", n) (a concrete axis of length n: stages, table columns) -- and `data` maps the indices of the concrete axes to a
polynomial (sa.sym.Poly) in atoms standing for state-shaped quantities (y0, the stage slopes k0..k2, values returned by the right-hand side) and scalars (h, t0,
table entries).  numpy's broadcasting, reductions, matrix products, transpositions, stacking, reshaping to the stage array's shape, iteration over the leading
axis and indexing are interpreted on that domain.  Two ways of writing a stage formula that denote the same tensor give the SAME value; a formula whose state
axes come out permuted ("Dr" where "D" is needed), or reduced over the wrong axis, gives a definite mismatch that does not depend on any pattern of the source.

Nothing of /repo is executed: the interpreter walks the syntax tree."""
import ast
import itertools

from .front import dotted, fname, is_self_attr, src
from .sym import Poly

NS = 3          # number of stages the stage axis is instantiated with


class Unknown(Exception):
    """the expression is outside the domain: no verdict"""


class AxisError(Exception):
    """definite shape / axis-role mismatch"""


class Tn:
    __slots__ = ("axes", "data")

    def __init__(self, axes, data):
        self.axes = tuple(axes)
        self.data = data        # {index tuple over the concrete axes, in order: Poly}

    @staticmethod
    def scalar(p):
        return Tn((), {(): p})

    def conc(self):
        return [a for a in self.axes if isinstance(a, tuple)]

    def sizes(self):
        return [a[1] for a in self.conc()]

    def indices(self):
        return list(itertools.product(*[range(n) for n in self.sizes()]))

    def same(self, other):
        return self.axes == other.axes and all(not (self.data[i] - other.data[i]) for i in self.indices())

    def __repr__(self):
        return "Tn(%s: %s)" % (self.axes, {k: v.canon() for k, v in list(self.data.items())[:4]})


def _conc_positions(axes):
    return [i for i, a in enumerate(axes) if isinstance(a, tuple)]


def broadcast(x, y, op):
    """elementwise binary operation with numpy's right-aligned broadcasting"""
    ax, ay = list(x.axes), list(y.axes)
    n = max(len(ax), len(ay))
    px, py = [None] * (n - len(ax)) + ax, [None] * (n - len(ay)) + ay
    out = []
    for a, b in zip(px, py):
        if a is None or b is None:
            out.append(a if b is None else b)
        elif a == b:
            out.append(a)
        elif isinstance(a, tuple) and isinstance(b, tuple):
            if a[1] == 1 or b[1] == 1:
                out.append(a if b[1] == 1 else b)
            else:
                raise AxisError("axes of length %d and %d are combined elementwise" % (a[1], b[1]))
        elif {a, b} == {"D", "Dr"}:
            raise AxisError("a quantity with the state's axes in reversed order is combined elementwise with one in the state's own order (equal only for states with at most one axis)")
        else:
            raise AxisError("the state's axes are combined elementwise with a stage / table axis (%s with %s)" % (a, b))
    res = Tn(out, {})

    def pick(t, padded, idx):
        # idx: index tuple over the concrete axes of the result, in order
        pos = _conc_positions(out)
        sel = []
        for k, p_ in enumerate(pos):
            a = padded[p_]
            if a is None or not isinstance(a, tuple):
                continue
            sel.append(0 if a[1] == 1 and out[p_][1] != 1 else idx[k])
        return t.data[tuple(sel)]
    for idx in res.indices():
        res.data[idx] = op(pick(x, px, idx), pick(y, py, idx))
    return res


def reduce_sum(x, axis):
    n = len(x.axes)
    if axis is None:
        raise Unknown("full reduction")
    axis = axis + n if axis < 0 else axis
    if not (0 <= axis < n):
        raise AxisError("reduction over axis %d of a rank-%d value" % (axis, n))
    a = x.axes[axis]
    if not isinstance(a, tuple):
        raise AxisError("the sum runs over the axes of the STATE, not over the stage axis")
    k = _conc_positions(x.axes).index(axis)
    out = Tn(x.axes[:axis] + x.axes[axis + 1:], {})
    for idx in x.indices():
        j = idx[:k] + idx[k + 1:]
        out.data[j] = out.data.get(j, Poly()) + x.data[idx]
    return out


def transpose(x, perm=None):
    n = len(x.axes)
    if perm is None:
        perm = list(range(n))[::-1]
        flip = True
    else:
        flip = False
    new_axes = []
    for p_ in perm:
        a = x.axes[p_]
        if not isinstance(a, tuple) and flip and n > 0:
            a = {"D": "Dr", "Dr": "D"}[a]
        new_axes.append(a)
    cpos = _conc_positions(x.axes)
    new_cpos = [p_ for p_ in perm if p_ in cpos]
    out = Tn(new_axes, {})
    for idx in x.indices():
        m = dict(zip(cpos, idx))
        out.data[tuple(m[p_] for p_ in new_cpos)] = x.data[idx]
    return out


def moveaxis(x, srcax, dst):
    n = len(x.axes)
    srcax = srcax + n if srcax < 0 else srcax
    dst = dst + n if dst < 0 else dst
    order = [i for i in range(n) if i != srcax]
    order.insert(dst, srcax)
    return transpose(x, order)


def matmul(x, y):
    if len(y.axes) == 2 and len(x.axes) >= 1:
        # (..., K) @ (K, N)
        prod = broadcast(Tn(x.axes + (("S", 1),), {i + (0,): v for i, v in x.data.items()}), Tn(y.axes, y.data), lambda a, b: a * b) \
            if False else None
        kx, ky = x.axes[-1], y.axes[0]
        if not (isinstance(kx, tuple) and isinstance(ky, tuple)):
            raise AxisError("a matrix product contracts the state's axes")
        if kx[1] != ky[1]:
            raise AxisError("a matrix product contracts axes of length %d and %d" % (kx[1], ky[1]))
        out = Tn(x.axes[:-1] + (y.axes[1],), {})
        for idx in x.indices():
            for jdx in y.indices():
                if idx[-1] != jdx[0]:
                    continue
                key = idx[:-1] + (jdx[1],)
                out.data[key] = out.data.get(key, Poly()) + x.data[idx] * y.data[jdx]
        return out
    if len(y.axes) == 1 and len(x.axes) >= 1:
        return reduce_sum(broadcast(x, y, lambda a, b: a * b), -1)
    raise Unknown("matrix product of these ranks")


def index_first(x, i):
    a = x.axes[0] if x.axes else None
    if not isinstance(a, tuple):
        raise AxisError("a state-shaped value is indexed / iterated along its first axis as if that were the stage axis")
    i = i + a[1] if i < 0 else i
    if not (0 <= i < a[1]):
        raise AxisError("index %d out of range for an axis of length %d" % (i, a[1]))
    out = Tn(x.axes[1:], {})
    for idx in x.indices():
        if idx[0] == i:
            out.data[idx[1:]] = x.data[idx]
    return out


def index_last(x, i):
    return index_first(moveaxis(x, -1, 0), i)


def slice_axis(x, axis, lo, hi):
    n = len(x.axes)
    axis = axis + n if axis < 0 else axis
    a = x.axes[axis]
    if not isinstance(a, tuple):
        raise AxisError("a slice is taken along the state's axes")
    rng = range(a[1])[slice(lo, hi)]
    k = _conc_positions(x.axes).index(axis)
    out = Tn(x.axes[:axis] + (("S", len(rng)),) + x.axes[axis + 1:], {})
    for idx in x.indices():
        if idx[k] in rng:
            out.data[idx[:k] + (rng.index(idx[k]),) + idx[k + 1:]] = x.data[idx]
    return out


def stack(items, axis):
    if not items:
        raise Unknown("empty stack")
    ax0 = items[0].axes
    for it in items:
        if it.axes != ax0:
            raise AxisError("values of different shapes are stacked")
    n = len(ax0) + 1
    axis = axis + n if axis < 0 else axis
    new_axes = ax0[:axis] + (("S", len(items)),) + ax0[axis:]
    k = len([a for a in ax0[:axis] if isinstance(a, tuple)])
    out = Tn(new_axes, {})
    for j, it in enumerate(items):
        for idx in it.indices():
            out.data[idx[:k] + (j,) + idx[k:]] = it.data[idx]
    return out


# ---------------------------------------------------------------------------------------------------
class Interp:
    """evaluates expressions / simple statements of a stage routine.  ``env``: name -> Tn | int | list of Tn | ('rhs',) ;  ``attrs``: self attribute -> Tn.
    Every call of the right-hand side is recorded in ``self.calls`` as (time tensor, state tensor, node) and returns a fresh state-shaped atom."""

    def __init__(self, env, attrs, rhs_names, stage_shape_texts=()):
        self.env = dict(env)
        self.attrs = dict(attrs)
        self.rhs_names = set(rhs_names)
        self.calls = []
        self.stage_shape_texts = set(stage_shape_texts)
        self.nf = 0
        self.masks = {}

    # -- expressions -------------------------------------------------------------------------------
    def ev(self, e):
        if isinstance(e, ast.Constant):
            if isinstance(e.value, (int, float)) and not isinstance(e.value, bool):
                from fractions import Fraction
                return Tn.scalar(Poly.const(Fraction(repr(e.value)) if isinstance(e.value, float) else e.value))
            raise Unknown("constant %r" % (e.value,))
        if isinstance(e, ast.Name):
            if e.id in self.env:
                return self.env[e.id]
            raise Unknown("name %s" % e.id)
        if isinstance(e, ast.Attribute):
            if is_self_attr(e) and e.attr in self.attrs:
                return self.attrs[e.attr]
            if e.attr == "T":
                return transpose(self.tensor(e.value))
            raise Unknown("attribute %s" % src(e))
        if isinstance(e, ast.UnaryOp) and isinstance(e.op, ast.USub):
            v = self.tensor(e.operand)
            return Tn(v.axes, {k: -p for k, p in v.data.items()})
        if isinstance(e, ast.BinOp):
            if isinstance(e.op, ast.MatMult):
                return matmul(self.tensor(e.left), self.tensor(e.right))
            l, r = self.tensor(e.left), self.tensor(e.right)
            if isinstance(e.op, ast.Add):
                return broadcast(l, r, lambda a, b: a + b)
            if isinstance(e.op, ast.Sub):
                return broadcast(l, r, lambda a, b: a - b)
            if isinstance(e.op, ast.Mult):
                return broadcast(l, r, lambda a, b: a * b)
            if isinstance(e.op, ast.Div):
                if r.axes == () and r.data[()].is_const() and r.data[()].const_value() != 0:
                    k = 1 / r.data[()].const_value()
                    return Tn(l.axes, {i: p.scale(k) for i, p in l.data.items()})
            raise Unknown("operator in %s" % src(e)[:50])
        if isinstance(e, ast.Subscript):
            return self.subscript(e)
        if isinstance(e, ast.Call):
            return self.call(e)
        if isinstance(e, ast.ListComp):
            return self.listcomp(e)
        if isinstance(e, (ast.List, ast.Tuple)):
            return [self.ev(x) for x in e.elts]
        raise Unknown(type(e).__name__)

    def tensor(self, e):
        v = self.ev(e)
        if isinstance(v, int):
            return Tn.scalar(Poly.const(v))
        if not isinstance(v, Tn):
            raise Unknown("not a tensor: %s" % src(e)[:40])
        return v

    def intval(self, e):
        if isinstance(e, ast.Constant) and isinstance(e.value, int):
            return e.value
        if isinstance(e, ast.UnaryOp) and isinstance(e.op, ast.USub):
            return -self.intval(e.operand)
        if isinstance(e, ast.Name) and isinstance(self.env.get(e.id), int):
            return self.env[e.id]
        if isinstance(e, ast.BinOp) and isinstance(e.op, (ast.Add, ast.Sub)):
            a, b = self.intval(e.left), self.intval(e.right)
            return a + b if isinstance(e.op, ast.Add) else a - b
        if isinstance(e, ast.Subscript) and isinstance(e.value, ast.Attribute) and e.value.attr == "shape":
            x = self.tensor(e.value.value)
            k = self.intval(e.slice)
            a = x.axes[k]
            if isinstance(a, tuple):
                return a[1]
            raise Unknown("extent of the state's axes")
        if isinstance(e, ast.Call) and isinstance(e.func, ast.Name) and e.func.id == "len" and len(e.args) == 1:
            x = self.tensor(e.args[0])
            if x.axes and isinstance(x.axes[0], tuple):
                return x.axes[0][1]
            raise Unknown("len of a state-shaped value")
        raise Unknown("index %s" % src(e)[:30])

    def subscript(self, e):
        base = self.ev(e.value)
        sl = e.slice
        if isinstance(base, list):
            return base[self.intval(sl)]
        parts = list(sl.elts) if isinstance(sl, ast.Tuple) else [sl]
        x = base
        # mask selection on the last axis: X[..., m] with m the non-zero support of the coefficients it is multiplied with keeps the sum unchanged
        if parts and isinstance(parts[-1], ast.Name) and parts[-1].id in self.masks:
            rest = parts[:-1]
            if all(isinstance(p_, ast.Constant) and p_.value is Ellipsis for p_ in rest):
                self.masks[parts[-1].id].append(src(e.value))
                return x
        if parts and isinstance(parts[0], ast.Constant) and parts[0].value is Ellipsis:
            # [..., i] / [..., a:b]
            if len(parts) != 2:
                raise Unknown("subscript %s" % src(e)[:40])
            p_ = parts[1]
            if isinstance(p_, ast.Slice):
                return slice_axis(x, -1, None if p_.lower is None else self.intval(p_.lower), None if p_.upper is None else self.intval(p_.upper))
            return index_last(x, self.intval(p_))
        axis = 0
        for p_ in parts:
            if isinstance(p_, ast.Slice):
                if p_.step is not None:
                    raise Unknown("stepped slice")
                if not (p_.lower is None and p_.upper is None):
                    x = slice_axis(x, axis, None if p_.lower is None else self.intval(p_.lower), None if p_.upper is None else self.intval(p_.upper))
                axis += 1
            else:
                x = moveaxis(x, axis, 0) if axis else x
                x = index_first(x, self.intval(p_))
        return x

    def kw(self, e, name, pos=None):
        for k in e.keywords:
            if k.arg == name:
                return k.value
        if pos is not None and len(e.args) > pos:
            return e.args[pos]
        return None

    def call(self, e):
        f = e.func
        nm = f.attr if isinstance(f, ast.Attribute) else (f.id if isinstance(f, ast.Name) else None)
        if isinstance(f, ast.Name) and f.id in self.rhs_names:
            t, y = self.tensor(e.args[0]), self.tensor(e.args[1])
            self.calls.append((t, y, e))
            self.nf += 1
            return Tn(("D",), {(): Poly.atom("f%d" % self.nf)})
        full = fname(e) or nm
        short = (full or "").split(".")[-1]
        if short == "sum":
            ax = self.kw(e, "axis", 1)
            x = self.tensor(e.args[0]) if e.args else self.tensor(f.value)
            return reduce_sum(x, None if ax is None else self.intval(ax))
        if short in ("reshape",):
            x = self.tensor(e.args[0]) if (isinstance(f, ast.Attribute) and dotted(f.value) and not is_self_attr(f.value)) or isinstance(f, ast.Name) else self.tensor(f.value)
            shp = e.args[1] if len(e.args) > 1 else (e.args[0] if isinstance(f, ast.Attribute) and e.args else None)
            if shp is not None and src(shp).replace(" ", "") in self.stage_shape_texts:
                if x.axes == ("D", ("S", NS)) or x.axes == ("F",):
                    return self.env.get("<unflat>", x) if x.axes == ("F",) else x
            if shp is not None and src(shp).replace(" ", "") in ("(-1,)", "-1"):
                self.env["<flat of>"] = x
                return Tn(("F",), {(): Poly.atom("<flat>")})
            raise Unknown("reshape to %s" % (src(shp)[:30] if shp is not None else None))
        if short == "stack":
            items = self.ev(e.args[0])
            ax = self.kw(e, "axis", 1)
            return stack(list(items), 0 if ax is None else self.intval(ax))
        if short == "transpose":
            x = self.tensor(e.args[0]) if e.args and not (isinstance(f, ast.Attribute) and not dotted(f.value)) else self.tensor(f.value)
            axes = self.kw(e, "axes", 1)
            if axes is None:
                return transpose(x)
            raise Unknown("transpose with an explicit permutation")
        if short == "moveaxis":
            return moveaxis(self.tensor(e.args[0]), self.intval(e.args[1]), self.intval(e.args[2]))
        if short == "swapaxes":
            x = self.tensor(e.args[0])
            a, b = self.intval(e.args[1]), self.intval(e.args[2])
            n = len(x.axes)
            a, b = (a + n) % n, (b + n) % n
            perm = list(range(n))
            perm[a], perm[b] = perm[b], perm[a]
            return transpose(x, perm)
        if short in ("matmul", "dot") and len(e.args) == 2:
            return matmul(self.tensor(e.args[0]), self.tensor(e.args[1]))
        if short in ("tensordot",) and len(e.args) >= 2:
            ax = self.kw(e, "axes", 2)
            if ax is not None and isinstance(ax, ast.Constant) and ax.value == 1:
                return matmul(self.tensor(e.args[0]), self.tensor(e.args[1]))
            raise Unknown("tensordot axes")
        if short in ("copy", "clone", "asarray", "array", "ascontiguousarray") and e.args:
            return self.tensor(e.args[0])
        if short == "copy" and isinstance(f, ast.Attribute) and not e.args:
            return self.tensor(f.value)
        if short == "zip":
            seqs = [self.iterate(a) for a in e.args]
            return [tuple(t) for t in zip(*seqs)]
        if short == "enumerate" and len(e.args) == 1:
            return list(enumerate(self.iterate(e.args[0])))
        if short == "range":
            a = [self.intval(x) for x in e.args]
            return list(range(*a))
        raise Unknown("call %s" % src(e)[:50])

    def iterate(self, e):
        v = self.ev(e) if not isinstance(e, list) else e
        if isinstance(v, list):
            return v
        if isinstance(v, Tn):
            a = v.axes[0] if v.axes else None
            if not isinstance(a, tuple):
                raise AxisError("iteration runs over the first axis of a value whose first axis belongs to the state: the stages are not what is iterated (for a "
                                "state with two or more axes the slices are taken across the state, not across the stages)")
            return [index_first(v, i) for i in range(a[1])]
        raise Unknown("iteration over %s" % src(e)[:30])

    def bind(self, target, value):
        if isinstance(target, ast.Name):
            self.env[target.id] = value
        elif isinstance(target, (ast.Tuple, ast.List)):
            vals = list(value) if isinstance(value, (tuple, list)) else None
            if vals is None or len(vals) != len(target.elts):
                raise Unknown("unpacking")
            for t, v in zip(target.elts, vals):
                self.bind(t, v)
        else:
            raise Unknown("target")

    def listcomp(self, e):
        if len(e.generators) != 1 or e.generators[0].ifs:
            raise Unknown("comprehension form")
        g = e.generators[0]
        out = []
        saved = dict(self.env)
        for item in self.iterate(g.iter):
            self.bind(g.target, item)
            out.append(self.ev(e.elt))
        self.env = saved
        return out


# ---------------------------------------------------------------------------------------------------
def rk_env(params):
    """abstract arguments of a stage routine  f(self, next_state, rhs, initial_time, initial_state, timestep, constants)"""
    K = Tn(("D", ("S", NS)), {(j,): Poly.atom("k%d" % j) for j in range(NS)})
    tab = Tn((("S", NS), ("S", NS + 1)), {})
    for i in range(NS):
        tab.data[(i, 0)] = Poly.atom("c%d" % i)
        for j in range(NS):
            tab.data[(i, 1 + j)] = Poly.atom("a%d_%d" % (i, j))
    env = {params[1]: Tn(("F",), {(): Poly.atom("<flat K>")}), "<unflat>": K,
           params[3]: Tn.scalar(Poly.atom("t0")), params[4]: Tn(("D",), {(): Poly.atom("y0")}), params[5]: Tn.scalar(Poly.atom("h"))}
    return env, {"tableau_intermediate": tab, "stage_values": K}, K, tab


def stage_system_verdict(fn):
    """interpret RungeKuttaIntegrator.algebraic_system: -> ('ok', detail) when the returned residual is  K - [f(t0 + c_i h, y0 + h sum_j a_ij k_j)]_i  laid out
    (state axes, stage axis);  ('bad', reason) on a definite deviation (axis roles, wrong argument, wrong slot);  ('unknown', reason) outside the domain."""
    params = [a.arg for a in fn.args.args]
    env, attrs, K, tab = rk_env(params)
    it = Interp(env, attrs, rhs_names=[params[2]], stage_shape_texts={"self.stage_values.shape", "D.ar_numpy.shape(self.stage_values)", "numpy.shape(self.stage_values)"})
    try:
        ret = None
        for st in fn.body:
            if isinstance(st, ast.Assign) and len(st.targets) == 1:
                it.bind(st.targets[0], it.ev(st.value))
            elif isinstance(st, ast.Return):
                v = st.value
                if isinstance(v, ast.Call) and (fname(v) or "").split(".")[-1] == "reshape" and v.args:
                    # the final flattening: what is flattened is the residual
                    inner = v.args[0] if not (isinstance(v.func, ast.Attribute) and not dotted(v.func.value)) else v.func.value
                    ret = it.tensor(inner)
                else:
                    r0 = it.ev(v)
                    ret = it.env.get("<flat of>") if isinstance(r0, Tn) and r0.axes == ("F",) else r0
            elif isinstance(st, ast.Expr):
                continue
            else:
                raise Unknown("statement %s" % type(st).__name__)
        if not isinstance(ret, Tn):
            raise Unknown("no residual returned")
    except AxisError as e:
        return "bad", str(e)
    except Unknown as e:
        return "unknown", str(e)
    if ret.axes != ("D", ("S", NS)):
        return "bad", "the residual has axes %s, not (state axes, stage axis)" % (ret.axes,)
    if len(it.calls) != NS:
        return "bad", "%d right-hand-side evaluations for %d stages" % (len(it.calls), NS)
    h, t0, y0 = Poly.atom("h"), Poly.atom("t0"), Poly.atom("y0")
    slot_of = {}
    for n, (t, y, node) in enumerate(it.calls, start=1):
        hit = None
        for i in range(NS):
            want_t = t0 + h * tab.data[(i, 0)]
            want_y = y0
            for j in range(NS):
                want_y = want_y + h * tab.data[(i, 1 + j)] * K.data[(j,)]
            if t.axes == () and not (t.data[()] - want_t) and y.axes == ("D",) and not (y.data[()] - want_y):
                hit = i
        if y.axes != ("D",):
            return "bad", "a stage state handed to the right-hand side has axes %s, not the state's" % (y.axes,)
        if hit is None:
            return "bad", "right-hand-side evaluation #%d is made at (%s, %s), which is no stage (t0 + c_i h, y0 + h sum_j a_ij k_j) of the table" % (
                n, t.data[()].canon() if t.axes == () else t.axes, y.data[()].canon()[:160])
        slot_of["f%d" % n] = hit
    for i in range(NS):
        p = ret.data[(i,)]
        want = [a for a, s_ in slot_of.items() if s_ == i]
        if len(want) != 1 or (p - (K.data[(i,)] - Poly.atom(want[0]))):
            return "bad", "slot %d of the residual is %s, not k%d - f(stage %d)" % (i, p.canon()[:120], i, i)
    return "ok", "residual = K - [f(t0 + c_i h, y0 + h sum_j a_ij k_j)]_i for %d concrete stages, state axes abstract" % NS


# ---------------------------------------------------------------------------------------------------
def _exec_loop_body(it, stmts, stores, out_name):
    for st in stmts:
        if isinstance(st, ast.Assign) and len(st.targets) == 1:
            t = st.targets[0]
            if isinstance(t, ast.Name):
                v = st.value
                if any(isinstance(x, ast.Compare) for x in ast.walk(v)) or (isinstance(v, ast.Call) and (fname(v) or "").split(".")[-1] in ("where", "logical_or", "logical_not", "ones_like")
                                                                           and any(isinstance(n, ast.Name) and n.id in it.masks for n in ast.walk(v))):
                    for cmp_ in [x for x in ast.walk(v) if isinstance(x, ast.Compare)]:
                        zero = [c for c in [cmp_.left] + cmp_.comparators if isinstance(c, ast.Constant) and c.value == 0]
                        if len(cmp_.ops) != 1 or not isinstance(cmp_.ops[0], ast.NotEq) or not zero:
                            raise Unknown("a mask that is not the non-zero support of the coefficients (`%s`)" % src(cmp_)[:40])
                    it.masks.setdefault(t.id, [])
                    continue
                it.bind(t, it.ev(v))
            elif isinstance(t, ast.Subscript) and isinstance(t.value, ast.Name) and t.value.id == out_name:
                sl = t.slice
                parts = list(sl.elts) if isinstance(sl, ast.Tuple) else [sl]
                if len(parts) == 2 and isinstance(parts[0], ast.Constant) and parts[0].value is Ellipsis:
                    stores.append(("last", it.intval(parts[1]), it.tensor(st.value)))
                elif len(parts) == 1:
                    stores.append(("first", it.intval(parts[0]), it.tensor(st.value)))
                else:
                    raise Unknown("store %s" % src(t)[:40])
            else:
                raise Unknown("store target %s" % src(t)[:40])
        elif isinstance(st, (ast.Expr, ast.Pass)):
            continue
        else:
            raise Unknown("statement %s in the stage loop" % type(st).__name__)


def compute_step_verdict(fn):
    """interpret the generic stage loop compute_step(rhs, t0, y0, h, stages_in, stages_out, table, kw): for every stage i of NS concrete stages the right-hand side is
    evaluated at (t0 + c_i h, y0 + h sum_j a_ij in_j) and the value stored at [..., i] of the output array."""
    P = [a.arg for a in fn.args.args]
    Sin = Tn(("D", ("S", NS)), {(j,): Poly.atom("k%d" % j) for j in range(NS)})
    _, _, _, tab = rk_env(["self", "K0", "rhs", "t0", "y0", "h", "c"])
    env = {P[1]: Tn.scalar(Poly.atom("t0")), P[2]: Tn(("D",), {(): Poly.atom("y0")}), P[3]: Tn.scalar(Poly.atom("h")), P[4]: Sin,
           P[5]: Tn(("D", ("S", NS)), {(j,): Poly.atom("o%d" % j) for j in range(NS)}), P[6]: tab}
    it = Interp(env, {}, rhs_names=[P[0]])
    loops = [st for st in fn.body if isinstance(st, ast.For)]
    if len(loops) != 1:
        return "unknown", "no single stage loop"
    lp = loops[0]
    stores = []
    try:
        seq = it.iterate(lp.iter)
        if seq != list(range(NS)):
            return "bad", "the stage loop runs over %s, not over all %d stages" % (seq if len(seq) < 8 else "...", NS)
        per_stage = []
        for i in seq:
            it.bind(lp.target, i)
            n0, s0 = len(it.calls), len(stores)
            _exec_loop_body(it, lp.body, stores, P[5])
            per_stage.append((i, it.calls[n0:], stores[s0:]))
    except AxisError as e:
        return "bad", str(e)
    except Unknown as e:
        return "unknown", str(e)
    for name, uses in it.masks.items():
        if len(uses) % 2:
            return "unknown", "mask %s applied to an odd number of factors" % name
    h, t0, y0 = Poly.atom("h"), Poly.atom("t0"), Poly.atom("y0")
    nf = 0
    for i, calls, sts in per_stage:
        if len(calls) != 1:
            return "bad", "stage %d evaluates the right-hand side %d times" % (i, len(calls))
        nf += 1
        t, y, node = calls[0]
        want_t = t0 + h * tab.data[(i, 0)]
        want_y = y0
        for j in range(NS):
            want_y = want_y + h * tab.data[(i, 1 + j)] * Sin.data[(j,)]
        if y.axes != ("D",):
            return "bad", "the stage state of stage %d has axes %s, not the state's" % (i, y.axes)
        if t.axes != () or (t.data[()] - want_t):
            return "bad", "stage %d is evaluated at time %s, not t0 + c_%d h" % (i, t.data[()].canon() if t.axes == () else t.axes, i)
        if y.data[()] - want_y:
            return "bad", "stage %d is evaluated at the state %s, not y0 + h sum_j a_%dj k_j" % (i, y.data[()].canon()[:140], i)
        ok = [s_ for s_ in sts if s_[0] == "last" and s_[1] == i and s_[2].axes == ("D",) and not (s_[2].data[()] - Poly.atom("f%d" % nf))]
        if len(sts) != 1 or not ok:
            return "bad", "the slope of stage %d is not stored at [..., %d] of the output array (stores: %s)" % (i, i, [(k, j) for k, j, _ in sts])
    return "ok", "for %d concrete stages: stage i evaluated at (t0 + c_i h, y0 + h sum_j a_ij k_j) and stored at [..., i]" % NS


def weighted_sum_verdict(expr, step_param, row=0, table="tableau_final", scaled=True):
    """interpret the propagated increment (or the error estimate): expr must denote  [h *] sum_j w_j k_j  with w = row `row` of the weights table (columns 1..),
    laid out as the state.  -> ('ok'|'bad'|'unknown', detail)"""
    K = Tn(("D", ("S", NS)), {(j,): Poly.atom("k%d" % j) for j in range(NS)})
    tf = Tn((("S", 2), ("S", NS + 1)), {})
    for r in range(2):
        tf.data[(r, 0)] = Poly.atom("z%d" % r)
        for j in range(NS):
            tf.data[(r, 1 + j)] = Poly.atom("b%d_%d" % (r, j))
    it = Interp({step_param: Tn.scalar(Poly.atom("h"))} if step_param else {}, {"stage_values": K, table: tf}, rhs_names=[])
    try:
        v = it.tensor(expr)
    except AxisError as e:
        return "bad", str(e)
    except Unknown as e:
        return "unknown", str(e)
    if v.axes != ("D",):
        return "bad", "the weighted sum of the stage slopes has axes %s, not the state's (summed over the wrong axis, or not summed at all)" % (v.axes,)
    want = Poly()
    for j in range(NS):
        w = tf.data[(row, 1 + j)] if not isinstance(row, tuple) else tf.data[(row[0], 1 + j)] - tf.data[(row[1], 1 + j)]
        want = want + w * K.data[(j,)]
    if scaled:
        want = want * Poly.atom("h")
    if v.data[()] - want:
        return "bad", "it evaluates to %s, not %s" % (v.data[()].canon()[:140], want.canon()[:140])
    return "ok", "= %s for %d concrete stages" % (want.canon()[:80], NS)


def with_stage_counts(fn_verdict, counts, *args, **kw):
    """run a verdict function for several numbers of concrete stages; the first non-ok verdict wins"""
    global NS
    saved = NS
    details = []
    try:
        for n in counts:
            NS = n
            v, d = fn_verdict(*args, **kw)
            if v != "ok":
                return v, "with %d stages: %s" % (n, d)
            details.append(n)
        return "ok", "stage i evaluated at (t0 + c_i h, y0 + h sum_j a_ij k_j) / weighted sums exact, for %s concrete stages, state axes abstract" % details
    finally:
        NS = saved
