"""Facts read from the step code that the table rules depend on (so that the rules follow the code
rather than assume it): which row of tableau_final is propagated, the linear form of the error
estimate, which table columns the splitting step uses for drift and kick."""
import ast
from fractions import Fraction

from .front import AnalysisError, dotted, fname, is_self_attr, src, walk_no_nested

ITYPES = "desolver/integrators/integrator_types.py"
RK = "RungeKuttaIntegrator"
SPLIT = "ExplicitSymplecticIntegrator"
RICH = "generate_richardson_integrator.RichardsonExtrapolatedIntegrator"


def table_subscript(node, table="tableau_final"):
    """If node is  self.<table>[i, 1:]  or  self.<table>[i][1:]  return the row index expression node
    (ast) else None."""
    if not isinstance(node, ast.Subscript):
        return None
    sl = node.slice
    if is_self_attr(node.value, table) and isinstance(sl, ast.Tuple) and len(sl.elts) == 2 and _is_from1(sl.elts[1]):
        return sl.elts[0]
    if _is_from1(sl) and isinstance(node.value, ast.Subscript) and is_self_attr(node.value.value, table):
        return node.value.slice
    return None


def _is_from1(sl):
    return (isinstance(sl, ast.Slice) and sl.upper is None and sl.step is None and
            isinstance(sl.lower, ast.Constant) and sl.lower.value == 1)


def const_int(node):
    if isinstance(node, ast.Constant) and isinstance(node.value, int) and not isinstance(node.value, bool):
        return node.value
    if isinstance(node, ast.UnaryOp) and isinstance(node.op, ast.USub) and isinstance(node.operand, ast.Constant):
        return -node.operand.value
    return None


def propagated_row(repo):
    """Row index i such that step() computes  dState = timestep * sum(stage_values * tableau_final[i, 1:])."""
    step = repo.get(ITYPES, RK + ".step")
    rows = []
    for st in walk_no_nested(step):
        if isinstance(st, ast.Assign) and any(is_self_attr(t, "dState") for t in st.targets):
            for n in ast.walk(st.value):
                r = table_subscript(n, "tableau_final")
                if r is not None:
                    ci = const_int(r)
                    if ci is None:
                        raise AnalysisError("step(): propagated row index is not a constant: %s" % src(n))
                    rows.append((ci, st))
    if not rows:
        raise AnalysisError("anchor missing: step() has no `self.dState = ... self.tableau_final[i, 1:] ...`")
    if len({r for r, _ in rows}) != 1:
        raise AnalysisError("step() propagates with different rows on different paths: %s" % sorted({r for r, _ in rows}))
    return rows[0]


def linear_form_rows(expr, table="tableau_final", other="stage_values"):
    """Interpret expr as  sum( L(rows of table) * self.<other>, axis=-1 ) and return {row: Fraction}.
    Raises AnalysisError when the expression is not of that shape."""
    e = expr
    if not (isinstance(e, ast.Call) and fname(e) == "sum" and len(e.args) == 1):
        raise AnalysisError("error estimate is not a `sum(...)`: %s" % src(expr)[:100])
    axis = [k for k in e.keywords if k.arg == "axis"]
    if not axis or const_int(axis[0].value) != -1:
        raise AnalysisError("error estimate does not sum over the stage axis (-1): %s" % src(expr)[:100])

    def lin(n):
        """returns (form dict, uses_other:int)"""
        r = table_subscript(n, table)
        if r is not None:
            ci = const_int(r)
            if ci is None:
                raise AnalysisError("non-constant row in %s" % src(n))
            return {ci: Fraction(1)}, 0
        if is_self_attr(n, other):
            return None, 1
        if isinstance(n, ast.BinOp) and isinstance(n.op, (ast.Add, ast.Sub)):
            (fa, ua), (fb, ub) = lin(n.left), lin(n.right)
            if fa is None or fb is None or ua != ub:
                raise AnalysisError("unsupported sum in error estimate: %s" % src(n)[:100])
            out = dict(fa)
            sgn = 1 if isinstance(n.op, ast.Add) else -1
            for k, v in fb.items():
                out[k] = out.get(k, 0) + sgn * v
            return out, ua
        if isinstance(n, ast.BinOp) and isinstance(n.op, ast.Mult):
            (fa, ua), (fb, ub) = lin(n.left), lin(n.right)
            if fa is None and fb is not None:
                return fb, ua + ub
            if fb is None and fa is not None:
                return fa, ua + ub
            raise AnalysisError("unsupported product in error estimate: %s" % src(n)[:100])
        if isinstance(n, ast.UnaryOp) and isinstance(n.op, ast.USub):
            f, u = lin(n.operand)
            if f is None:
                raise AnalysisError("unsupported negation in error estimate")
            return {k: -v for k, v in f.items()}, u
        if isinstance(n, ast.BinOp) and isinstance(n.op, ast.Mult):
            pass
        try:
            from .front import const_value
            cv = Fraction(const_value(n))
            return {"const": cv}, 0
        except ValueError:
            pass
        raise AnalysisError("unsupported term in error estimate: %s" % src(n)[:100])

    form, uses = lin(e.args[0])
    if form is None or uses != 1 or "const" in form:
        raise AnalysisError("error estimate is not linear in the stage values: %s" % src(expr)[:120])
    return {k: v for k, v in form.items() if v != 0}


def _subst(node, env, depth=0):
    """copy of ``node`` with single-assignment locals replaced by their defining expressions"""
    import copy

    class T(ast.NodeTransformer):
        def visit_Name(self, n):
            if isinstance(n.ctx, ast.Load) and n.id in env and depth < 8:
                return _subst(env[n.id], env, depth + 1)
            return n
    from .front import clone
    return T().visit(clone(node))


def error_estimate_form(repo, fc):
    """Linear form {row: coef} of the adaptive branch of get_error_estimate for folded class fc (its own
    override, else RungeKuttaIntegrator's)."""
    fn = fc.methods.get("get_error_estimate")
    rel = fc.rel
    if fn is None:
        fn = repo.get(ITYPES, RK + ".get_error_estimate")
        rel = ITYPES
    from .sym import inline_locals
    env = inline_locals(fn)
    forms = []
    for st in walk_no_nested(fn):
        if isinstance(st, ast.Return) and st.value is not None:
            v = _subst(st.value, env)
            if isinstance(v, ast.Call) and fname(v) in ("zeros_like", "zeros"):
                continue
            forms.append((linear_form_rows(v), st))
    if len(forms) != 1:
        raise AnalysisError("%s.get_error_estimate: expected exactly one non-zero return, found %d" % (fc.name, len(forms)))
    return forms[0][0], forms[0][1], rel, fn


def splitting_columns(repo):
    """(time_col, drift_col, kick_col, update statement) read from ExplicitSymplecticIntegrator.step:
    dState += aux * (T[stage, d] * drift_mask + T[stage, k] * kick_mask);  time += timestep * T[stage, tcol]."""
    step = repo.get(ITYPES, SPLIT + ".step")
    upd = None
    for st in walk_no_nested(step):
        if isinstance(st, ast.AugAssign) and isinstance(st.op, ast.Add) and is_self_attr(st.target, "dState"):
            upd = st
    if upd is None:
        raise AnalysisError("anchor missing: `self.dState += ...` in %s.step" % SPLIT)
    from .sym import inline_locals
    value = _subst(upd.value, inline_locals(step))
    cols = {}
    for n in ast.walk(value):
        if isinstance(n, ast.BinOp) and isinstance(n.op, ast.Mult):
            for a, b in ((n.left, n.right), (n.right, n.left)):
                if isinstance(a, ast.Subscript) and is_self_attr(a.value, "tableau_intermediate") and \
                        isinstance(a.slice, ast.Tuple) and len(a.slice.elts) == 2 and is_self_attr(b) and \
                        b.attr in ("drift_mask", "kick_mask"):
                    ci = const_int(a.slice.elts[1])
                    if ci is None:
                        raise AnalysisError("non-constant table column in %s" % src(n))
                    cols[b.attr] = (ci, a.slice.elts[0])
    if set(cols) != {"drift_mask", "kick_mask"}:
        raise AnalysisError("cannot read drift/kick columns from `%s`" % src(upd)[:120])
    return cols["drift_mask"][0], cols["kick_mask"][0], upd, step


def executes_iff_fsal_explicit(stmt, fn):
    """does ``stmt`` execute exactly when  self.is_fsal and self.is_explicit  (whatever the arrangement of the if/else branches)?"""
    from .sym import path_condition, equivalent
    tree, bt = path_condition(stmt, fn)

    def expected(asg):
        return asg.get("self.is_fsal", False) and asg.get("self.is_explicit", not asg.get("self.is_implicit", False))

    def constraint(asg):
        if "self.is_explicit" in asg and "self.is_implicit" in asg:
            return asg["self.is_explicit"] != asg["self.is_implicit"]
        return True

    def expected2(asg):
        ex = asg["self.is_explicit"] if "self.is_explicit" in asg else (not asg["self.is_implicit"] if "self.is_implicit" in asg else False)
        return asg.get("self.is_fsal", False) and ex
    from .sym import tree_atoms
    atoms = [a.split("@")[0] for a in tree_atoms(tree)]
    if not set(atoms) <= {"self.is_fsal", "self.is_explicit", "self.is_implicit"} or "self.is_fsal" not in atoms:
        return False
    ok, _ = equivalent(tree, expected2, constraints=constraint)
    return ok
