"""A small interpreter of function bodies over an *abstract* value domain.

It is used where a property is decided by interpreting a short function over a finite or algebraic
abstraction of its inputs (error expansions for the Aitken-Neville tableau; order types for the
bisection searches; three-valued flags).  Values the domain does not model are OPAQUE; a branch on an
opaque or unknown condition is explored both ways (all paths are enumerated by re-execution with a
choice prefix).  Nothing of the analysed package is imported or executed: the interpreter walks the
``ast`` of the function."""
import ast
import operator
from fractions import Fraction

from .front import AnalysisError, dotted, src


class _Opaque:
    def __repr__(self):
        return "OPAQUE"


OPAQUE = _Opaque()


class Nondet:
    """A boolean the domain cannot decide: both outcomes are explored."""


class _Break(Exception):
    pass


class _Continue(Exception):
    pass


class _Return(Exception):
    def __init__(self, value):
        self.value = value


class Raised(Exception):
    def __init__(self, what):
        self.what = what


class PathLimit(Exception):
    pass


_BIN = {ast.Add: operator.add, ast.Sub: operator.sub, ast.Mult: operator.mul, ast.Div: operator.truediv,
        ast.FloorDiv: operator.floordiv, ast.Mod: operator.mod, ast.Pow: operator.pow,
        ast.LShift: operator.lshift, ast.RShift: operator.rshift, ast.BitAnd: operator.and_,
        ast.BitOr: operator.or_, ast.BitXor: operator.xor}
_CMP = {ast.Lt: operator.lt, ast.LtE: operator.le, ast.Gt: operator.gt, ast.GtE: operator.ge,
        ast.Eq: operator.eq, ast.NotEq: operator.ne}
CONCRETE = (int, float, Fraction, bool)


class Domain:
    """Override the hooks that matter.  Returning NotImplemented means 'not modelled' -> OPAQUE."""

    def binop(self, op, a, b, node):
        return NotImplemented

    def unary(self, op, a, node):
        return NotImplemented

    def compare(self, op, a, b, node):
        return NotImplemented      # True / False / Nondet / NotImplemented

    def call(self, name, node, args, kwargs, interp):
        return NotImplemented

    def attribute(self, obj, attr, node, interp):
        return NotImplemented

    def load_subscript(self, obj, idx, node, interp):
        return NotImplemented

    def store_subscript(self, obj, idx, val, node, interp):
        return NotImplemented

    def store_attribute(self, obj, attr, val, node, interp):
        return NotImplemented

    def truth(self, v, node):
        return NotImplemented


class Interp:
    def __init__(self, domain, max_paths=4096, max_steps=400000):
        self.domain = domain
        self.max_paths = max_paths
        self.max_steps = max_steps

    # -- path enumeration --------------------------------------------------------------------
    def all_paths(self, func, args):
        """Yield (outcome, value, choices) for every path; outcome in {'return','raise'}."""
        prefix = []
        npaths = 0
        while True:
            self._choices = list(prefix)
            self._pos = 0
            self._arity = []
            self._steps = 0
            self.env = dict(args)
            try:
                self.exec_block(func.body)
                out = ("return", None)
            except _Return as r:
                out = ("return", r.value)
            except Raised as r:
                out = ("raise", r.what)
            yield out[0], out[1], list(self._choices)
            npaths += 1
            if npaths > self.max_paths:
                raise PathLimit("more than %d paths in %s" % (self.max_paths, func.name))
            # backtrack
            ch, ar = self._choices, self._arity
            while ch and ch[-1] + 1 >= ar[len(ch) - 1]:
                ch.pop()
            if not ch:
                return
            ch[-1] += 1
            prefix = ch

    def choose(self, n=2):
        if self._pos < len(self._choices):
            c = self._choices[self._pos]
            if len(self._arity) <= self._pos:
                self._arity.append(n)
        else:
            c = 0
            self._choices.append(0)
            self._arity.append(n)
        self._pos += 1
        return c

    # -- statements --------------------------------------------------------------------------
    def exec_block(self, stmts):
        for st in stmts:
            self.exec_stmt(st)

    def tick(self):
        self._steps += 1
        if self._steps > self.max_steps:
            raise PathLimit("step limit exceeded")

    def exec_stmt(self, st):
        self.tick()
        if isinstance(st, ast.Expr):
            self.eval(st.value)
        elif isinstance(st, ast.Assign):
            v = self.eval(st.value)
            for t in st.targets:
                self.assign(t, v)
        elif isinstance(st, ast.AugAssign):
            cur = self.eval(_as_load(st.target))
            v = self.binop(st.op, cur, self.eval(st.value), st)
            self.assign(st.target, v)
        elif isinstance(st, ast.AnnAssign):
            if st.value is not None:
                self.assign(st.target, self.eval(st.value))
        elif isinstance(st, ast.If):
            if self.truth(self.eval(st.test), st.test):
                self.exec_block(st.body)
            else:
                self.exec_block(st.orelse)
        elif isinstance(st, ast.While):
            broke = False
            while self.truth(self.eval(st.test), st.test):
                self.tick()
                try:
                    self.exec_block(st.body)
                except _Break:
                    broke = True
                    break
                except _Continue:
                    continue
            if not broke:
                self.exec_block(st.orelse)
        elif isinstance(st, ast.For):
            it = self.eval(st.iter)
            if it is OPAQUE or not isinstance(it, (list, tuple, range)):
                raise AnalysisError("cannot iterate abstractly over %s" % src(st.iter))
            broke = False
            for v in it:
                self.tick()
                self.assign(st.target, v)
                try:
                    self.exec_block(st.body)
                except _Break:
                    broke = True
                    break
                except _Continue:
                    continue
            if not broke:
                self.exec_block(st.orelse)
        elif isinstance(st, ast.Return):
            raise _Return(self.eval(st.value) if st.value is not None else None)
        elif isinstance(st, ast.Break):
            raise _Break()
        elif isinstance(st, ast.Continue):
            raise _Continue()
        elif isinstance(st, ast.Pass):
            pass
        elif isinstance(st, ast.Raise):
            raise Raised(src(st))
        elif isinstance(st, ast.With):
            self.exec_block(st.body)
        elif isinstance(st, (ast.Import, ast.ImportFrom, ast.Global, ast.Nonlocal, ast.FunctionDef)):
            if isinstance(st, ast.FunctionDef):
                self.env[st.name] = OPAQUE
        elif isinstance(st, ast.Assert):
            pass
        elif isinstance(st, ast.Try):
            # the modelled fragments have no exceptional flow of their own: run the body and the finally
            try:
                self.exec_block(st.body)
                self.exec_block(st.orelse)
            finally:
                pass
            self.exec_block(st.finalbody)
        else:
            raise AnalysisError("statement kind %s not supported by the abstract interpreter" % type(st).__name__)

    def assign(self, target, v):
        if isinstance(target, ast.Name):
            self.env[target.id] = v
        elif isinstance(target, (ast.Tuple, ast.List)):
            if isinstance(v, (tuple, list)) and len(v) == len(target.elts) and not any(isinstance(e, ast.Starred) for e in target.elts):
                for t, x in zip(target.elts, v):
                    self.assign(t, x)
            else:
                for t in target.elts:
                    self.assign(t.value if isinstance(t, ast.Starred) else t, OPAQUE)
        elif isinstance(target, ast.Subscript):
            obj = self.eval(target.value)
            idx = self.eval_index(target.slice)
            r = self.domain.store_subscript(obj, idx, v, target, self)
            if r is NotImplemented:
                if isinstance(obj, (list, dict)) and _concrete_index(idx):
                    obj[idx] = v
        elif isinstance(target, ast.Attribute):
            obj = self.eval(target.value)
            self.domain.store_attribute(obj, target.attr, v, target, self)
        elif isinstance(target, ast.Starred):
            self.assign(target.value, OPAQUE)
        else:
            raise AnalysisError("assignment target %s not supported" % type(target).__name__)

    # -- expressions -------------------------------------------------------------------------
    def truth(self, v, node):
        if isinstance(v, CONCRETE) or v is None or isinstance(v, (str, tuple, list)):
            return bool(v)
        r = self.domain.truth(v, node)
        if r is NotImplemented or r is Nondet or isinstance(r, Nondet) or v is OPAQUE:
            return self.choose(2) == 0
        return bool(r)

    def binop(self, op, a, b, node):
        r = self.domain.binop(op, a, b, node)
        if r is not NotImplemented:
            return r
        if isinstance(a, CONCRETE) and isinstance(b, CONCRETE):
            try:
                return _BIN[type(op)](a, b)
            except Exception:
                return OPAQUE
        if isinstance(op, ast.Add) and isinstance(a, (tuple, list)) and isinstance(b, type(a)):
            return a + b
        return OPAQUE

    def eval_index(self, sl):
        if isinstance(sl, ast.Tuple):
            return tuple(self.eval_index(e) for e in sl.elts)
        if isinstance(sl, ast.Slice):
            return slice(*(None if x is None else self.eval(x) for x in (sl.lower, sl.upper, sl.step)))
        return self.eval(sl)

    def eval(self, node):
        self.tick()
        if isinstance(node, ast.Constant):
            return node.value
        if isinstance(node, ast.Name):
            if node.id in self.env:
                return self.env[node.id]
            if node.id in ("True", "False", "None"):
                return {"True": True, "False": False, "None": None}[node.id]
            return OPAQUE
        if isinstance(node, ast.Tuple):
            return tuple(self.eval(e) for e in node.elts)
        if isinstance(node, ast.List):
            return [self.eval(e) for e in node.elts]
        if isinstance(node, ast.BinOp):
            return self.binop(node.op, self.eval(node.left), self.eval(node.right), node)
        if isinstance(node, ast.UnaryOp):
            v = self.eval(node.operand)
            if isinstance(node.op, ast.Not):
                return not self.truth(v, node.operand)
            r = self.domain.unary(node.op, v, node)
            if r is not NotImplemented:
                return r
            if isinstance(v, CONCRETE):
                return -v if isinstance(node.op, ast.USub) else (+v if isinstance(node.op, ast.UAdd) else ~v)
            return OPAQUE
        if isinstance(node, ast.BoolOp):
            if isinstance(node.op, ast.And):
                v = True
                for e in node.values:
                    v = self.eval(e)
                    if not self.truth(v, e):
                        return False
                return v
            v = False
            for e in node.values:
                v = self.eval(e)
                if self.truth(v, e):
                    return v if isinstance(v, CONCRETE) else True
            return False
        if isinstance(node, ast.Compare):
            left = self.eval(node.left)
            for op, rn in zip(node.ops, node.comparators):
                right = self.eval(rn)
                r = self.domain.compare(op, left, right, node)
                if r is not NotImplemented and r is not Nondet and not isinstance(r, bool):
                    if len(node.ops) == 1:
                        return r           # a domain value (e.g. an element-wise mask)
                    raise AnalysisError("chained comparison of vector values in %s" % src(node))
                if r is NotImplemented:
                    if isinstance(op, (ast.Is, ast.IsNot)) and (left is None or right is None) and left is not OPAQUE and right is not OPAQUE:
                        r = (left is right) if isinstance(op, ast.Is) else (left is not right)
                    elif isinstance(left, CONCRETE) and isinstance(right, CONCRETE) and type(op) in _CMP:
                        r = _CMP[type(op)](left, right)
                    else:
                        r = Nondet
                if r is Nondet:
                    r = self.choose(2) == 0
                if not r:
                    return False
                left = right
            return True
        if isinstance(node, ast.IfExp):
            return self.eval(node.body) if self.truth(self.eval(node.test), node.test) else self.eval(node.orelse)
        if isinstance(node, ast.Attribute):
            obj = self.eval(node.value)
            r = self.domain.attribute(obj, node.attr, node, self)
            return OPAQUE if r is NotImplemented else r
        if isinstance(node, ast.Subscript):
            obj = self.eval(node.value)
            idx = self.eval_index(node.slice)
            r = self.domain.load_subscript(obj, idx, node, self)
            if r is not NotImplemented:
                return r
            if isinstance(obj, (tuple, list)) and (isinstance(idx, int) or isinstance(idx, slice)):
                try:
                    return obj[idx]
                except Exception:
                    return OPAQUE
            if isinstance(obj, dict) and _concrete_index(idx):
                return obj.get(idx, OPAQUE)
            return OPAQUE
        if isinstance(node, ast.Call):
            name = dotted(node.func)
            args = [self.eval(a.value if isinstance(a, ast.Starred) else a) for a in node.args]
            kwargs = {k.arg: self.eval(k.value) for k in node.keywords}
            r = self.domain.call(name, node, args, kwargs, self)
            if r is not NotImplemented:
                return r
            if isinstance(node.func, ast.Attribute) and node.func.attr == "append" and len(args) == 1 and not kwargs:
                tgt = self.eval(node.func.value)
                if isinstance(tgt, list):
                    tgt.append(args[0])
                    return None
            if name == "range" and all(isinstance(a, int) for a in args):
                return range(*args)
            if name == "len" and len(args) == 1 and isinstance(args[0], (list, tuple, dict, range)):
                return len(args[0])
            if name in ("min", "max") and args and all(isinstance(a, CONCRETE) for a in args):
                return (min if name == "min" else max)(args)
            if name in ("int", "float", "bool", "abs") and len(args) == 1 and isinstance(args[0], CONCRETE):
                return {"int": int, "float": float, "bool": bool, "abs": abs}[name](args[0])
            return OPAQUE
        if isinstance(node, ast.ListComp) and len(node.generators) == 1 and not node.generators[0].ifs:
            g = node.generators[0]
            it = self.eval(g.iter)
            if isinstance(it, (list, tuple, range)):
                saved = dict(self.env)
                out = []
                for v in it:
                    self.tick()
                    self.assign(g.target, v)
                    out.append(self.eval(node.elt))
                for k in [k for k in self.env if k not in saved]:
                    del self.env[k]
                self.env.update({k: v for k, v in saved.items()})
                return out
            return OPAQUE
        if isinstance(node, (ast.JoinedStr, ast.Lambda, ast.ListComp, ast.DictComp, ast.GeneratorExp, ast.SetComp, ast.Dict, ast.Set)):
            return OPAQUE
        if isinstance(node, ast.Starred):
            return OPAQUE
        raise AnalysisError("expression kind %s not supported by the abstract interpreter" % type(node).__name__)


def _concrete_index(idx):
    if isinstance(idx, tuple):
        return all(_concrete_index(i) for i in idx)
    return isinstance(idx, (int, str))


def _as_load(target):
    import copy
    t = copy.copy(target)
    t.ctx = ast.Load()
    return t
