"""E-SYM: expression normal forms.

* ``Poly``: commutative polynomial normal form with Fraction coefficients over *atoms* (canonical text of
  anything that is not +,-,*,/const,**int).  Two expressions with equal normal forms compute the same
  real-arithmetic value whatever the order of operands, bracketing, or `1/5` vs `0.2`.
* ``truth_table``: boolean function of an expression over its atoms.
* ``Canon``: canonicaliser with local substitution (single-assignment locals are inlined) and a renaming
  map for parameters, so rules are written against positional roles and survive renaming."""
import ast
import itertools
from fractions import Fraction

from .front import AnalysisError, dotted, fname, src


class Poly(dict):
    @staticmethod
    def const(c):
        c = Fraction(c)
        return Poly({(): c}) if c else Poly()

    @staticmethod
    def atom(name):
        return Poly({(name,): Fraction(1)})

    def __add__(self, o):
        r = Poly(self)
        for m, c in o.items():
            v = r.get(m, 0) + c
            if v:
                r[m] = v
            else:
                r.pop(m, None)
        return r

    def __neg__(self):
        return Poly({m: -c for m, c in self.items()})

    def __sub__(self, o):
        return self + (-o)

    def __mul__(self, o):
        r = Poly()
        for m1, c1 in self.items():
            for m2, c2 in o.items():
                m = tuple(sorted(m1 + m2))
                v = r.get(m, 0) + c1 * c2
                if v:
                    r[m] = v
                else:
                    r.pop(m, None)
        return r

    def scale(self, k):
        k = Fraction(k)
        return Poly({m: c * k for m, c in self.items()}) if k else Poly()

    def is_const(self):
        return all(m == () for m in self)

    def const_value(self):
        return self.get((), Fraction(0))

    def atoms(self):
        return {a for m in self for a in m}

    def canon(self):
        if not self:
            return "0"
        parts = []
        for m in sorted(self):
            c = self[m]
            mono = "*".join(m)
            if not m:
                parts.append(str(c))
            elif c == 1:
                parts.append(mono)
            else:
                parts.append("%s*%s" % (c, mono))
        return " + ".join(parts)

    def subs(self, mapping):
        """substitute atoms by Polys"""
        out = Poly()
        for m, c in self.items():
            term = Poly.const(c)
            for a in m:
                term = term * (mapping[a] if a in mapping else Poly.atom(a))
            out = out + term
        return out

    def cancel(self):
        """cancel pairs a * inv(a) inside every monomial"""
        out = Poly()
        for m, c in self.items():
            lst = list(m)
            changed = True
            while changed:
                changed = False
                for a in list(lst):
                    if a.startswith("inv(") and a[4:-1] in lst:
                        lst.remove(a)
                        lst.remove(a[4:-1])
                        changed = True
                        break
            out = out + Poly({tuple(sorted(lst)): c})
        return out

    def degree_in(self, atom):
        return max((m.count(atom) for m in self), default=0)

    def diff(self, atom):
        out = Poly()
        for m, c in self.items():
            k = m.count(atom)
            if k:
                lst = list(m)
                lst.remove(atom)
                out = out + Poly({tuple(lst): c * k})
        return out


class Canon:
    """Canonicaliser of expressions of one function.

    rename: {source name -> role name}   (parameters by position, so renaming a parameter is harmless)
    env:    {local name -> ast expression} for inlining (built by ``inline_locals``)
    atom_hook(node, canon) -> str | Poly | None : lets a rule give special subexpressions a canonical atom
    """

    def __init__(self, rename=None, env=None, atom_hook=None, max_inline=12):
        self.rename = dict(rename or {})
        self.env = dict(env or {})
        self.atom_hook = atom_hook
        self._depth = 0
        self.max_inline = max_inline

    # -- polynomial form ---------------------------------------------------------------------
    def poly(self, node):
        if self.atom_hook is not None:
            h = self.atom_hook(node, self)
            if isinstance(h, Poly):
                return h
            if isinstance(h, str):
                return Poly.atom(h)
        if isinstance(node, ast.Constant) and isinstance(node.value, (int, float)) and not isinstance(node.value, bool):
            # decimal literals are read as the decimal fraction they spell (0.2 == 1/5), not as the binary double
            try:
                return Poly.const(Fraction(repr(node.value)) if isinstance(node.value, float) else Fraction(node.value))
            except (ValueError, OverflowError):
                return Poly.atom(repr(node.value))
        if isinstance(node, ast.Name):
            if node.id in self.env and self._depth < self.max_inline:
                self._depth += 1
                try:
                    return self.poly(self.env[node.id])
                finally:
                    self._depth -= 1
            return Poly.atom(self.rename.get(node.id, node.id))
        if isinstance(node, ast.UnaryOp) and isinstance(node.op, ast.USub):
            return -self.poly(node.operand)
        if isinstance(node, ast.UnaryOp) and isinstance(node.op, ast.UAdd):
            return self.poly(node.operand)
        if isinstance(node, ast.BinOp):
            op = node.op
            if isinstance(op, ast.Add):
                return self.poly(node.left) + self.poly(node.right)
            if isinstance(op, ast.Sub):
                return self.poly(node.left) - self.poly(node.right)
            if isinstance(op, ast.Mult):
                return self.poly(node.left) * self.poly(node.right)
            if isinstance(op, ast.Div):
                den = self.poly(node.right)
                if den.is_const() and den.const_value() != 0:
                    return self.poly(node.left).scale(1 / den.const_value())
                if len(den) == 1:
                    (m, c), = den.items()
                    inv = Poly({tuple(sorted("inv(%s)" % a for a in m)): 1 / c})
                    return self.poly(node.left) * inv
                return self.poly(node.left) * Poly.atom("inv(%s)" % den.canon())
            if isinstance(op, ast.Pow):
                e = self.poly(node.right)
                if e.is_const() and e.const_value().denominator == 1 and 0 <= e.const_value() <= 8:
                    base = self.poly(node.left)
                    out = Poly.const(1)
                    for _ in range(int(e.const_value())):
                        out = out * base
                    return out
                return Poly.atom("pow(%s,%s)" % (self.poly(node.left).canon(), e.canon()))
            return Poly.atom("%s(%s, %s)" % (type(op).__name__.lower(), self.ptext(node.left), self.ptext(node.right)))
        if isinstance(node, ast.UnaryOp):
            return Poly.atom("%s(%s)" % (type(node.op).__name__.lower(), self.ptext(node.operand)))
        return Poly.atom(self.text(node))

    # -- canonical text of non-arithmetic nodes ----------------------------------------------
    def text(self, node):
        if isinstance(node, ast.Name):
            if node.id in self.env and self._depth < self.max_inline:
                self._depth += 1
                try:
                    return self.ptext(self.env[node.id])
                finally:
                    self._depth -= 1
            return self.rename.get(node.id, node.id)
        if isinstance(node, ast.Attribute):
            return "%s.%s" % (self.text(node.value), node.attr)
        if isinstance(node, ast.Subscript):
            return "%s[%s]" % (self.text(node.value), self.index_text(node.slice))
        if isinstance(node, ast.Call):
            f = (fname(node) if dotted(node.func) else None) or self.text(node.func)
            f = self.rename.get(f, f)
            if isinstance(node.func, ast.Name) and node.func.id in self.rename:
                f = self.rename[node.func.id]
            args = [self.ptext(a) for a in node.args]
            kws = sorted("%s=%s" % (k.arg, self.ptext(k.value)) for k in node.keywords if k.arg)
            kws += ["**" + self.ptext(k.value) for k in node.keywords if k.arg is None]
            return "%s(%s)" % (f, ", ".join(args + kws))
        if isinstance(node, ast.Constant):
            return repr(node.value)
        if isinstance(node, ast.Tuple):
            return "(" + ", ".join(self.ptext(e) for e in node.elts) + ("," if len(node.elts) == 1 else "") + ")"
        if isinstance(node, ast.Starred):
            return "*" + self.ptext(node.value)
        if isinstance(node, (ast.BinOp, ast.UnaryOp)):
            return "(" + self.poly(node).canon() + ")"
        if isinstance(node, ast.Compare):
            parts = [self.ptext(node.left)]
            for op, r in zip(node.ops, node.comparators):
                parts.append(type(op).__name__)
                parts.append(self.ptext(r))
            return "cmp(" + " ".join(parts) + ")"
        return src(node)

    def ptext(self, node):
        if isinstance(node, (ast.BinOp, ast.UnaryOp, ast.Name, ast.Constant)) and not (
                isinstance(node, ast.Constant) and not isinstance(node.value, (int, float))):
            p = self.poly(node)
            return p.canon()
        return self.text(node)

    def index_text(self, sl):
        if isinstance(sl, ast.Tuple):
            return ", ".join(self.index_text(e) for e in sl.elts)
        if isinstance(sl, ast.Slice):
            return "%s:%s%s" % ("" if sl.lower is None else self.ptext(sl.lower), "" if sl.upper is None else self.ptext(sl.upper),
                                "" if sl.step is None else ":" + self.ptext(sl.step))
        if isinstance(sl, ast.Constant) and sl.value is Ellipsis:
            return "..."
        return self.ptext(sl)


def inline_locals(func, keep=()):
    """{name: value expr} for locals of ``func`` assigned exactly once by a plain `name = expr` at any depth
    (not augmented, not a loop target, not a parameter, not in ``keep``)."""
    counts, vals = {}, {}
    params = {a.arg for a in func.args.args + func.args.kwonlyargs}
    if func.args.vararg:
        params.add(func.args.vararg.arg)
    if func.args.kwarg:
        params.add(func.args.kwarg.arg)
    for n in ast.walk(func):
        targets = []
        if isinstance(n, ast.Assign):
            for t in n.targets:
                if isinstance(t, (ast.Tuple, ast.List)) and isinstance(n.value, (ast.Tuple, ast.List)) and len(t.elts) == len(n.value.elts) \
                        and len(n.targets) == 1 and all(isinstance(e, ast.Name) for e in t.elts):
                    # a, b = x, y  (valid to inline when no right-hand side mentions a left-hand name)
                    lhs = {e.id for e in t.elts}
                    rhs_names = {x.id for v in n.value.elts for x in ast.walk(v) if isinstance(x, ast.Name)}
                    for e, v in zip(t.elts, n.value.elts):
                        targets.append((e.id, v if not (lhs & rhs_names) else None))
                    continue
                for x in ast.walk(t):
                    if isinstance(x, ast.Name):
                        targets.append((x.id, n.value if isinstance(t, ast.Name) and len(n.targets) == 1 else None))
        elif isinstance(n, (ast.AugAssign, ast.AnnAssign)):
            for x in ast.walk(n.target):
                if isinstance(x, ast.Name):
                    targets.append((x.id, None))
        elif isinstance(n, (ast.For, ast.comprehension)):
            for x in ast.walk(n.target):
                if isinstance(x, ast.Name):
                    targets.append((x.id, None))
        elif isinstance(n, ast.With):
            for it in n.items:
                if it.optional_vars is not None:
                    for x in ast.walk(it.optional_vars):
                        if isinstance(x, ast.Name):
                            targets.append((x.id, None))
        elif isinstance(n, ast.NamedExpr):
            targets.append((n.target.id, None))
        for name, val in targets:
            counts[name] = counts.get(name, 0) + 1
            vals[name] = val
    return {k: v for k, v in vals.items() if counts[k] == 1 and v is not None and k not in params and k not in keep}


# ------------------------------------------------------------------------------------------------
# boolean functions
def bool_atoms(node, canon=None, leaves=None):
    """Decompose a boolean expression built from and/or/not, &, |, ~, logical_and/or/not into its atoms."""
    leaves = leaves if leaves is not None else {}

    def key(n):
        return canon.ptext(n) if canon else src(n)

    def rec(n):
        if isinstance(n, ast.BoolOp):
            ks = [rec(v) for v in n.values]
            return ("and" if isinstance(n.op, ast.And) else "or", ks)
        if isinstance(n, ast.UnaryOp) and isinstance(n.op, (ast.Not, ast.Invert)):
            return ("not", [rec(n.operand)])
        if isinstance(n, ast.BinOp) and isinstance(n.op, (ast.BitAnd, ast.BitOr)):
            return ("and" if isinstance(n.op, ast.BitAnd) else "or", [rec(n.left), rec(n.right)])
        if isinstance(n, ast.Call):
            f = fname(n)
            if f in ("logical_and", "logical_or") and len(n.args) == 2:
                return ("and" if f == "logical_and" else "or", [rec(n.args[0]), rec(n.args[1])])
            if f == "logical_not" and len(n.args) == 1:
                return ("not", [rec(n.args[0])])
            if f == "bool" and len(n.args) == 1:
                return rec(n.args[0])
        if isinstance(n, ast.Name) and canon is not None and n.id in canon.env and canon._depth < canon.max_inline:
            canon._depth += 1
            try:
                return rec(canon.env[n.id])
            finally:
                canon._depth -= 1
        if isinstance(n, ast.Constant) and isinstance(n.value, bool):
            return ("const", n.value)
        k = key(n)
        leaves.setdefault(k, n)
        return ("atom", k)

    return rec(node), leaves


def eval_bool(tree, assignment):
    kind = tree[0]
    if kind == "atom":
        return assignment[tree[1]]
    if kind == "const":
        return tree[1]
    if kind == "not":
        return not eval_bool(tree[1][0], assignment)
    if kind == "and":
        return all(eval_bool(t, assignment) for t in tree[1])
    if kind == "or":
        return any(eval_bool(t, assignment) for t in tree[1])
    raise AnalysisError("bad boolean tree")


def truth_table(tree, atoms):
    atoms = list(atoms)
    if len(atoms) > 16:
        raise AnalysisError("boolean function over %d atoms is too large" % len(atoms))
    tab = {}
    for vals in itertools.product((False, True), repeat=len(atoms)):
        tab[vals] = eval_bool(tree, dict(zip(atoms, vals)))
    return tab


# ------------------------------------------------------------------------------------------------
_FLIP = {"Lt": "Gt", "Gt": "Lt", "LtE": "GtE", "GtE": "LtE", "Eq": "Eq", "NotEq": "NotEq", "Is": "Is", "IsNot": "IsNot", "In": "In", "NotIn": "NotIn"}


def compare_atom(canon, left, op, right):
    """canonical atom text for a binary comparison, orientation-normalised (a < b == b > a)"""
    l, r, o = canon.ptext(left), canon.ptext(right), type(op).__name__
    if o in ("Gt", "GtE") or (o in ("Eq", "NotEq", "Is") and l > r and o != "Is"):
        l, r, o = r, l, _FLIP[o]
    return "%s %s %s" % (l, o, r)


class BoolTracker:
    """Sequential symbolic evaluation of boolean-valued names over a statement list (loops: body once).
    trees[name] is the boolean tree of the current value of ``name`` over versioned atoms."""

    BOOL_CALLS = ("logical_and", "logical_or", "logical_not")

    def __init__(self, canon=None, tracked=None):
        self.canon = canon or Canon()
        self.trees = {}
        self.version = {}
        self.leaves = {}
        self.tracked_only = set(tracked) if tracked else None
        self.history = {}        # name -> list of (stmt, tree)

    def _ver(self, node):
        names = sorted({n.id for n in ast.walk(node) if isinstance(n, ast.Name) and self.version.get(n.id, 0) > 0})
        return "".join("@%s%d" % (n, self.version[n]) for n in names)

    def tree(self, n):
        if isinstance(n, ast.BoolOp):
            return ("and" if isinstance(n.op, ast.And) else "or", [self.tree(v) for v in n.values])
        if isinstance(n, ast.UnaryOp) and isinstance(n.op, (ast.Not, ast.Invert)):
            return ("not", [self.tree(n.operand)])
        if isinstance(n, ast.BinOp) and isinstance(n.op, (ast.BitAnd, ast.BitOr)):
            return ("and" if isinstance(n.op, ast.BitAnd) else "or", [self.tree(n.left), self.tree(n.right)])
        if isinstance(n, ast.Call):
            f = fname(n)
            if f in ("logical_and", "logical_or") and len(n.args) == 2:
                return ("and" if f == "logical_and" else "or", [self.tree(n.args[0]), self.tree(n.args[1])])
            if f == "logical_not" and len(n.args) == 1:
                return ("not", [self.tree(n.args[0])])
            if f == "bool" and len(n.args) == 1:
                return self.tree(n.args[0])
        if isinstance(n, ast.Compare) and len(n.ops) > 1:
            parts = []
            left = n.left
            for op, r in zip(n.ops, n.comparators):
                parts.append(self._cmp_atom(left, op, r))
                left = r
            return ("and", parts)
        if isinstance(n, ast.Compare):
            return self._cmp_atom(n.left, n.ops[0], n.comparators[0])
        if isinstance(n, ast.Name) and n.id in self.trees:
            return self.trees[n.id]
        if isinstance(n, ast.Constant) and isinstance(n.value, bool):
            return ("const", n.value)
        k = self.canon.ptext(n) + self._ver(n)
        self.leaves.setdefault(k, n)
        return ("atom", k)

    def _cmp_atom(self, left, op, right):
        neg = {ast.IsNot: ast.Is, ast.NotEq: ast.Eq, ast.NotIn: ast.In}.get(type(op))
        if neg is not None:
            # exact negations (also under NaN): a != b == not (a == b), a is not b == not (a is b)
            return ("not", [self._cmp_atom(left, neg(), right)])
        k = compare_atom(self.canon, left, op, right) + self._ver(ast.Tuple(elts=[left, right], ctx=ast.Load()))
        self.leaves.setdefault(k, (left, op, right))
        return ("atom", k)

    def is_boolish(self, v):
        if isinstance(v, (ast.BoolOp, ast.Compare)):
            return True
        if isinstance(v, ast.UnaryOp) and isinstance(v.op, (ast.Not, ast.Invert)):
            return True
        if isinstance(v, ast.BinOp) and isinstance(v.op, (ast.BitAnd, ast.BitOr)):
            return True
        if isinstance(v, ast.Call) and fname(v) in self.BOOL_CALLS + ("bool",):
            return True
        if isinstance(v, ast.Name) and v.id in self.trees:
            return True
        return False

    def run(self, stmts):
        for st in stmts:
            if isinstance(st, ast.Assign) and len(st.targets) == 1:
                t = st.targets[0]
                names = [x.id for x in ast.walk(t) if isinstance(x, ast.Name) and isinstance(x.ctx, ast.Store)]
                if isinstance(t, ast.Name) and self.is_boolish(st.value) and (self.tracked_only is None or t.id in self.tracked_only):
                    tr = self.tree(st.value)
                    self.trees[t.id] = tr
                    self.history.setdefault(t.id, []).append((st, tr))
                    self.version[t.id] = self.version.get(t.id, 0) + 1
                else:
                    for nm in names:
                        self.version[nm] = self.version.get(nm, 0) + 1
                        self.trees.pop(nm, None)
                    if isinstance(t, ast.Subscript) and isinstance(t.value, ast.Name):
                        # masked store  name[mask] = value : the name no longer denotes the tracked function everywhere
                        self.history.setdefault(t.value.id, []).append((st, None))
            elif isinstance(st, ast.AugAssign) and isinstance(st.target, ast.Name):
                self.version[st.target.id] = self.version.get(st.target.id, 0) + 1
                self.trees.pop(st.target.id, None)
            elif isinstance(st, ast.For) and isinstance(st.iter, (ast.Tuple, ast.List)) and isinstance(st.target, ast.Name) and not st.orelse and \
                    len(st.iter.elts) <= 16 and not any(isinstance(x, (ast.Break, ast.Continue)) for b in st.body for x in ast.walk(b)):
                # a loop over a literal tuple is its unrolling: the target names each element in turn
                from .front import clone

                class _S(ast.NodeTransformer):
                    def __init__(self, name, val):
                        self.name, self.val = name, val

                    def visit_Name(self, n):
                        return clone(self.val) if n.id == self.name and isinstance(n.ctx, ast.Load) else n
                for e in st.iter.elts:
                    self.run([_S(st.target.id, e).visit(clone(b)) for b in st.body])
            elif isinstance(st, (ast.For, ast.While)):
                for x in ast.walk(st.target) if isinstance(st, ast.For) else []:
                    if isinstance(x, ast.Name):
                        self.version[x.id] = self.version.get(x.id, 0) + 1
                self.run(st.body)
            elif isinstance(st, ast.If):
                # both branches are evaluated from the state before the `if`; a boolean name bound in both is the if-then-else of the two values
                # (`if m: b = x or y  else: b = x or z`  ==  b = (m and (x or y)) or (not m and (x or z)))
                before = dict(self.trees)
                cond = self.tree(st.test) if (self.is_boolish(st.test) or (isinstance(st.test, ast.Name))) else None
                self.run(st.body)
                after_body = dict(self.trees)
                self.trees = dict(before)
                self.run(st.orelse)
                after_else = dict(self.trees)
                merged = {}
                for nm in set(after_body) | set(after_else):
                    tb, te = after_body.get(nm), after_else.get(nm)
                    if tb is not None and te is not None and tb == te:
                        merged[nm] = tb
                    elif tb is not None and te is not None and cond is not None:
                        merged[nm] = ("or", [("and", [cond, tb]), ("and", [("not", [cond]), te])])
                        if self.history.get(nm):
                            self.history[nm].append((st, merged[nm]))
                    # a name defined on one side only is not tracked afterwards
                self.trees = merged
            elif isinstance(st, ast.With):
                self.run(st.body)


def tree_atoms(tree, out=None):
    out = out if out is not None else []
    if tree[0] == "atom":
        if tree[1] not in out:
            out.append(tree[1])
    elif tree[0] != "const":
        for t in tree[1]:
            tree_atoms(t, out)
    return out


# ------------------------------------------------------------------------------------------------
def _always_exits(stmts):
    """does the statement list always leave the enclosing block (return / raise / break / continue on every path)?"""
    for st in stmts:
        if isinstance(st, (ast.Return, ast.Raise, ast.Break, ast.Continue)):
            return True
        if isinstance(st, ast.If) and st.orelse and _always_exits(st.body) and _always_exits(st.orelse):
            return True
    return False


def path_condition(node, root, tracker=None, guards=False):
    """Boolean tree of the condition under which ``node`` executes inside ``root``: the conjunction, over the enclosing if statements
    and conditional expressions, of the test (node in the body) or its negation (node in the else part).  Loops and try blocks do not
    contribute.  Use with ``equivalent`` to compare guards whatever their syntactic arrangement (swapped branches, De Morgan, elif).
    With ``guards`` the guard clauses that precede the node in its own blocks count too: after `if c: return ...` the rest of the block
    runs under `not c` (the early-return arrangement of an if/else)."""
    bt = tracker or BoolTracker()
    conj = []
    child = node
    p = getattr(node, "_parent", None)
    while p is not None and child is not root:
        if guards and isinstance(child, ast.stmt):
            for field in ("body", "orelse", "finalbody"):
                blk = getattr(p, field, None)
                if isinstance(blk, list) and any(child is b for b in blk):
                    for prev in blk[:[i for i, b in enumerate(blk) if b is child][0]]:
                        if isinstance(prev, ast.If):
                            if _always_exits(prev.body) and not _always_exits(prev.orelse):
                                conj.append(("not", [bt.tree(prev.test)]))
                            elif prev.orelse and _always_exits(prev.orelse) and not _always_exits(prev.body):
                                conj.append(bt.tree(prev.test))
        if isinstance(p, ast.If):
            if any(child is b for b in p.body):
                conj.append(bt.tree(p.test))
            elif any(child is b for b in p.orelse):
                conj.append(("not", [bt.tree(p.test)]))
        elif isinstance(p, ast.IfExp):
            if child is p.body:
                conj.append(bt.tree(p.test))
            elif child is p.orelse:
                conj.append(("not", [bt.tree(p.test)]))
        elif isinstance(p, ast.BoolOp) and isinstance(p.op, ast.And):
            idx = [i for i, v in enumerate(p.values) if v is child]
            if idx:
                conj += [bt.tree(v) for v in p.values[:idx[0]]]
        elif isinstance(p, ast.BoolOp) and isinstance(p.op, ast.Or):
            idx = [i for i, v in enumerate(p.values) if v is child]
            if idx:
                conj += [("not", [bt.tree(v)]) for v in p.values[:idx[0]]]      # short circuit: reached only when the earlier operands are false
        child = p
        p = getattr(p, "_parent", None)
    if not conj:
        return ("const", True), bt
    return ("and", list(reversed(conj))), bt


def equivalent(tree, expected, atoms=None, constraints=None, strip_versions=True):
    """Are two boolean trees the same function?  ``expected`` is a python callable on an assignment dict or a tree.
    ``constraints(assignment)`` may exclude impossible assignments (e.g. is_implicit == not is_explicit).
    Returns (ok, counterexample)."""
    def strip(t):
        if t[0] == "atom":
            return ("atom", t[1].split("@")[0]) if strip_versions else t
        if t[0] == "const":
            return t
        return (t[0], [strip(x) for x in t[1]])
    tree = strip(tree)
    at = list(atoms) if atoms is not None else tree_atoms(tree)
    for a in tree_atoms(tree):
        if a not in at:
            at.append(a)
    if not callable(expected):
        expected = strip(expected)
        for a in tree_atoms(expected):
            if a not in at:
                at.append(a)
    if len(at) > 14:
        raise AnalysisError("too many atoms for a truth table: %s" % at)
    for vals in itertools.product((False, True), repeat=len(at)):
        asg = dict(zip(at, vals))
        if constraints is not None and not constraints(asg):
            continue
        want = expected(asg) if callable(expected) else eval_bool(expected, asg)
        if eval_bool(tree, asg) != bool(want):
            return False, asg
    return True, None
